import ElvisVerif.Lemmas.C01Proc
import ElvisVerif.Props.C01
/-!
# C01 — the stream invariant of the closed two-endpoint system

`Inv iss s`: both sides satisfy `SideInv` (the TCB, if any, satisfies `TInv` against the ghost
logs of the two sides; a side that only listens has empty logs and the configured ISS; the
delivered log is a prefix of the peer's submitted log) and every history element that carries
side X's source port is `Valid` for X (monotone history: validity survives later writes).

`OpOk iss s op`: the ops the C01 statement quantifies over — `write`, `read`, `tick`, `emit`,
`deliver` of any history element *to the endpoint it is addressed to* (the real `Tcp::demux` routes
by the port pair; the model's `deliver` does not check it, so the hypothesis is explicit), `drop`,
and `open` / `listen` with the configured ISS on a side that has never been used.  No `close`,
`abort`, raw `inject`.

`step_inv`: one step keeps `Inv` (H31 — fewer than 2^31 bytes submitted per direction — is used
only by `deliver`, for the heap gate).
-/
namespace Elvis.Tcp.C01
open Elvis.ModCmp Elvis.Tcp.Tcb

/-! ## sides -/

theorem peer_peer (x : SideId) : x.peer.peer = x := by cases x <;> rfl
theorem eq_or_peer (x y : SideId) : y = x ∨ y = x.peer := by cases x <;> cases y <;> simp [SideId.peer]
theorem port_inj {x y : SideId} (h : x.port = y.port) : x = y := by
  cases x <;> cases y <;> first | rfl | (exact absurd h (by decide))
theorem peer_ne (x : SideId) : x.peer ≠ x := by cases x <;> simp [SideId.peer]

@[simp] theorem side_setSide_self (s : Sys) (x : SideId) (v : Side) : (s.setSide x v).side x = v := by
  cases x <;> rfl
@[simp] theorem side_setSide_peer (s : Sys) (x : SideId) (v : Side) :
    (s.setSide x v).side x.peer = s.side x.peer := by cases x <;> rfl
@[simp] theorem history_setSide (s : Sys) (x : SideId) (v : Side) : (s.setSide x v).history = s.history := by
  cases x <;> rfl
@[simp] theorem side_record (s : Sys) (segs : List Segment) (y : SideId) : (s.record segs).side y = s.side y := by
  cases y <;> rfl
@[simp] theorem history_record (s : Sys) (segs : List Segment) :
    (s.record segs).history = segs.reverse ++ s.history := rfl

/-- the segment is addressed to endpoint `x` by its peer (what `Tcp::demux` matches on) -/
def Addressed (x : SideId) (g : Segment) : Prop := g.hdr.srcPort = x.peer.port ∧ g.hdr.dstPort = x.port

/-- a side nobody has used yet -/
def Pristine (sd : Side) : Prop := sd.tcb = none ∧ sd.listen = none ∧ sd.submitted = [] ∧ sd.delivered = []

/-- invariant of one side `sd` (port `port`, ISS `ix`) against its peer `pd` (ISS `iy`) -/
structure SideInv (port : U16) (ix iy : Seq) (sd pd : Side) : Prop where
  tcb : ∀ t, sd.tcb = some t → TInv port ix iy sd.submitted pd.submitted sd.delivered t
  fresh : ∀ i m, sd.tcb = none → sd.listen = some (i, m) → i = ix ∧ sd.submitted = [] ∧ sd.delivered = []
  pre : sd.delivered <+: pd.submitted

theorem SideInv.peer_more {port : U16} {ix iy : Seq} {sd pd : Side} (h : SideInv port ix iy sd pd) (pd' : Side)
    (more : List UInt8) (e : pd'.submitted = pd.submitted ++ more) : SideInv port ix iy sd pd' :=
  ⟨fun t ht => by rw [e]; exact (h.tcb t ht).mono_peer more, h.fresh,
    by rw [e]; exact h.pre.trans (List.prefix_append _ _)⟩

theorem SideInv.peer_same {port : U16} {ix iy : Seq} {sd pd : Side} (h : SideInv port ix iy sd pd) (pd' : Side)
    (e : pd'.submitted = pd.submitted) : SideInv port ix iy sd pd' :=
  ⟨fun t ht => by rw [e]; exact h.tcb t ht, h.fresh, by rw [e]; exact h.pre⟩

theorem SideInv.gone {port : U16} {ix iy : Seq} {sd pd : Side} (h : SideInv port ix iy sd pd) :
    SideInv port ix iy { sd with tcb := none, listen := none } pd :=
  ⟨(fun _ ht => by cases ht), (fun _ _ _ hl => by cases hl), h.pre⟩

/-- the side with a new TCB (same logs) -/
theorem SideInv.withTcb {port : U16} {ix iy : Seq} {sd pd : Side} (h : SideInv port ix iy sd pd) (t' : Tcb)
    (l : Option (Seq × U16))
    (ht : TInv port ix iy sd.submitted pd.submitted sd.delivered t') :
    SideInv port ix iy { sd with tcb := some t', listen := l } pd :=
  ⟨(fun t e => by cases e; exact ht), (fun _ _ e _ => by cases e), h.pre⟩

theorem TInv.delivered_prefix {port : U16} {issX issY : Seq} {subX subY delX : List UInt8} {t : Tcb}
    (h : TInv port issX issY subX subY delX t) : delX <+: subY :=
  (List.prefix_append _ _).trans h.buffered_prefix

/-! ## the system invariant -/

structure Inv (iss : SideId → Seq) (s : Sys) : Prop where
  side : ∀ x, SideInv x.port (iss x) (iss x.peer) (s.side x) (s.side x.peer)
  hist : ∀ g ∈ s.history, ∀ x : SideId, g.hdr.srcPort = x.port → Valid (iss x) (s.side x).submitted g

theorem Inv.side_peer {iss : SideId → Seq} {s : Sys} (h : Inv iss s) (x : SideId) :
    SideInv x.peer.port (iss x.peer) (iss x) (s.side x.peer) (s.side x) := by
  have := h.side x.peer
  rwa [peer_peer] at this

theorem Inv.build {iss : SideId → Seq} {s' : Sys} (x : SideId)
    (hx : SideInv x.port (iss x) (iss x.peer) (s'.side x) (s'.side x.peer))
    (hy : SideInv x.peer.port (iss x.peer) (iss x) (s'.side x.peer) (s'.side x))
    (hh : ∀ g ∈ s'.history, ∀ y : SideId, g.hdr.srcPort = y.port → Valid (iss y) (s'.side y).submitted g) :
    Inv iss s' := by
  refine ⟨fun y => ?_, hh⟩
  rcases eq_or_peer x y with rfl | rfl
  · exact hx
  · rw [peer_peer]; exact hy

/-- the empty system satisfies the invariant for every ISN pair -/
theorem Inv.init (iss : SideId → Seq) : Inv iss {} := by
  refine ⟨fun x => ?_, fun g hg => by cases hg⟩
  cases x <;>
    exact ⟨(fun _ ht => by cases ht), (fun _ _ _ hl => by cases hl), List.prefix_refl _⟩

/-- the ops of the C01 statement -/
def OpOk (iss : SideId → Seq) (s : Sys) : Op → Prop
  | .open x i _ => i = iss x ∧ Pristine (s.side x)
  | .listen x i _ => i = iss x ∧ Pristine (s.side x)
  | .write _ _ | .read _ | .tick _ _ | .emit _ | .drop _ => True
  | .deliver x i => ∀ g, s.nth i = some g → Addressed x g
  | .inject _ _ | .close _ | .abort _ => False

/-- H31: fewer than 2^31 bytes submitted in each direction -/
def Lt31 (s : Sys) : Prop := s.a.submitted.length < 2147483648 ∧ s.b.submitted.length < 2147483648

theorem Lt31.side {s : Sys} (h : Lt31 s) (x : SideId) : (s.side x).submitted.length < 2147483648 := by
  cases x
  · exact h.1
  · exact h.2

section
variable {iss : SideId → Seq}

/-- a step that replaces side `x` by a side with the same submitted log and appends valid
    segments of `x` to the history -/
theorem Inv.update_gen {s s' : Sys} (h : Inv iss s) (x : SideId) (v : Side) (segs : List Segment)
    (e1 : s'.side x = v) (e2 : s'.side x.peer = s.side x.peer)
    (e3 : ∀ g ∈ s'.history, g ∈ segs ∨ g ∈ s.history)
    (hsub : v.submitted = (s.side x).submitted)
    (hv : SideInv x.port (iss x) (iss x.peer) v (s.side x.peer))
    (hs : ∀ g ∈ segs, Valid (iss x) v.submitted g ∧ g.hdr.srcPort = x.port) :
    Inv iss s' := by
  refine Inv.build x ?_ ?_ ?_
  · rw [e1, e2]; exact hv
  · rw [e1, e2]
    exact (h.side_peer x).peer_same v hsub
  · intro g hg y hy
    rcases e3 g hg with hg | hg
    · obtain ⟨hval, hp⟩ := hs g hg
      have : y = x := port_inj (hy.symm.trans hp)
      subst this
      rw [e1]; exact hval
    · rcases eq_or_peer x y with rfl | rfl
      · rw [e1, hsub]; exact h.hist g hg _ hy
      · rw [e2]; exact h.hist g hg _ hy

theorem Inv.update {s : Sys} (h : Inv iss s) (x : SideId) (v : Side) (segs : List Segment)
    (hsub : v.submitted = (s.side x).submitted)
    (hv : SideInv x.port (iss x) (iss x.peer) v (s.side x.peer))
    (hs : ∀ g ∈ segs, Valid (iss x) v.submitted g ∧ g.hdr.srcPort = x.port) :
    Inv iss ((s.setSide x v).record segs) :=
  h.update_gen x v segs (by simp) (by simp)
    (fun g hg => by
      simp only [history_record, history_setSide, List.mem_append, List.mem_reverse] at hg
      exact hg) hsub hv hs

theorem Inv.update' {s : Sys} (h : Inv iss s) (x : SideId) (v : Side)
    (hsub : v.submitted = (s.side x).submitted)
    (hv : SideInv x.port (iss x) (iss x.peer) v (s.side x.peer)) :
    Inv iss (s.setSide x v) :=
  h.update_gen x v [] (by simp) (by simp) (fun g hg => Or.inr (by simpa using hg)) hsub hv
    (fun g hg => by cases hg)

/-- a response of a side without TCB (RST from CLOSED / LISTEN) -/
theorem Inv.respond {s : Sys} (h : Inv iss s) (x : SideId) (hd : Hdr)
    (hp : hd.ctl.syn = false ∧ hd.ctl.fin = false ∧ hd.srcPort = x.port) : Inv iss (s.record [⟨hd, []⟩]) := by
  refine ⟨fun y => by simpa using h.side y, fun g hg y hy => ?_⟩
  simp only [history_record, List.reverse_cons, List.reverse_nil, List.nil_append, List.cons_append,
    List.mem_cons] at hg
  rcases hg with rfl | hg
  · exact Valid.plain hd hp.1 hp.2.1
  · simpa using h.hist g hg y hy

/-- a segment addressed to `x` arrives at `x` -/
theorem arrive_inv {s s' : Sys} {x : SideId} {g : Segment} {r : Res} (h : Inv iss s) (h31 : Lt31 s)
    (ha : Addressed x g) (hg : g ∈ s.history) (e : s.arrive x g = .ok (s', r)) : Inv iss s' := by
  have hval : Valid (iss x.peer) (s.side x.peer).submitted g := h.hist g hg x.peer ha.1
  have hsd := h.side x
  unfold Sys.arrive at e
  dsimp only at e
  cases htcb : (s.side x).tcb with
  | some tcb =>
    rw [htcb] at e
    dsimp only at e
    cases hs : tcb.segmentArrives g with
    | error err => rw [hs] at e; cases e
    | ok p =>
      obtain ⟨t1, r1⟩ := p
      rw [hs] at e
      have i1 := segmentArrives_inv (hsd.tcb tcb htcb) hval (h31.side x.peer) hs
      cases r1 with
      | Ok => cases e; exact h.update' x _ rfl (hsd.withTcb t1 _ i1)
      | Close => cases e; exact h.update' x _ rfl hsd.gone
  | none =>
    rw [htcb] at e
    dsimp only at e
    cases hl : (s.side x).listen with
    | some p =>
      obtain ⟨i, m⟩ := p
      rw [hl] at e
      dsimp only at e
      obtain ⟨hi, hsub, hdel⟩ := hsd.fresh i m htcb hl
      cases hs : segmentArrivesListen g i m with
      | error err => rw [hs] at e; cases e
      | ok res =>
        rw [hs] at e
        obtain ⟨lt, lr⟩ := listen_inv (issY := iss x.peer) (subY := (s.side x.peer).submitted) hval hs
        cases res with
        | none => cases e; exact h
        | some lres =>
          cases lres with
          | Tcb t =>
            cases e
            refine h.update' x _ rfl (hsd.withTcb t _ ?_)
            have := lt t rfl
            rw [ha.2, hi] at this
            rw [hsub, hdel]; exact this
          | Response hd =>
            cases e
            have := lr hd rfl
            exact h.respond x hd ⟨this.1, this.2.1, this.2.2.trans ha.2⟩
    | none =>
      rw [hl] at e
      dsimp only at e
      cases hs : segmentArrivesClosed g.hdr (BitVec.ofNat 32 g.text.length) with
      | none => rw [hs] at e; cases e; exact h
      | some hd =>
        rw [hs] at e
        cases e
        have := closed_plain hs
        exact h.respond x hd ⟨this.1, this.2.1, this.2.2.trans ha.2⟩

/-- **one step of the closed system keeps the stream invariant** -/
theorem step_inv {s s' : Sys} {op : Op} {r : Res} (h : Inv iss s) (hop : OpOk iss s op) (h31 : Lt31 s)
    (e : s.step op = .ok (s', r)) : Inv iss s' := by
  cases op with
  | «open» x i mtu =>
    obtain ⟨hi, htcb, hl, hsub, hdel⟩ := hop
    simp only [Sys.step, Op.side] at e
    cases ho : Tcb.open x.port x.peer.port i mtu with
    | error err => rw [ho] at e; cases e
    | ok t =>
      rw [ho] at e
      cases e
      refine h.update' x _ rfl ((h.side x).withTcb t _ ?_)
      have := open_inv (issY := iss x.peer) (subY := (s.side x.peer).submitted) ho
      rw [hsub, hdel, ← hi]; exact this
  | listen x i mtu =>
    obtain ⟨hi, htcb, hl, hsub, hdel⟩ := hop
    simp only [Sys.step, Op.side] at e
    cases e
    refine h.update' x _ rfl ⟨fun t ht => (h.side x).tcb t ht, fun i' m' _ hl' => ?_, (h.side x).pre⟩
    simp only [Option.some.injEq, Prod.mk.injEq] at hl'
    exact ⟨hl'.1 ▸ hi, hsub, hdel⟩
  | deliver x i =>
    simp only [Sys.step, Op.side] at e
    cases hn : s.nth i with
    | none => rw [hn] at e; cases e; exact h
    | some g =>
      rw [hn] at e
      exact arrive_inv h h31 (hop g hn) (nth_mem s i g hn) e
  | inject x g => exact hop.elim
  | close x => exact hop.elim
  | abort x => exact hop.elim
  | drop x =>
    simp only [Sys.step, Op.side] at e
    cases e
    exact h.update' x _ rfl (h.side x).gone
  | write x bytes =>
    simp only [Sys.step, Op.side] at e
    cases ht : (s.side x).tcb with
    | none => rw [ht] at e; cases e; exact h
    | some tcb =>
      rw [ht] at e
      cases e
      have hsd := h.side x
      refine Inv.build x ?_ ?_ ?_
      · simp only [side_setSide_self, side_setSide_peer]
        exact ⟨(fun t e => by cases e; exact send_inv (hsd.tcb tcb ht) bytes), (fun _ _ e _ => by cases e), hsd.pre⟩
      · simp only [side_setSide_self, side_setSide_peer]
        exact (h.side_peer x).peer_more _ (if sendAccepts tcb.state then bytes else []) rfl
      · intro g hg y hy
        simp only [history_setSide] at hg
        rcases eq_or_peer x y with rfl | rfl
        · simp only [side_setSide_self]
          exact (h.hist g hg _ hy).mono _
        · simp only [side_setSide_peer]
          exact h.hist g hg _ hy
  | read x =>
    simp only [Sys.step, Op.side] at e
    cases ht : (s.side x).tcb with
    | none => rw [ht] at e; cases e; exact h
    | some tcb =>
      rw [ht] at e
      dsimp only at e
      have hsd := h.side x
      have i1 := receive_inv (hsd.tcb tcb ht)
      cases e
      refine h.update' x _ rfl ⟨(fun t e => by cases e; exact i1), (fun _ _ e _ => by cases e), i1.delivered_prefix⟩
  | tick x ms =>
    simp only [Sys.step, Op.side] at e
    cases ht : (s.side x).tcb with
    | none => rw [ht] at e; cases e; exact h
    | some tcb =>
      rw [ht] at e
      dsimp only at e
      have hsd := h.side x
      cases ha : tcb.advanceTime ms with
      | error err => rw [ha] at e; cases e
      | ok p =>
        obtain ⟨t1, r1⟩ := p
        rw [ha] at e
        cases r1 with
        | Ignore => cases e; exact h.update' x _ rfl (hsd.withTcb t1 _ ((hsd.tcb tcb ht).of_fr (advanceTime_fr ha)))
        | CloseConnection => cases e; exact h.update' x _ rfl hsd.gone
  | emit x =>
    simp only [Sys.step, Op.side] at e
    cases ht : (s.side x).tcb with
    | none => rw [ht] at e; cases e; exact h
    | some tcb =>
      rw [ht] at e
      dsimp only at e
      have hsd := h.side x
      cases hs : tcb.segments with
      | error err => rw [hs] at e; cases e
      | ok p =>
        obtain ⟨t1, out⟩ := p
        rw [hs] at e
        cases e
        obtain ⟨i1, hout⟩ := segments_inv (hsd.tcb tcb ht) hs
        exact h.update x _ out rfl (hsd.withTcb t1 _ i1) hout

end
end Elvis.Tcp.C01
