import Driver.Common
/-! Line-protocol handlers for C10 (sub-commands `c10` / `c10-*`). -/
namespace Driver.C10

def dispatch (_sub : String) (_i _o : IO.FS.Stream) : Option (IO Unit) := none

end Driver.C10
