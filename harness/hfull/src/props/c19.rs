//! C19 (a network description means what it says) and the NDL clause of C14 (no text makes the
//! description parser panic), on the REAL `core_parser` / `general_parser` / generator.
//!
//! Sub-commands
//!   `c19-parse`  generated description trees rendered in three layouts (tabs / 4 spaces / CRLF),
//!                parsed by the real `core_parser` from a temp file under `--out`; the resulting
//!                `Sim` is dumped canonically (map entries sorted) and compared (a) with the
//!                tree it was rendered from (native oracle) and (b) with the Lean model's parse
//!                of the same text (diff).  Structural-error mutants (wrong nesting depth, unknown
//!                type, missing section, duplicate id, duplicate argument) must be rejected.
//!   `c14-ndl`    mutated texts (token insertion/deletion/truncation, indentation changes with
//!                tabs / 4 spaces / mixed, CRLF, non-ASCII near the byte-index slices, awkward
//!                code points -- multi-byte blanks etc. -- at every kind of structural boundary:
//!                `AWKWARD`, `boundaries`, `boundary_sweep`); oracle:
//!                the outcome is a value or an `Err`, never a panic; outcome class (value /
//!                error kind / panic site) diffed against the model.
//!   `c19-run`    semantically valid descriptions built, run on a paused-clock runtime in worker
//!                child processes, captures inspected afterwards (see the second half).
//!
//! Op lines (driver `Driver/C19.lean`)
//!   `render <layout> <simspec…>`   -> `text <hex utf-8>`
//!   `parse <hex utf-8>`            -> `ok <dump>` | `err <kind>[ <line>]` | `panic <site>`
//!   `lex <line_num> <hex utf-8>`   -> `ok <Type> P<k> … rest=<hex> line=<n>` | `err …` | `panic …`
//!   `run <simspec…>`               -> `expect status=… <capture deliveries>`
use crate::scaffold::*;
use elvis::ndl::core_parser;
use elvis::ndl::parsing::parsing_data as pd;
use elvis::ndl::parsing::verif::general_parser;
use hcommon::*;
use std::collections::HashMap;
use std::path::{Path, PathBuf};

// ------------------------------------------------------------------------------------------
// description trees
// ------------------------------------------------------------------------------------------

type Opts = Vec<(String, String)>;

#[derive(Clone, Debug, PartialEq)]
pub struct Leaf {
    pub dt: String,
    pub opts: Opts,
}
#[derive(Clone, Debug, PartialEq)]
pub struct Net {
    pub opts: Opts,
    pub ips: Vec<Leaf>,
}
#[derive(Clone, Debug, PartialEq)]
pub struct Mach {
    pub opts: Opts,
    pub nets: Vec<Leaf>,
    pub prots: Vec<Leaf>,
    pub apps: Vec<Leaf>,
}
#[derive(Clone, Debug, PartialEq, Default)]
pub struct Tree {
    pub nets: Vec<Net>,
    pub machs: Vec<Mach>,
}

fn hx(s: &str) -> String {
    hex(s.as_bytes())
}
fn unhx(s: &str) -> Option<String> {
    String::from_utf8(unhex(s)).ok()
}

fn opts_tokens(o: &Opts, sorted: bool, out: &mut Vec<String>) {
    let mut v: Vec<(String, String)> = o.iter().map(|(k, v)| (hx(k), hx(v))).collect();
    if sorted {
        v.sort();
    }
    out.push(format!("P{}", v.len()));
    for (k, v) in v {
        out.push(format!("{}={}", k, v));
    }
}
fn leaves_tokens(tag: &str, ls: &[Leaf], sorted: bool, out: &mut Vec<String>) {
    out.push(format!("{}{}", tag, ls.len()));
    for l in ls {
        out.push(l.dt.clone());
        opts_tokens(&l.opts, sorted, out);
    }
}
fn get<'a>(o: &'a Opts, k: &str) -> Option<&'a str> {
    o.iter().find(|e| e.0 == k).map(|e| e.1.as_str())
}

impl Tree {
    /// token form shared by the `render`/`run` op lines (in order) and the canonical dump
    /// (`sorted`: map entries by key bytes, networks by id)
    fn tokens(&self, sorted: bool) -> String {
        let mut out = vec![];
        let mut nets: Vec<(String, &Net)> = self.nets.iter().map(|n| (hx(get(&n.opts, "id").unwrap_or("")), n)).collect();
        if sorted {
            nets.sort_by(|a, b| a.0.cmp(&b.0));
        }
        out.push(format!("N{}", nets.len()));
        for (id, n) in nets {
            out.push("net".into());
            out.push(id);
            out.push("Network".into());
            opts_tokens(&n.opts, sorted, &mut out);
            leaves_tokens("I", &n.ips, sorted, &mut out);
        }
        out.push(format!("M{}", self.machs.len()));
        for m in &self.machs {
            out.push("mach".into());
            out.push("Machine".into());
            opts_tokens(&m.opts, sorted, &mut out);
            leaves_tokens("n", &m.nets, sorted, &mut out);
            leaves_tokens("p", &m.prots, sorted, &mut out);
            leaves_tokens("a", &m.apps, sorted, &mut out);
        }
        out.join(" ")
    }

    fn from_tokens(toks: &[&str]) -> Option<Tree> {
        struct P<'a> {
            t: &'a [&'a str],
            i: usize,
        }
        impl<'a> P<'a> {
            fn next(&mut self) -> Option<&'a str> {
                let x = self.t.get(self.i).copied();
                self.i += 1;
                x
            }
            fn count(&mut self, tag: &str) -> Option<usize> {
                self.next()?.strip_prefix(tag)?.parse().ok()
            }
            fn opts(&mut self) -> Option<Opts> {
                let n = self.count("P")?;
                let mut o = vec![];
                for _ in 0..n {
                    let (k, v) = self.next()?.split_once('=')?;
                    o.push((unhx(k)?, unhx(v)?));
                }
                Some(o)
            }
            fn leaves(&mut self, tag: &str) -> Option<Vec<Leaf>> {
                let n = self.count(tag)?;
                let mut ls = vec![];
                for _ in 0..n {
                    let dt = self.next()?.to_string();
                    ls.push(Leaf { dt, opts: self.opts()? });
                }
                Some(ls)
            }
        }
        let mut p = P { t: toks, i: 0 };
        let mut t = Tree::default();
        for _ in 0..p.count("N")? {
            p.next()?; // net
            p.next()?; // id
            p.next()?; // Network
            let opts = p.opts()?;
            t.nets.push(Net { opts, ips: p.leaves("I")? });
        }
        for _ in 0..p.count("M")? {
            p.next()?;
            p.next()?;
            let opts = p.opts()?;
            t.machs.push(Mach { opts, nets: p.leaves("n")?, prots: p.leaves("p")?, apps: p.leaves("a")? });
        }
        Some(t)
    }
}

// ------------------------------------------------------------------------------------------
// rendering (independent re-implementation of `Elvis.Ndl.render`; the two are diffed)
// ------------------------------------------------------------------------------------------

#[derive(Clone, Copy, PartialEq, Debug)]
pub enum Layout {
    Tabs,
    Spaces,
    Crlf,
}
impl Layout {
    fn name(self) -> &'static str {
        match self {
            Layout::Tabs => "tabs",
            Layout::Spaces => "spaces",
            Layout::Crlf => "crlf",
        }
    }
    fn parse(s: &str) -> Option<Layout> {
        Some(match s {
            "tabs" => Layout::Tabs,
            "spaces" => Layout::Spaces,
            "crlf" => Layout::Crlf,
            _ => return None,
        })
    }
}
const LAYOUTS: [Layout; 3] = [Layout::Tabs, Layout::Spaces, Layout::Crlf];

fn render_line(lay: Layout, depth: usize, dt: &str, opts: &Opts, out: &mut String) {
    for _ in 0..depth {
        out.push_str(if lay == Layout::Spaces { "    " } else { "\t" });
    }
    out.push('[');
    out.push_str(dt);
    for (k, v) in opts {
        out.push(' ');
        out.push_str(k);
        out.push_str("='");
        out.push_str(v);
        out.push('\'');
    }
    out.push(']');
    out.push_str(if lay == Layout::Crlf { "\r\n" } else { "\n" });
}

pub fn render(lay: Layout, t: &Tree) -> String {
    let mut s = String::new();
    render_line(lay, 0, "Networks", &vec![], &mut s);
    for n in &t.nets {
        render_line(lay, 1, "Network", &n.opts, &mut s);
        for ip in &n.ips {
            render_line(lay, 2, &ip.dt, &ip.opts, &mut s);
        }
    }
    render_line(lay, 0, "Machines", &vec![], &mut s);
    for m in &t.machs {
        render_line(lay, 1, "Machine", &m.opts, &mut s);
        for (name, ls) in [("Networks", &m.nets), ("Protocols", &m.prots), ("Applications", &m.apps)] {
            render_line(lay, 2, name, &vec![], &mut s);
            for l in ls {
                render_line(lay, 3, &l.dt, &l.opts, &mut s);
            }
        }
    }
    s
}

// ---- written forms of one tree (appendix A.6 / `Doc` of Props/C19b) -------------------------------
//
// `render` writes every section on one line with single spaces.  The grammar accepts much more,
// and "parsing is a function of the text alone" must hold for all of it: arguments separated by
// one or more spaces, tabs or NEWLINES inside the brackets (an argument list wrapped over several
// lines, with or without indentation of the continuation lines), type tags in any letter case,
// blank lines after a line, a missing final line end, `[Template …]` lines at the top level,
// the sections of a machine in any order, several `[Networks]` blocks, `[Machines]` before
// `[Networks]`; and a file saved with CRLF has CR LF at EVERY line break -- also those inside a
// section's brackets and inside quoted values.

/// how one tree is written; every decision is drawn from `seed`, independent of the layout, so
/// the three layouts of one form differ in nothing but indentation unit and line ends
#[derive(Clone, Copy, Debug)]
pub struct Form {
    seed: u64,
    /// per argument, in percent: the separator before it contains a line break
    wrap: u64,
    /// per argument, in percent: the separator is longer than one character
    multi: u64,
    /// per line, in percent: blank line(s) after it
    blank: u64,
    /// 0 = tags as in `render`, 1 = lower case, 2 = upper case, 3 = letter by letter
    case: u8,
    /// sections of a machine / blocks of the file in another order, `[Template]` lines
    reorder: bool,
    /// last line without its line end
    no_final_newline: bool,
}

/// CRLF flavours of a written form: `Lines` = CR LF only where a line of the description ends
/// (what `render` does), `Whole` = every line break of the file, also inside brackets and values
#[derive(Clone, Copy, PartialEq, Debug)]
pub enum CrMode {
    Lines,
    Whole,
}

impl Form {
    fn draw(rng: &mut Rng, style: u64) -> Form {
        let seed = rng.next();
        let f = Form { seed, wrap: 0, multi: 0, blank: 0, case: 0, reorder: false, no_final_newline: false };
        match style % 6 {
            // every argument on a line of its own
            0 => Form { wrap: 100, ..f },
            // some arguments wrapped, some separators longer
            1 => Form { wrap: 35, multi: 30, ..f },
            // one-line sections, blank lines, tag case
            2 => Form { blank: 30, case: 1 + (seed % 3) as u8, ..f },
            // long separators of blanks and tabs only
            3 => Form { multi: 100, case: (seed % 4) as u8, ..f },
            // other block / section order
            4 => Form { wrap: 20, multi: 20, blank: 10, reorder: true, ..f },
            // everything
            _ => Form { wrap: 50, multi: 50, blank: 20, case: 3, reorder: true, no_final_newline: seed % 2 == 0, ..f },
        }
    }
}

struct FormWriter {
    rng: Rng,
    f: Form,
    lay: Layout,
    out: String,
}

impl FormWriter {
    fn unit(&self) -> &'static str {
        if self.lay == Layout::Spaces { "    " } else { "\t" }
    }
    fn tag(&mut self, dt: &str) -> String {
        match self.f.case {
            0 => dt.to_string(),
            1 => dt.to_ascii_lowercase(),
            2 => dt.to_ascii_uppercase(),
            _ => dt.chars().map(|c| if self.rng.chance(1, 2) { c.to_ascii_uppercase() } else { c.to_ascii_lowercase() }).collect(),
        }
    }
    /// one or more of space / tab / newline; a line break may be followed by the indentation of
    /// a continuation line.  The random draws do not depend on the layout.
    fn separator(&mut self, depth: usize) -> String {
        let wrapped = self.rng.below(100) < self.f.wrap;
        let multi = self.rng.below(100) < self.f.multi;
        let shape = self.rng.below(6);
        let extra = self.rng.below(3);
        let mut s = String::new();
        if wrapped {
            if multi && shape % 2 == 0 {
                s.push(' ');
            }
            s.push('\n');
            match shape {
                0 | 1 | 2 => {
                    for _ in 0..depth + 1 {
                        s.push_str(self.unit());
                    }
                }
                3 => s.push_str(self.unit()),
                4 => s.push(' '),
                _ => {}
            }
            if multi && extra == 2 {
                s.push('\n');
            }
        } else if multi {
            s.push_str(["  ", "\t", " \t", "\t ", "   ", "\t\t"][shape as usize]);
        } else {
            s.push(' ');
        }
        s
    }
    fn line(&mut self, depth: usize, dt: &str, opts: &Opts) {
        for _ in 0..depth {
            let u = self.unit();
            self.out.push_str(u);
        }
        self.out.push('[');
        let t = self.tag(dt);
        self.out.push_str(&t);
        for (k, v) in opts {
            let sep = self.separator(depth);
            self.out.push_str(&sep);
            self.out.push_str(k);
            self.out.push_str("='");
            self.out.push_str(v);
            self.out.push('\'');
        }
        self.out.push(']');
        self.out.push('\n');
        if self.rng.below(100) < self.f.blank {
            for _ in 0..self.rng.range(1, 2) {
                self.out.push('\n');
            }
        }
    }
}

/// the written form `f` of `t` in layout `lay` (for `Layout::Crlf`: line breaks per `cr`)
pub fn render_form(f: Form, lay: Layout, cr: CrMode, t: &Tree) -> String {
    let mut w = FormWriter { rng: Rng::new(f.seed), f, lay, out: String::new() };
    // blocks: the networks in one or two `[Networks]` blocks, the machines in one `[Machines]`
    // block, before or after them; `[Template]` lines in between (ignored at the top level)
    let split = if f.reorder && t.nets.len() >= 2 { 1 + w.rng.below(t.nets.len() as u64 - 1) as usize } else { t.nets.len() };
    let machines_first = f.reorder && w.rng.chance(1, 2);
    let template = f.reorder && w.rng.chance(1, 2);
    let mut blocks: Vec<u8> = vec![0];
    if split < t.nets.len() {
        blocks.push(1);
    }
    if machines_first {
        blocks.insert(0, 2);
    } else if f.reorder && blocks.len() == 2 && w.rng.chance(1, 2) {
        blocks.insert(1, 2);
    } else {
        blocks.push(2);
    }
    let none: Opts = vec![];
    for (bi, b) in blocks.iter().enumerate() {
        if template && bi == 1 {
            w.line(0, "Template", &vec![("name".to_string(), "t".to_string())]);
        }
        match b {
            0 | 1 => {
                w.line(0, "Networks", &none);
                let part = if *b == 0 { &t.nets[..split] } else { &t.nets[split..] };
                for n in part {
                    w.line(1, "Network", &n.opts);
                    for ip in &n.ips {
                        w.line(2, &ip.dt, &ip.opts);
                    }
                }
            }
            _ => {
                w.line(0, "Machines", &none);
                for m in &t.machs {
                    w.line(1, "Machine", &m.opts);
                    let mut secs = vec![("Networks", &m.nets), ("Protocols", &m.prots), ("Applications", &m.apps)];
                    if f.reorder {
                        for i in (1..secs.len()).rev() {
                            let j = w.rng.below(i as u64 + 1) as usize;
                            secs.swap(i, j);
                        }
                    }
                    for (name, ls) in secs {
                        w.line(2, name, &none);
                        for l in ls {
                            w.line(3, &l.dt, &l.opts);
                        }
                    }
                }
            }
        }
    }
    let mut s = w.out;
    if f.no_final_newline {
        while s.ends_with('\n') {
            s.pop();
        }
    }
    if lay == Layout::Crlf {
        s = match cr {
            CrMode::Whole => s.replace('\n', "\r\n"),
            CrMode::Lines => {
                // CR LF only at the line breaks outside the brackets (ends of the description's lines, blank lines)
                let mut o = String::with_capacity(s.len() + 64);
                let mut in_br = false;
                for c in s.chars() {
                    match c {
                        '[' => in_br = true,
                        ']' => in_br = false,
                        '\n' if !in_br => o.push('\r'),
                        _ => {}
                    }
                    o.push(c);
                }
                o
            }
        };
    }
    s
}

// ------------------------------------------------------------------------------------------
// the real parser: outcome classes
// ------------------------------------------------------------------------------------------

fn sim_to_tree(s: &pd::Sim) -> (Tree, bool) {
    let opts = |p: &HashMap<String, String>| -> Opts { p.iter().map(|(k, v)| (k.clone(), v.clone())).collect() };
    let mut ok = true;
    let mut t = Tree::default();
    for (id, n) in &s.networks {
        // the map key is the value of the `id` argument
        if n.options.get("id") != Some(id) || n.dectype != pd::DecType::Network {
            ok = false;
        }
        t.nets.push(Net { opts: opts(&n.options), ips: n.ip.iter().map(|l| Leaf { dt: format!("{:?}", l.dectype), opts: opts(&l.options) }).collect() });
    }
    for m in &s.machines {
        let o = match &m.options {
            Some(p) => opts(p),
            None => {
                ok = false;
                vec![]
            }
        };
        if m.dectype != pd::DecType::Machine {
            ok = false;
        }
        t.machs.push(Mach {
            opts: o,
            nets: m.interfaces.networks.iter().map(|l| Leaf { dt: format!("{:?}", l.dectype), opts: opts(&l.options) }).collect(),
            prots: m.interfaces.protocols.iter().map(|l| Leaf { dt: format!("{:?}", l.dectype), opts: opts(&l.options) }).collect(),
            apps: m.interfaces.applications.iter().map(|l| Leaf { dt: format!("{:?}", l.dectype), opts: opts(&l.options) }).collect(),
        });
    }
    (t, ok)
}

/// error message -> (kind, line reported by the lexer's own messages).  Every error path of the
/// parser produces exactly one innermost message; wrappers only add "Unable to parse inside of".
fn classify(msg: &str) -> (String, Option<i64>) {
    let line_before = |pat: &str| -> Option<i64> {
        let at = msg.find(pat)?;
        let head = &msg[..at];
        let l = head.rfind("Line ")?;
        head[l + 5..].trim_end_matches(": ").trim().parse().ok()
    };
    let pats: [(&str, &str); 13] = [
        ("VerboseError { errors: [(\"", "nom"),
        ("extra argument at '", "extraArg"),
        ("duplicate argument '", "dupArg"),
        ("Invalid tab count. Expected", "tabs"),
        (" tabs instead.", "expectedTabs"),
        ("Invalid formatting", "formatting"),
        (": expected type ", "wrongType"),
        ("Unexpected type ", "unexpected"),
        ("Cannot declare ", "cannotDeclare"),
        ("due to duplicate id", "dupId"),
        ("due to missing id", "missingId"),
        ("Failed to include all required types", "required"),
        ("unable to parse arguments", "argsFail"),
    ];
    // a nom error is always innermost and echoes the rest of the file: test it first; then the
    // two lexer messages that echo argument text
    for (pat, kind) in pats.iter() {
        if msg.contains(pat) {
            return match *kind {
                "extraArg" => (kind.to_string(), line_before(": extra argument at '")),
                "dupArg" => (kind.to_string(), line_before(": duplicate argument '")),
                "nom" => {
                    // section: the context stack ends in Context("section"); get_type: "dectype"
                    if msg.contains("Context(\"section\")") {
                        ("section".into(), None)
                    } else if msg.contains("Context(\"dectype\")") {
                        ("dectype".into(), None)
                    } else {
                        ("nom-other".into(), None)
                    }
                }
                k => (k.to_string(), None),
            };
        }
    }
    ("unclassified".into(), None)
}

fn panic_site(p: &PanicInfo) -> (String, String) {
    let text = source_line_text(&p.file, p.line);
    let f = p.file.rsplit('/').next().unwrap_or("").to_string();
    if p.file.ends_with("str/mod.rs") && p.msg.contains("is not a char boundary") {
        // str::split_at called by nom's `take_split` (no #[track_caller]: located in core)
        return ("tagSplit".into(), "panic nom tag_no_case take_split: byte index is not a char boundary".into());
    }
    let site = if text.contains("unimplemented!(\"No other dec types supported\")") {
        "decTypeFrom".to_string()
    } else if f == "traits.rs" && text.contains("self.split_at(count)") {
        "tagSplit".to_string()
    } else if text.contains("remaining_string[num_tabs as usize..]") {
        "sliceTabs".to_string()
    } else if text.contains("remaining_string[num_new_line..]") {
        "sliceNewlines".to_string()
    } else if text.contains("*line_num += num_new_line as i32") {
        "lineOverflow".to_string()
    } else if text.contains("req.iter().position(") {
        "reqPosition".to_string()
    } else {
        format!("other:{}:{}", f, text.replace(' ', "_"))
    };
    (site, format!("panic {} {}", f, text))
}

pub enum Outcome {
    Ok(Tree, bool),
    Err(String, Option<i64>, String),
    Panic(String, String, String),
}
impl Outcome {
    fn line(&self) -> String {
        match self {
            Outcome::Ok(t, wf) => format!("ok {}{}", t.tokens(true), if *wf { "" } else { " !shape" }),
            Outcome::Err(k, Some(l), _) => format!("err {} {}", k, l),
            Outcome::Err(k, None, _) => format!("err {}", k),
            Outcome::Panic(site, _, _) => format!("panic {}", site),
        }
    }
    fn class(&self) -> &'static str {
        match self {
            Outcome::Ok(..) => "ok",
            Outcome::Err(..) => "err",
            Outcome::Panic(..) => "panic",
        }
    }
}

pub struct Files {
    dir: PathBuf,
    n: u64,
}
impl Files {
    fn new(out: &Path) -> Files {
        let dir = out.join("ndl-tmp");
        std::fs::create_dir_all(&dir).unwrap();
        Files { dir, n: 0 }
    }
    fn write(&mut self, text: &str) -> String {
        self.n += 1;
        let p = self.dir.join(format!("d{}.ndl", self.n % 64));
        std::fs::write(&p, text.as_bytes()).unwrap();
        p.to_string_lossy().to_string()
    }
}

/// the real `core_parser` on `text` (through a temp file, as the code reads it)
fn real_parse(files: &mut Files, text: &str) -> Outcome {
    let path = files.write(text);
    match catch(|| core_parser(path.clone())) {
        Ok(Ok(sim)) => {
            let (t, wf) = sim_to_tree(&sim);
            Outcome::Ok(t, wf)
        }
        Ok(Err(msg)) => {
            let (k, l) = classify(&msg);
            Outcome::Err(k, l, msg)
        }
        Err(p) => {
            let (site, ident) = panic_site(&p);
            Outcome::Panic(site, ident, p.msg)
        }
    }
}

fn real_lex(text: &str, line: i32) -> String {
    let mut ln = line;
    match catch(|| {
        let r = general_parser(text, &mut ln);
        (r, ln)
    }) {
        Ok((Ok((dt, params, rest)), ln)) => {
            let mut toks = vec![format!("{:?}", dt)];
            let o: Opts = params.into_iter().collect();
            opts_tokens(&o, true, &mut toks);
            format!("ok {} rest={} line={}", toks.join(" "), hx(&rest), ln)
        }
        Ok((Err(msg), _)) => {
            let (k, l) = classify(&msg);
            match l {
                Some(l) => format!("err {} {}", k, l),
                None => format!("err {}", k),
            }
        }
        Err(p) => format!("panic {}", panic_site(&p).0),
    }
}

// ------------------------------------------------------------------------------------------
// generators
// ------------------------------------------------------------------------------------------

/// characters the grammar can carry inside a key (no `=`, no `]`); a key must not *start*
/// with a separator (a char whose low byte is space / tab / newline)
const KEY_CHARS: &[&str] = &["a", "b", "k", "K", "z", "0", "9", "-", "_", ".", " ", "'", "\"", "\\", "[", "\t", "\n", "é", "名", "😀", "\u{212A}", "\u{120}", "\u{10A}", "\u{109}", "\u{301}", ":", "/"];
/// characters a value can carry (no `]`, no bare `'`, no `\` other than in `\'`)
const VAL_CHARS: &[&str] = &["a", "b", "H", "e", "l", "o", "!", "0", "1", "5", ".", "-", "_", " ", " ", "=", "[", "\"", "\\'", "\t", "\n", "é", "名", "😀", "\u{212A}", "\u{120}", "\u{10A}", ":", "/", "x", ","];
const REAL_KEYS: &[&str] = &["id", "name", "ip", "range", "subnet", "count", "to", "port", "message", "message_count", "type", "factory", "local_port", "remote_port", "starter", "auto-protocol", "local", "default"];
const REAL_VALS: &[&str] = &["1", "5", "IPv4", "UDP", "ARP", "send_message", "capture", "forward", "ping_pong", "123.45.67.89-91", "192.168.1.121", "0xbeef", "Hello this is an awesome test message!", "true", "recv1", "12.34.56.89/24", ""];

fn is_sep(c: char) -> bool {
    let b = (c as u32 % 256) as u8;
    b == b' ' || b == b'\t' || b == b'\n'
}

/// no run of four spaces may arise (the parser rewrites it), no CR
fn calm(s: &str) -> bool {
    !s.contains("    ") && !s.contains('\r')
}

fn gen_key(rng: &mut Rng, exotic: bool) -> String {
    if rng.chance(3, 5) || !exotic {
        return rng.pick(REAL_KEYS).to_string();
    }
    loop {
        let n = rng.range(0, 6);
        let mut s = String::new();
        for _ in 0..n {
            s.push_str(*rng.pick(KEY_CHARS));
        }
        if s.chars().next().map_or(true, |c| !is_sep(c)) && calm(&s) {
            return s;
        }
    }
}

fn gen_val(rng: &mut Rng, exotic: bool) -> String {
    if !exotic {
        // no newline, no `[`: line-oriented structural edits stay meaningful
        let n = rng.range(0, 8);
        return (0..n).map(|_| *rng.pick(&["a", "b", "7", ".", "-", " ", "=", "é", "\\'"])).collect::<String>().replace("    ", " ");
    }
    if rng.chance(2, 5) {
        return rng.pick(REAL_VALS).to_string();
    }
    loop {
        let n = rng.range(0, 10);
        let mut s = String::new();
        for _ in 0..n {
            s.push_str(*rng.pick(VAL_CHARS));
        }
        if calm(&s) {
            return s;
        }
    }
}

fn gen_opts(rng: &mut Rng, max: u64, must: &[(&str, String)], exotic: bool) -> Opts {
    let mut o: Opts = must.iter().map(|(k, v)| (k.to_string(), v.clone())).collect();
    for _ in 0..rng.range(0, max) {
        let k = gen_key(rng, exotic);
        if get(&o, &k).is_none() {
            o.push((k, gen_val(rng, exotic)));
        }
    }
    // HashMap iteration order is arbitrary: shuffle
    for i in (1..o.len()).rev() {
        let j = rng.below(i as u64 + 1) as usize;
        o.swap(i, j);
    }
    o
}

fn gen_leaves(rng: &mut Rng, dt: &str, max: u64, exotic: bool) -> Vec<Leaf> {
    (0..rng.range(1, max)).map(|_| Leaf { dt: dt.into(), opts: gen_opts(rng, 4, &[], exotic) }).collect()
}

/// syntactically well-formed tree with arbitrary (grammar-expressible) keys and values
pub fn gen_tree(rng: &mut Rng, exotic: bool) -> Tree {
    let mut t = Tree::default();
    let mut ids: Vec<String> = vec![];
    for _ in 0..rng.range(0, 4) {
        let id = loop {
            let v = if rng.chance(2, 3) { rng.range(0, 9).to_string() } else { gen_val(rng, exotic) };
            if !ids.contains(&v) {
                break v;
            }
        };
        ids.push(id.clone());
        t.nets.push(Net { opts: gen_opts(rng, 2, &[("id", id)], exotic), ips: gen_leaves(rng, "IP", 4, exotic) });
    }
    for _ in 0..rng.range(0, 4) {
        t.machs.push(Mach {
            opts: gen_opts(rng, 3, &[], exotic),
            nets: gen_leaves(rng, "Network", 3, exotic),
            prots: gen_leaves(rng, "Protocol", 3, exotic),
            apps: gen_leaves(rng, "Application", 3, exotic),
        });
    }
    t
}

// ---- text mutations -------------------------------------------------------------------------

const TOKENS: &[&str] = &[
    "[", "]", "'", "=", "\\", "\\'", " ", "\t", "    ", "   ", "\n", "\r\n", "\r", "[]", "[ ]", "''", "='", "x='1'", " x='1'", "id='1'", " id='1'",
    "Template", "Networks", "Network", "IPtype", "IP", "Machines", "Machine", "Protocols", "Protocol", "Applications", "Application", "Router", "ip",
    "[Template]", "[Networks]", "[Network id='1']", "[IP range='1.2.3.4-5']", "[IPtype v='4']", "[Machines]", "[Machine]", "[Protocols]", "[Protocol name='UDP']",
    "[Applications]", "[Application name='capture']",
    "\u{212A}", "Networ\u{212A}s", "Networ\u{212A}", "\u{130}P", "\u{17F}", "Protocol\u{17F}", "\u{120}", "\u{10A}", "\u{109}", "é", "名", "😀", "\u{301}", "\u{0}", "\u{feff}",
];

fn char_starts(s: &str) -> Vec<usize> {
    let mut v: Vec<usize> = s.char_indices().map(|(i, _)| i).collect();
    v.push(s.len());
    v
}

fn line_spans(s: &str) -> Vec<(usize, usize)> {
    // (start, end incl. the newline)
    let mut v = vec![];
    let mut a = 0;
    for (i, c) in s.char_indices() {
        if c == '\n' {
            v.push((a, i + 1));
            a = i + 1;
        }
    }
    if a < s.len() {
        v.push((a, s.len()));
    }
    v
}

/// "Awkward" code points for the boundary operators: blanks and controls that are ASCII but
/// neither space, tab nor newline; every multi-byte `White_Space` character of `char::is_whitespace`
/// (2- and 3-byte UTF-8 forms); invisible non-whitespace (BOM, zero width space, word joiner);
/// characters whose case folding touches ASCII letters (KELVIN SIGN, dotted I, long s); combining
/// marks (2 and 3 bytes); characters whose LOW BYTE is space / tab / newline (the lexer's
/// separator test is `chr as u8`) -- U+2009 and U+200A are both; 4-byte characters.
const AWKWARD: &[&str] = &[
    " ", "\t", "\u{B}", "\u{C}", "\r", "\u{1F}", "\u{7F}",
    "\u{85}", "\u{A0}", "\u{1680}", "\u{2000}", "\u{2003}", "\u{2009}", "\u{200A}", "\u{2028}", "\u{2029}", "\u{202F}", "\u{205F}", "\u{3000}",
    "\u{FEFF}", "\u{200B}", "\u{2060}",
    "\u{212A}", "\u{130}", "\u{17F}",
    "\u{301}", "\u{20DD}",
    "\u{120}", "\u{10A}", "\u{109}", "\u{2020}",
    "😀", "\u{10FFFF}",
];

/// kinds of structural boundaries of a description text (positions are byte offsets of char
/// starts): text start / end; before and after every `[` and `]`; inside and right after the
/// type tag; before and after `=`, quotes and the blanks that separate arguments; end and start
/// of every line; every position of the indentation
const BOUNDARY_KINDS: &[&str] = &[
    "text-start", "text-end", "before-open", "after-open", "in-tag", "after-tag", "before-close", "after-close", "before-eq", "after-eq",
    "before-quote", "after-quote", "arg-sep-before", "arg-sep-after", "line-end", "line-start", "in-indent",
];

fn boundaries(s: &str) -> Vec<(&'static str, usize)> {
    let mut v: Vec<(&'static str, usize)> = vec![("text-start", 0), ("text-end", s.len())];
    let cs: Vec<(usize, char)> = s.char_indices().collect();
    let at = |k: usize| if k < cs.len() { cs[k].0 } else { s.len() };
    let (mut in_br, mut in_q, mut indent) = (false, false, true);
    for k in 0..cs.len() {
        let (i, c) = cs[k];
        let next = at(k + 1);
        let escaped = k > 0 && cs[k - 1].1 == '\\';
        match c {
            '[' if !in_q => {
                v.push(("before-open", i));
                v.push(("after-open", next));
                let mut j = k + 1;
                while j < cs.len() && cs[j].1.is_ascii_alphabetic() {
                    j += 1;
                }
                for t in k + 2..j {
                    v.push(("in-tag", at(t)));
                }
                if j > k + 1 {
                    v.push(("after-tag", at(j)));
                }
                in_br = true;
            }
            ']' => {
                // a `]` always ends the section (`take_until("]")`), quoted or not
                v.push(("before-close", i));
                v.push(("after-close", next));
                in_br = false;
                in_q = false;
            }
            '=' if in_br && !in_q => {
                v.push(("before-eq", i));
                v.push(("after-eq", next));
            }
            '\'' if in_br && !escaped => {
                v.push(("before-quote", i));
                v.push(("after-quote", next));
                in_q = !in_q;
            }
            ' ' | '\t' | '\n' if in_br && !in_q => {
                v.push(("arg-sep-before", i));
                v.push(("arg-sep-after", next));
            }
            _ => {}
        }
        if c == '\n' && !in_br {
            v.push(("line-end", i));
            v.push(("line-start", next));
        }
        if indent && (c == '\t' || c == ' ') {
            v.push(("in-indent", i));
            v.push(("in-indent", next));
        }
        indent = (c == '\n' && !in_br) || (indent && (c == '\t' || c == ' '));
    }
    v.sort();
    v.dedup();
    v
}

fn awkward_run(rng: &mut Rng) -> String {
    let n = match rng.below(8) {
        0 => 2,
        1 => 3,
        _ => 1,
    };
    let first = *rng.pick(AWKWARD);
    (0..n).map(|k| if k == 0 || rng.chance(1, 2) { first } else { *rng.pick(AWKWARD) }).collect()
}

/// insertion of awkward characters at ONE boundary of a randomly chosen kind (the kind is drawn
/// first, so that rare boundaries are hit as often as frequent ones)
fn boundary_insert(rng: &mut Rng, s: &mut String) -> &'static str {
    let b = boundaries(s);
    let kinds: Vec<&'static str> = BOUNDARY_KINDS.iter().copied().filter(|k| b.iter().any(|(x, _)| x == k)).collect();
    let kind = *rng.pick(&kinds);
    let pos: Vec<usize> = b.iter().filter(|(x, _)| *x == kind).map(|(_, p)| *p).collect();
    let p = *rng.pick(&pos);
    s.insert_str(p, &awkward_run(rng));
    "boundary-insert"
}

/// the same awkward character at EVERY boundary of one kind
fn boundary_insert_all(rng: &mut Rng, s: &mut String) -> &'static str {
    let b = boundaries(s);
    let kinds: Vec<&'static str> = BOUNDARY_KINDS.iter().copied().filter(|k| b.iter().any(|(x, _)| x == k)).collect();
    let kind = *rng.pick(&kinds);
    let a = *rng.pick(AWKWARD);
    *s = insert_at_all(s, &b, kind, a, None);
    "boundary-insert-all"
}

/// `which`: `None` = every boundary of `kind`, `Some(k)` = only the k-th (from the end if negative)
fn insert_at_all(s: &str, b: &[(&'static str, usize)], kind: &str, a: &str, which: Option<i64>) -> String {
    let mut pos: Vec<usize> = b.iter().filter(|(x, _)| *x == kind).map(|(_, p)| *p).collect();
    if let Some(k) = which {
        let i = if k >= 0 { k as usize } else { pos.len().wrapping_sub((-k) as usize) };
        pos = pos.get(i).copied().into_iter().collect();
    }
    let mut o = String::with_capacity(s.len() + pos.len() * a.len());
    let mut last = 0;
    for p in pos {
        o.push_str(&s[last..p]);
        o.push_str(a);
        last = p;
    }
    o.push_str(&s[last..]);
    o
}

/// one blank / tab / newline of the text replaced by an awkward character
fn blank_replace(rng: &mut Rng, s: &mut String) -> &'static str {
    let occ: Vec<(usize, usize)> = s.char_indices().filter(|(_, c)| matches!(c, ' ' | '\t' | '\n')).map(|(i, c)| (i, c.len_utf8())).collect();
    if !occ.is_empty() {
        let (i, l) = *rng.pick(&occ);
        s.replace_range(i..i + l, *rng.pick(AWKWARD));
    }
    "blank-replace"
}

/// systematic part of `c14-ndl`: every awkward character at the first, at the last and at all
/// boundaries of every kind of one valid text per layout
fn boundary_sweep() -> Vec<(String, Vec<String>)> {
    let base = "[Networks]\n\t[Network id='1' name='n']\n\t\t[IP range='1.2.3.4-5']\n[Machines]\n\t[Machine name='m' count='2']\n\t\t[Networks]\n\t\t\t[Network id='1']\n\t\t[Protocols]\n\t\t\t[Protocol name='UDP']\n\t\t[Applications]\n\t\t\t[Application name='capture' message='a b']\n";
    let mut v = vec![];
    for (lay, text) in [("tabs", base.to_string()), ("spaces", base.replace('\t', "    ")), ("crlf", base.replace('\n', "\r\n"))] {
        let b = boundaries(&text);
        for kind in BOUNDARY_KINDS {
            let mut texts = vec![];
            for a in AWKWARD {
                for which in [Some(0), Some(1), Some(-1), None] {
                    let t = insert_at_all(&text, &b, kind, a, which);
                    if t != text && !texts.contains(&t) {
                        texts.push(t);
                    }
                }
            }
            v.push((format!("{}.{}", lay, kind), texts));
        }
    }
    v
}

/// one random edit; returns its label
fn mutate_once(rng: &mut Rng, s: &mut String) -> &'static str {
    let starts = char_starts(s);
    let lines = line_spans(s);
    let pick_pos = |rng: &mut Rng| -> usize { starts[rng.below(starts.len() as u64) as usize] };
    match rng.below(20) {
        16 | 17 => boundary_insert(rng, s),
        18 => boundary_insert_all(rng, s),
        19 => blank_replace(rng, s),
        0 | 1 => {
            let p = pick_pos(rng);
            s.insert_str(p, *rng.pick(TOKENS));
            "insert-token"
        }
        2 => {
            // delete one char
            if starts.len() > 1 {
                let i = rng.below(starts.len() as u64 - 1) as usize;
                s.replace_range(starts[i]..starts[i + 1], "");
            }
            "delete-char"
        }
        3 => {
            // delete one occurrence of a structural token
            let tok = *rng.pick(&["[", "]", "'", "=", "\t", "\n", " ", "Networks", "Network", "IP", "Machines", "Machine", "Protocols", "Applications"]);
            let occ: Vec<usize> = s.match_indices(tok).map(|(i, _)| i).collect();
            if !occ.is_empty() {
                let i = *rng.pick(&occ);
                s.replace_range(i..i + tok.len(), "");
            }
            "delete-token"
        }
        4 => {
            let p = pick_pos(rng);
            s.truncate(p);
            "truncate"
        }
        5 => {
            // indentation of one line: add / remove a level, in tabs or spaces
            if !lines.is_empty() {
                let (a, _) = *rng.pick(&lines);
                match rng.below(5) {
                    0 => s.insert(a, '\t'),
                    1 => s.insert_str(a, "    "),
                    2 => s.insert_str(a, *rng.pick(&["  ", "   ", "     ", " \t", "\t "])),
                    _ => {
                        if s[a..].starts_with('\t') {
                            s.replace_range(a..a + 1, "");
                        } else if s[a..].starts_with("    ") {
                            s.replace_range(a..a + 4, "");
                        }
                    }
                }
            }
            "indent-line"
        }
        6 => {
            // re-indent everything: tabs <-> 4 spaces <-> mixed
            let mode = rng.below(3);
            let mut o = String::new();
            for (a, b) in &lines {
                let l = &s[*a..*b];
                let body = l.trim_start_matches('\t');
                let d = l.len() - body.len();
                for k in 0..d {
                    match mode {
                        0 => o.push_str("    "),
                        1 => o.push_str(if k % 2 == 0 { "    " } else { "\t" }),
                        _ => o.push_str(if rng.chance(1, 2) { "    " } else { "\t" }),
                    }
                }
                o.push_str(body);
            }
            *s = o;
            "reindent-all"
        }
        7 => {
            *s = s.replace('\n', "\r\n");
            "crlf"
        }
        8 => {
            // duplicate / delete / swap lines
            if lines.len() >= 2 {
                let i = rng.below(lines.len() as u64) as usize;
                let (a, b) = lines[i];
                let l = s[a..b].to_string();
                match rng.below(3) {
                    0 => s.insert_str(a, &l),
                    1 => s.replace_range(a..b, ""),
                    _ => {
                        let j = rng.below(lines.len() as u64) as usize;
                        let (c, _) = lines[j];
                        s.replace_range(a..b, "");
                        let c = if c > a { c - (b - a) } else { c };
                        s.insert_str(c.min(s.len()), &l);
                    }
                }
            }
            "line-dup-del-move"
        }
        9 => {
            // replace a type tag by another word
            let tags = ["Template", "Networks", "Network", "IP", "Machines", "Machine", "Protocols", "Protocol", "Applications", "Application"];
            let occ: Vec<(usize, &str)> = tags.iter().flat_map(|t| s.match_indices(&format!("[{}", t)).map(|(i, _)| (i + 1, *t)).collect::<Vec<_>>()).collect();
            if !occ.is_empty() {
                let (i, t) = *rng.pick(&occ);
                let rep = *rng.pick(&["Template", "Networks", "Network", "IPtype", "IP", "Machines", "Machine", "Protocols", "Protocol", "Applications", "Application", "Router", "networ\u{212A}s", "NETWORKS", "nEtWoRk", "iptype", "Ip", "", "Net"]);
                s.replace_range(i..i + t.len(), rep);
            }
            "retag"
        }
        10 => {
            // flip ASCII case of a stretch
            let p = pick_pos(rng);
            let q = (p + rng.range(1, 12) as usize).min(s.len());
            let q = *starts.iter().find(|x| **x >= q).unwrap_or(&s.len());
            let seg: String = s[p..q].chars().map(|c| if c.is_ascii_lowercase() { c.to_ascii_uppercase() } else { c.to_ascii_lowercase() }).collect();
            s.replace_range(p..q, &seg);
            "flip-case"
        }
        11 => {
            // blank lines / trailing whitespace / missing final newline
            match rng.below(4) {
                0 => s.insert(0, '\n'),
                1 => {
                    if let Some((_, b)) = lines.first().copied() {
                        s.insert_str(b, *rng.pick(&["\n", "\n\n", "\t\n", " \n"]));
                    }
                }
                2 => {
                    while s.ends_with('\n') || s.ends_with('\r') {
                        s.pop();
                    }
                }
                _ => {
                    if let Some((_, b)) = lines.get(rng.below(lines.len().max(1) as u64) as usize).copied() {
                        let at = if b > 0 && s[..b].ends_with('\n') { b - 1 } else { b };
                        s.insert_str(at, *rng.pick(&[" ", "  ", "\t", "     ", " x"]));
                    }
                }
            }
            "blank-trailing"
        }
        12 => {
            // add an argument (maybe a duplicate key) before some `]`
            let occ: Vec<usize> = s.match_indices(']').map(|(i, _)| i).collect();
            if !occ.is_empty() {
                let i = *rng.pick(&occ);
                let arg = *rng.pick(&[" id='1'", " name='x'", " ip='1.2.3.4'", " x=''", " ='v'", " a = 'b'", "\ty='z'", " q='\\''", " q='a\\b'", " q='it's'", " q=\"v\"", " q=v", " q", " q='v"]);
                s.insert_str(i, arg);
            }
            "add-argument"
        }
        13 => {
            // non-ASCII right after the indentation / inside a tag / next to a quote
            let p = pick_pos(rng);
            s.insert_str(p, *rng.pick(&["\u{212A}", "é", "名", "😀", "\u{120}", "\u{10A}", "\u{109}", "\u{301}"]));
            "insert-non-ascii"
        }
        14 => {
            // very deep indentation of one line
            if !lines.is_empty() {
                let (a, _) = *rng.pick(&lines);
                let n = *rng.pick(&[5usize, 17, 64, 300]);
                s.insert_str(a, &"\t".repeat(n));
            }
            "deep-indent"
        }
        _ => {
            // unterminated / odd quoting
            let occ: Vec<usize> = s.match_indices('\'').map(|(i, _)| i).collect();
            if !occ.is_empty() {
                let i = *rng.pick(&occ);
                s.replace_range(i..i + 1, *rng.pick(&["", "''", "\\'", "\\", "\"", "'\\"]));
            }
            "quote-edit"
        }
    }
}

/// structural-error mutants of a well-formed tree: each MUST be rejected (C19 reject clause)
fn structural_mutant(rng: &mut Rng, t: &Tree) -> Option<(&'static str, String)> {
    let lay = *rng.pick(&LAYOUTS);
    let text = render(lay, t);
    let unit = if lay == Layout::Spaces { "    " } else { "\t" };
    let lines = line_spans(&text);
    match rng.below(7) {
        0 | 1 => {
            // wrong nesting depth: one line one level deeper or shallower
            let idx: Vec<usize> = (0..lines.len()).collect();
            let i = *rng.pick(&idx);
            let (a, _) = lines[i];
            let mut s = text.clone();
            if rng.chance(1, 2) || !s[a..].starts_with(unit) {
                s.insert_str(a, unit);
                Some(("depth-deeper", s))
            } else {
                s.replace_range(a..a + unit.len(), "");
                Some(("depth-shallower", s))
            }
        }
        2 => {
            // unknown type tag, or a known type where it does not belong
            let (a, _) = *rng.pick(&lines);
            let depth0 = text[a..].starts_with('[');
            let i = a + text[a..].find('[')? + 1;
            let end = text[i..].find(|c: char| c == ' ' || c == ']').map(|k| i + k)?;
            let old = &text[i..end];
            let rep = loop {
                let r = *rng.pick(&["Router", "Net", "Switch", "Templates", "Template", "Networks", "Network", "IP", "Machines", "Machine", "Protocols", "Protocol", "Applications", "Application"]);
                if !r.eq_ignore_ascii_case(old) {
                    break r;
                }
            };
            // a Template line at the top level is legal: skip those replacements
            if rep == "Template" || (depth0 && (rep == "Networks" || rep == "Machines")) {
                return None;
            }
            let mut s = text.clone();
            s.replace_range(i..end, rep);
            Some(("type-unknown-or-misplaced", s))
        }
        3 => {
            // missing required section of a machine
            if t.machs.is_empty() {
                return None;
            }
            let mi = rng.below(t.machs.len() as u64) as usize;
            let which = rng.below(3);
            let mut s = String::new();
            render_line(lay, 0, "Networks", &vec![], &mut s);
            for n in &t.nets {
                render_line(lay, 1, "Network", &n.opts, &mut s);
                for ip in &n.ips {
                    render_line(lay, 2, &ip.dt, &ip.opts, &mut s);
                }
            }
            render_line(lay, 0, "Machines", &vec![], &mut s);
            for (k, m) in t.machs.iter().enumerate() {
                render_line(lay, 1, "Machine", &m.opts, &mut s);
                for (w, (name, ls)) in [("Networks", &m.nets), ("Protocols", &m.prots), ("Applications", &m.apps)].iter().enumerate() {
                    if k == mi && w as u64 == which {
                        continue;
                    }
                    render_line(lay, 2, name, &vec![], &mut s);
                    for l in ls.iter() {
                        render_line(lay, 3, &l.dt, &l.opts, &mut s);
                    }
                }
            }
            Some(("missing-section", s))
        }
        4 => {
            // duplicate network id inside the same [Networks] block
            if t.nets.is_empty() {
                return None;
            }
            let mut t2 = t.clone();
            let src = rng.below(t.nets.len() as u64) as usize;
            let mut dup = t.nets[src].clone();
            dup.opts.retain(|e| e.0 == "id");
            let at = rng.below(t2.nets.len() as u64 + 1) as usize;
            t2.nets.insert(at, dup);
            Some(("dup-id-same-block", render(lay, &t2)))
        }
        5 => {
            // duplicate network id in another [Networks] block (before or after [Machines])
            if t.nets.is_empty() {
                return None;
            }
            let src = rng.below(t.nets.len() as u64) as usize;
            let mut block = String::new();
            render_line(lay, 0, "Networks", &vec![], &mut block);
            render_line(lay, 1, "Network", &vec![("id".to_string(), get(&t.nets[src].opts, "id")?.to_string())], &mut block);
            render_line(lay, 2, "IP", &vec![("ip".to_string(), "10.0.0.1".to_string())], &mut block);
            let s = if rng.chance(1, 2) { format!("{}{}", text, block) } else { format!("{}{}", block, text) };
            Some(("dup-id-other-block", s))
        }
        _ => {
            // duplicate argument on some line that has arguments
            let mut t2 = t.clone();
            let mut slots: Vec<&mut Opts> = vec![];
            for n in t2.nets.iter_mut() {
                slots.push(&mut n.opts);
                for l in n.ips.iter_mut() {
                    slots.push(&mut l.opts);
                }
            }
            for m in t2.machs.iter_mut() {
                slots.push(&mut m.opts);
                for l in m.nets.iter_mut().chain(m.prots.iter_mut()).chain(m.apps.iter_mut()) {
                    slots.push(&mut l.opts);
                }
            }
            let mut cands: Vec<&mut Opts> = slots.into_iter().filter(|o| !o.is_empty()).collect();
            if cands.is_empty() {
                return None;
            }
            let k = rng.below(cands.len() as u64) as usize;
            let o = &mut cands[k];
            let (key, _) = o[rng.below(o.len() as u64) as usize].clone();
            let at = rng.below(o.len() as u64 + 1) as usize;
            o.insert(at, (key, gen_val(rng, false)));
            Some(("dup-argument", render(lay, &t2)))
        }
    }
}

// ------------------------------------------------------------------------------------------
// executors
// ------------------------------------------------------------------------------------------

struct Cx<'a> {
    /// recorded failures per ident (at most two each, so that frequent known ones cannot crowd
    /// a rare new one out of the bounded failure list)
    seen: HashMap<String, u32>,
    out: &'a mut Out,
    files: Files,
    /// oracle for `parse` lines that follow a `render`: the tree they must mean
    expect: Option<Tree>,
    /// `Some(label)`: the next `parse` must be rejected
    must_reject: Option<String>,
    /// written forms per tree case (`--forms`)
    forms: u64,
    /// outcome of the first `parse` since the last `render` / `expect-none`: every text parsed
    /// while `expect` is set is a written form of ONE tree, so all of them must parse alike
    group_first: Option<(String, String)>,
    no_panic_oracle: bool,
}

impl<'a> Cx<'a> {
    fn fail(&mut self, what: &str, ident: &str) {
        let n = self.seen.entry(ident.to_string()).or_insert(0);
        *n += 1;
        if *n <= 2 {
            self.out.fail(what, ident);
        } else {
            self.out.count("oracle_failures");
            self.out.count("oracle_failures_not_listed");
        }
    }
}

fn exec_parse(cx: &mut Cx, op: &str, hexs: &str) {
    let Some(text) = unhx(hexs) else { return cx.out.line(op, "bad-op") };
    let o = real_parse(&mut cx.files, &text);
    cx.out.line(op, &o.line());
    cx.out.count(&format!("outcome.{}", o.class()));
    match &o {
        Outcome::Err(k, _, msg) => {
            cx.out.count(&format!("err.{}", k));
            if k == "unclassified" || k == "nom-other" || k == "argsFail" {
                cx.fail(&format!("error message not classified (harness): {:?}", msg), "harness unclassified-error");
            }
        }
        Outcome::Panic(site, ident, msg) => {
            cx.out.count(&format!("panic.{}", site));
            if cx.no_panic_oracle {
                cx.fail(&format!("core_parser panicked on a text: {} ({}); text {:?}", ident, msg.chars().take(120).collect::<String>(), text.chars().take(200).collect::<String>()), ident);
            }
        }
        Outcome::Ok(..) => {}
    }
    if let Some(t) = cx.expect.clone() {
        let want = format!("ok {}", t.tokens(true));
        if o.line() != want {
            // values with four spaces / CR are rewritten by the normalisation: a finding of its own
            let altered = t_has(&t, |s| s.contains("    ")) as u8 * 2 + t_has(&t, |s| s.contains('\r')) as u8;
            let ident = match (altered, o.class()) {
                (0, "ok") => "roundtrip differs".to_string(),
                (0, c) => format!("roundtrip rejected {}", c),
                (a, _) => format!("value-altered {}", ["", "cr", "four-spaces", "four-spaces+cr"][a as usize]),
            };
            cx.fail(&format!("a well-formed description does not parse back to itself: expected `{}` got `{}`; text {:?}", trunc(&want, 300), trunc(&o.line(), 300), trunc(&text, 400)), &ident);
        }
        // parsing is a function of the description, not of how it is laid out: all written
        // forms of one tree (layouts, wrapped argument lists, CRLF, blank lines …) parse alike
        // (an error's line number is a property of the layout -- blank lines, wrapped arguments --
        // not of the description: only the kind of error is compared)
        let key = match &o {
            Outcome::Err(k, _, _) => format!("err {}", k),
            other => other.line(),
        };
        match &cx.group_first {
            None => cx.group_first = Some((key, text.clone())),
            Some((first, first_text)) => {
                if *first != key {
                    let (first, first_text) = (first.clone(), first_text.clone());
                    cx.fail(
                        &format!("two written forms of one description parse differently: `{}` for {:?} but `{}` for {:?}", trunc(&first, 200), trunc(&first_text, 300), trunc(&o.line(), 200), trunc(&text, 300)),
                        &format!("written-forms-disagree {}-vs-{}", first.split(' ').next().unwrap_or(""), o.class()),
                    );
                }
            }
        }
    }
    if let Some(label) = cx.must_reject.take() {
        if !matches!(o, Outcome::Err(..)) {
            cx.fail(&format!("a description with a structural error ({}) was not rejected with an error: {} ; text {:?}", label, trunc(&o.line(), 200), trunc(&text, 400)), &format!("not-rejected {}", label));
        }
    }
}

fn t_has(t: &Tree, f: impl Fn(&str) -> bool) -> bool {
    let o = |o: &Opts| o.iter().any(|(k, v)| f(k) || f(v));
    t.nets.iter().any(|n| o(&n.opts) || n.ips.iter().any(|l| o(&l.opts)))
        || t.machs.iter().any(|m| o(&m.opts) || m.nets.iter().chain(m.prots.iter()).chain(m.apps.iter()).any(|l| o(&l.opts)))
}

fn trunc(s: &str, n: usize) -> String {
    if s.chars().count() <= n {
        s.to_string()
    } else {
        s.chars().take(n).collect::<String>() + "…"
    }
}

fn exec_line(cx: &mut Cx, l: &str) {
    let w: Vec<&str> = l.split_whitespace().collect();
    match w.first().copied() {
        Some("render") if w.len() >= 3 => {
            let (Some(lay), Some(t)) = (Layout::parse(w[1]), Tree::from_tokens(&w[2..])) else { return cx.out.line(l, "bad-op") };
            let text = render(lay, &t);
            cx.out.line(l, &format!("text {}", hx(&text)));
            // further renderings of the same tree join the group of written forms
            if cx.expect.as_ref() != Some(&t) {
                cx.group_first = None;
            }
            cx.expect = Some(t);
        }
        Some("expect-reject") if w.len() == 2 => {
            cx.must_reject = Some(w[1].to_string());
            cx.expect = None;
            cx.group_first = None;
            cx.out.line(l, "-");
        }
        Some("expect-none") => {
            cx.expect = None;
            cx.group_first = None;
            cx.out.line(l, "-");
        }
        Some("parse") if w.len() == 2 => exec_parse(cx, l, w[1]),
        Some("lex") if w.len() == 3 => {
            let (Ok(n), Some(text)) = (w[1].parse::<i32>(), unhx(w[2])) else { return cx.out.line(l, "bad-op") };
            let r = real_lex(&text, n);
            cx.out.count(&format!("lex.{}", r.split(' ').next().unwrap_or("")));
            cx.out.line(l, &r);
        }
        _ => cx.out.line(l, "bad-op"),
    }
}

/// exhaustive check of the Unicode assumption of `uniLowerEq` / `lowerText` in the model
fn lowercase_assumption(out: &mut Out) {
    let mut odd = vec![];
    for c in (0..=0x10FFFFu32).filter_map(char::from_u32) {
        let l: Vec<char> = c.to_lowercase().collect();
        if l.len() == 1 && l[0].is_ascii_lowercase() && !(c.is_ascii_alphabetic()) {
            odd.push(c as u32);
        }
    }
    out.notes.push(format!("non-ASCII chars whose to_lowercase() is one ASCII letter: {:x?} (model assumes exactly [212a])", odd));
    if odd != vec![0x212A] {
        out.begin_case(999_999_999);
        out.line("assume-lowercase", "violated");
        out.fail(&format!("Rust's char::to_lowercase maps {:x?} to ASCII letters; the model's uniLowerEq assumes only U+212A", odd), "harness lowercase-assumption");
        out.end_case();
    }
}

const RULE_PARSE: &str = "trees: 0..4 networks (unique ids, 1..4 IP lines) and 0..4 machines (1..3 lines per section), 0..4 arguments per line with keys/values drawn from the NDL vocabulary and from an exotic palette (spaces, quotes, \\' escapes, =, [, tabs, newlines, non-ASCII incl. U+212A and chars whose low byte is a separator); each rendered as tabs / 4 spaces / CRLF and parsed by the real core_parser, then written in 3 other forms the grammar accepts (argument lists wrapped over several lines with or without continuation indent, separators of several blanks / tabs / line breaks, tag letter case, blank lines, no final line end, [Template] lines, machine sections and blocks in other orders, two [Networks] blocks), each form in tabs / 4 spaces / CRLF at the description's line ends / CRLF at every line break of the file (also inside brackets and quoted values): every form must parse to the tree and all forms of one tree must parse alike; plus structural-error mutants that must be rejected and free text mutants; non-trivial = at least one network and one machine; distinct = hash of the op lines";

fn case_tree(cx: &mut Cx, rng: &mut Rng, altered: bool) {
    let mut t = gen_tree(rng, true);
    if altered {
        // F-C19-1: a value with a run of four spaces or a CR (the parser rewrites it)
        let v = rng.pick(&["a    b", "x\r\ny", "        ", "tail    "]).to_string();
        if let Some(m) = t.machs.first_mut() {
            m.apps[0].opts.push(("message".into(), v));
        } else if let Some(n) = t.nets.first_mut() {
            n.ips[0].opts.push(("note".into(), v));
        } else {
            return;
        }
    }
    if !t.nets.is_empty() && !t.machs.is_empty() {
        cx.out.mark_nontrivial();
    }
    cx.out.count(&format!("tree.nets.{}", t.nets.len()));
    cx.out.count(&format!("tree.machines.{}", t.machs.len()));
    for lay in LAYOUTS {
        let spec = format!("render {} {}", lay.name(), t.tokens(false));
        exec_line(cx, &spec);
        let text = render(lay, &t);
        exec_line(cx, &format!("parse {}", hx(&text)));
    }
    // other written forms of the same tree, each in the three layouts (CRLF: at the ends of the
    // description's lines only, and at every line break of the file); they follow the `render`
    // lines above, so the tree is their expectation and they must all parse alike
    let forms: u64 = cx.forms;
    let first_style = rng.below(6);
    for k in 0..forms {
        let f = Form::draw(rng, first_style + k);
        for (lay, cr) in [(Layout::Tabs, CrMode::Lines), (Layout::Spaces, CrMode::Lines), (Layout::Crlf, CrMode::Whole), (Layout::Crlf, CrMode::Lines)] {
            let text = render_form(f, lay, cr, &t);
            cx.out.count(&format!("form.{}{}", lay.name(), if lay == Layout::Crlf && cr == CrMode::Whole { "-everywhere" } else { "" }));
            let mut in_br = false;
            let mut in_q = false;
            let (mut wrapped, mut nl_in_value, mut prev) = (false, false, ' ');
            for c in text.chars() {
                match c {
                    '[' if !in_q => in_br = true,
                    ']' => {
                        in_br = false;
                        in_q = false;
                    }
                    '\'' if in_br && prev != '\\' => in_q = !in_q,
                    '\n' if in_br && !in_q => wrapped = true,
                    '\n' if in_q => nl_in_value = true,
                    _ => {}
                }
                prev = c;
            }
            if wrapped {
                cx.out.count(&format!("form.{}.line-break-inside-brackets", lay.name()));
            }
            if nl_in_value {
                cx.out.count(&format!("form.{}.line-break-inside-value", lay.name()));
            }
            exec_line(cx, &format!("parse {}", hx(&text)));
        }
    }
    exec_line(cx, "expect-none");
    // the lexer alone on some of its lines, with trailing newlines and an arbitrary line number
    let text = render(Layout::Tabs, &t);
    let ls = line_spans(&text);
    for _ in 0..2 {
        let (a, b) = *rng.pick(&ls);
        let l = text[a..b].trim_start_matches('\t').trim_end_matches('\n');
        let nl = "\n".repeat(rng.range(0, 3) as usize);
        let rest = *rng.pick(&["", "\t[IP]", "[Machines]\n", "x"]);
        let n = *rng.pick(&[1i32, 2, 77, 2147483645, 2147483646, 2147483647]);
        exec_line(cx, &format!("lex {} {}", n, hx(&format!("{}{}{}", l, nl, rest))));
    }
}

fn case_structural(cx: &mut Cx, rng: &mut Rng) {
    let t = gen_tree(rng, false);
    for _ in 0..4 {
        if let Some((label, text)) = structural_mutant(rng, &t) {
            cx.out.count(&format!("reject.{}", label));
            cx.out.mark_nontrivial();
            exec_line(cx, &format!("expect-reject {}", label));
            exec_line(cx, &format!("parse {}", hx(&text)));
        }
    }
}

fn case_mutants(cx: &mut Cx, rng: &mut Rng, per_case: u64) {
    let exotic = rng.chance(1, 2);
    let t = gen_tree(rng, exotic);
    let base = render(*rng.pick(&LAYOUTS), &t);
    for _ in 0..per_case {
        let mut s = base.clone();
        let mut labels = vec![];
        for _ in 0..rng.range(1, 3) {
            labels.push(mutate_once(rng, &mut s));
        }
        for l in &labels {
            cx.out.count(&format!("mut.{}", l));
        }
        if s.chars().any(|c| !c.is_ascii()) {
            cx.out.count("text.non-ascii");
        }
        // measured reach of the boundary operators: a multi-byte character directly after a `]`,
        // directly before a `[`, directly after a `[`
        let cs: Vec<char> = s.chars().collect();
        if cs.windows(2).any(|w| w[0] == ']' && w[1].len_utf8() > 1) {
            cx.out.count("text.multibyte-after-close");
        }
        if cs.windows(2).any(|w| w[0] == ']' && w[1].len_utf8() > 1 && w[1].is_whitespace()) {
            cx.out.count("text.multibyte-blank-after-close");
        }
        if cs.windows(2).any(|w| w[1] == '[' && w[0].len_utf8() > 1) {
            cx.out.count("text.multibyte-before-open");
        }
        if cs.windows(2).any(|w| w[0] == '[' && w[1].len_utf8() > 1) {
            cx.out.count("text.multibyte-after-open");
        }
        cx.out.mark_nontrivial();
        exec_line(cx, &format!("parse {}", hx(&s)));
    }
}

/// hand-made texts: the A.6 observations, the two panic candidates, boundary shapes
fn fixed_texts() -> Vec<(&'static str, String)> {
    let base = "[Networks]\n\t[Network id='1']\n\t\t[IP range='1.2.3.4-5']\n[Machines]\n\t[Machine name='m']\n\t\t[Networks]\n\t\t\t[Network id='1']\n\t\t[Protocols]\n\t\t\t[Protocol name='UDP']\n\t\t[Applications]\n\t\t\t[Application name='capture']\n";
    let mut v: Vec<(&'static str, String)> = vec![
        ("empty", "".into()),
        ("base", base.into()),
        ("iptype", "[IPtype v='4']\n".into()),
        ("iptype-nested", "[Networks]\n\t[Network id='1']\n\t\t[IPtype v='4']\n".into()),
        ("kelvin-networks", "[Networ\u{212A}s]\n".into()),
        ("kelvin-network", "[Networks]\n\t[Networ\u{212A} id='1']\n".into()),
        ("kelvin-short", "[Networ\u{212A}]".into()),
        ("dotted-i", "[\u{130}P]".into()),
        ("long-s", "[Network\u{17F}]".into()),
        ("template", "[Template name='t']\n[Networks]\n".into()),
        ("blank-first", "\n[Networks]\n".into()),
        ("blank-only", "\n\n".into()),
        ("space-before-bracket", "[Networks ]\n".into()),
        ("key-space", "[Networks]\n\t[Network id ='1']\n\t\t[IP]\n".into()),
        ("newline-in-brackets", "[Networks\n]\n".into()),
        ("arg-on-next-line", "[Networks]\n\t[Network\nid='1']\n\t\t[IP]\n".into()),
        ("no-final-newline", base.trim_end().into()),
        ("text-after-bracket", "[Networks] x\n".into()),
        ("tab-after-text", "[Networks]\t\n".into()),
        ("unterminated-quote", "[Networks]\n\t[Network id='1]\n".into()),
        ("unterminated-bracket", "[Networks".into()),
        ("only-open", "[".into()),
        ("only-close", "]".into()),
        ("empty-brackets", "[]".into()),
        ("empty-value", "[Networks]\n\t[Network id='']\n\t\t[IP ip='']\n".into()),
        ("empty-key", "[Networks]\n\t[Network ='1' id='2']\n\t\t[IP]\n".into()),
        ("escape", "[Networks]\n\t[Network id='a\\'b']\n\t\t[IP]\n".into()),
        ("backslash-end", "[Networks]\n\t[Network id='a\\']\n".into()),
        ("backslash-other", "[Networks]\n\t[Network id='a\\b']\n".into()),
        ("sep-low-byte", "[Networks]\n\t[Network\u{120}id='1']\n\t\t[IP\u{10A}a='b'\u{109}c='d']\n".into()),
        ("non-ascii-after-tabs", "[Networks]\n\t\u{e9}[Network id='1']\n".into()),
        ("non-ascii-instead-of-tab", "[Networks]\n\u{e9}[Network id='1']\n".into()),
        ("deep", format!("[Networks]\n{}[Network id='1']\n", "\t".repeat(500))),
        ("network-no-ip", "[Networks]\n\t[Network id='1']\n".into()),
        ("networks-empty", "[Networks]\n[Machines]\n".into()),
        ("machine-empty-section", "[Machines]\n\t[Machine]\n\t\t[Networks]\n\t\t[Protocols]\n\t\t\t[Protocol]\n\t\t[Applications]\n\t\t\t[Application]\n".into()),
        ("section-twice", "[Machines]\n\t[Machine]\n\t\t[Networks]\n\t\t\t[Network]\n\t\t[Networks]\n\t\t\t[Network]\n".into()),
        ("five-spaces", "[Networks]\n     [Network id='1']\n".into()),
        ("cr-only", "[Networks]\r[Machines]\r".into()),
        ("four-spaces-in-value", "[Networks]\n\t[Network id='a    b']\n\t\t[IP]\n".into()),
        ("bom", "\u{feff}[Networks]\n".into()),
        ("nul", "[Networks]\n\t[Network id='\u{0}']\n\t\t[IP]\n".into()),
    ];
    v.push(("many-newlines", format!("[Template]{}", "\n".repeat(5000))));
    v
}

fn run_parse_like(args: &Args, c14: bool) {
    let mut out = Out::new(&args.out);
    let files = Files::new(&args.out);
    let mut cx = Cx { seen: HashMap::new(), out: &mut out, files, expect: None, must_reject: None, forms: args.extra.get("forms").and_then(|v| v.parse().ok()).unwrap_or(3), group_first: None, no_panic_oracle: true };
    if let Some(rp) = &args.replay {
        cx.out.begin_case(0);
        cx.out.mark_nontrivial();
        for l in read_ops(rp) {
            if !l.starts_with("case ") {
                exec_line(&mut cx, &l);
            }
        }
        cx.out.end_case();
        drop(cx);
        out.finish(RULE_PARSE);
        return;
    }
    let mut rng = Rng::new(args.seed);
    let mut c = 0u64;
    // fixed texts first
    for (name, text) in fixed_texts() {
        cx.out.begin_case(c);
        cx.out.count(&format!("fixed.{}", name));
        exec_line(&mut cx, &format!("parse {}", hx(&text)));
        cx.out.end_case();
        c += 1;
    }
    if !c14 {
        // the lexer's line counter at the i32 boundary (replay of the `lineOverflow` site)
        cx.out.begin_case(c);
        for (n, t) in [(2147483646, "[Template]\n"), (2147483647, "[Template]"), (2147483647, "[Template]\n"), (2147483646, "[Template]\n\n")] {
            exec_line(&mut cx, &format!("lex {} {}", n, hx(t)));
        }
        cx.out.end_case();
        c += 1;
    }
    if c14 {
        // every awkward character at every kind of structural boundary of a valid text
        for (name, texts) in boundary_sweep() {
            cx.out.begin_case(c);
            cx.out.mark_nontrivial();
            cx.out.count_n(&format!("sweep.{}", name), texts.len() as u64);
            for t in texts {
                exec_line(&mut cx, &format!("parse {}", hx(&t)));
            }
            cx.out.end_case();
            c += 1;
        }
    }
    let per_case: u64 = args.extra.get("mutants").and_then(|v| v.parse().ok()).unwrap_or(8);
    for _ in 0..args.cases {
        let mut r = rng.fork();
        cx.out.begin_case(c);
        if c14 {
            case_mutants(&mut cx, &mut r, per_case);
        } else {
            match c % 8 {
                0..=3 => case_tree(&mut cx, &mut r, false),
                4 => case_tree(&mut cx, &mut r, true),
                5 | 6 => case_structural(&mut cx, &mut r),
                _ => case_mutants(&mut cx, &mut r, per_case),
            }
        }
        cx.expect = None;
        cx.must_reject = None;
        cx.group_first = None;
        cx.out.end_case();
        c += 1;
    }
    drop(cx);
    lowercase_assumption(&mut out);
    out.finish(if c14 { "texts: valid renderings (three layouts) of generated trees with 1..3 random edits each: token/char insertion and deletion, truncation, per-line and whole-file indentation changes (tabs, 4 spaces, mixed, partial), CRLF, line duplication/deletion/move, type-tag replacement (incl. IPtype, U+212A spellings, case flips), blank lines / trailing whitespace / missing final newline, argument edits (duplicates, empty, unquoted, unterminated, backslashes), non-ASCII insertion (multi-byte chars, chars whose low byte is a separator), very deep indentation, boundary operators (1..3 characters of a table of 33 awkward code points -- ASCII blanks/controls other than space/tab/newline, every multi-byte White_Space character, BOM / zero-width characters, case-folding specials, combining marks, low-byte separators, 4-byte characters -- inserted at one or at all structural boundaries of one kind: text start/end, before/after `[` and `]`, inside/after the tag, around `=`, quotes and argument separators, line end/start, inside the indentation; a blank/tab/newline replaced by such a character); first 43 hand-made texts and a systematic sweep (every awkward character x every boundary kind x first/second/last/all positions x three layouts of one valid text); oracle: never a panic; every case counts as non-trivial; distinct = hash of the op lines" } else { RULE_PARSE });
}

pub fn run(args: &Args) {
    match args.prop.as_str() {
        "c19-parse" | "c19" => run_parse_like(args, false),
        "c19-run" => run_sims(args),
        p => {
            eprintln!("hfull: unknown sub-command {}", p);
            std::process::exit(2);
        }
    }
}

/// `c14-ndl` (routed here from props/c14.rs)
pub fn run_c14_ndl(args: &Args) {
    run_parse_like(args, true)
}

// ------------------------------------------------------------------------------------------
// c19-run: generated *semantically* valid descriptions, really built and run
// ------------------------------------------------------------------------------------------

use elvis::applications::Capture;
use elvis_core::ExitStatus;
use std::time::Duration;

/// fixed message length: a capture's concatenated bytes split back into messages
const MSG_LEN: usize = 8;

#[derive(Clone, Debug)]
struct PlanNet {
    id: String,
    /// a.b.c.lo-hi
    base: [u8; 3],
    lo: u8,
    hi: u8,
    singles: Vec<[u8; 4]>,
    as_subnet: bool,
}

#[derive(Clone, Debug)]
enum Target {
    Name(usize),
    Addr(usize),
}

/// one semantically valid description plus what its author intends (the native oracle's side)
struct Plan {
    tree: Tree,
    /// capturing machine name -> messages it must receive
    intended: Vec<(String, Vec<String>)>,
    pingpong: bool,
    label: String,
}

fn ip_s(ip: [u8; 4]) -> String {
    format!("{}.{}.{}.{}", ip[0], ip[1], ip[2], ip[3])
}

fn gen_plan(rng: &mut Rng, seed_tag: u64) -> Plan {
    let o = |k: &str, v: &str| (k.to_string(), v.to_string());
    // ---- networks ----
    let n_nets = rng.range(1, 3) as usize;
    let mut nets: Vec<PlanNet> = vec![];
    let mut used_ids: Vec<String> = vec![];
    for i in 0..n_nets {
        let id = loop {
            let c = rng.pick(&["1", "5", "3", "7", "net-a", "lan", "42", "backbone"]).to_string();
            if !used_ids.contains(&c) {
                break c;
            }
        };
        used_ids.push(id.clone());
        let lo = rng.range(1, 60) as u8;
        let hi = lo + rng.range(12, 40) as u8;
        let base = [*rng.pick(&[123u8, 12, 45, 77, 150]), 20 + i as u8, rng.range(0, 250) as u8];
        let singles = (0..rng.range(0, 2)).map(|k| [base[0], base[1], base[2], 200 + k as u8]).collect();
        nets.push(PlanNet { id, base, lo, hi, singles, as_subnet: false });
    }
    let mut tree = Tree::default();
    for n in &nets {
        let mut ips = vec![];
        // the pool as one or two ranges
        let mid = n.lo + (n.hi - n.lo) / 2;
        if rng.chance(1, 2) {
            ips.push(Leaf { dt: "IP".into(), opts: vec![o("range", &format!("{}.{}.{}.{}-{}", n.base[0], n.base[1], n.base[2], n.lo, n.hi))] });
        } else {
            ips.push(Leaf { dt: "IP".into(), opts: vec![o("range", &format!("{}.{}.{}.{}-{}", n.base[0], n.base[1], n.base[2], n.lo, mid))] });
            ips.push(Leaf { dt: "IP".into(), opts: vec![o("range", &format!("{}.{}.{}.{}-{}", n.base[0], n.base[1], n.base[2], mid + 1, n.hi))] });
        }
        for s in &n.singles {
            ips.push(Leaf { dt: "IP".into(), opts: vec![o("ip", &ip_s(*s))] });
        }
        let _ = n.as_subnet;
        tree.nets.push(Net { opts: vec![o("id", &n.id)], ips });
    }
    // address pool per network, handed out once
    let mut next_host: Vec<u8> = nets.iter().map(|n| n.lo).collect();
    let mut take_ip = |net: usize| -> [u8; 4] {
        let h = next_host[net];
        next_host[net] += 1;
        [nets[net].base[0], nets[net].base[1], nets[net].base[2], h]
    };
    // ---- protocols ----
    // 0,1: no ARP anywhere   2: ARP listed explicitly on every machine   3: auto-protocol on every machine
    // 4,5: MIXED — every machine has ARP, but each gets it its own way (listed / added by auto-protocol,
    //      with its own subset and order of listed protocols); the styles are dealt out over the final
    //      machine order below (explicit first, auto first, alternating, random)
    let arp_mode = rng.below(6);
    // placeholder; the real protocol lines are assigned once the machine order is known
    let protocols = |_rng: &mut Rng| -> (Vec<Leaf>, Option<(String, String)>) { (vec![], None) };
    let port_s = |rng: &mut Rng, p: u16| -> String {
        if rng.chance(1, 2) {
            format!("0x{:x}", p)
        } else {
            p.to_string()
        }
    };
    let net_leaf = |id: &str| Leaf { dt: "Network".into(), opts: vec![("id".to_string(), id.to_string())] };

    let pingpong = rng.chance(1, 6);
    let mut intended: Vec<(String, Vec<String>)> = vec![];
    let mut machs: Vec<Mach> = vec![];
    let mut label = format!("nets={} arp={}", n_nets, arp_mode);
    if pingpong {
        let net = rng.below(n_nets as u64) as usize;
        let (a, b) = (take_ip(net), take_ip(net));
        let (pa, pb) = (rng.range(1024, 65000) as u16, rng.range(1024, 65000) as u16);
        let by_name = rng.chance(1, 2);
        for (k, (me, other, lp, rp, my_name, other_name)) in [(a, b, pa, pb, "ping", "pong"), (b, a, pb, pa, "pong", "ping")].iter().enumerate() {
            let (prots, auto) = protocols(rng);
            let mut mo = vec![o("name", my_name)];
            if let Some(a) = auto {
                mo.push(a);
            }
            let app = Leaf {
                dt: "Application".into(),
                opts: vec![
                    o("name", "ping_pong"),
                    o("starter", if k == 0 { *rng.pick(&["true", "t", "T", "True"]) } else { *rng.pick(&["false", "f", "no"]) }),
                    o("ip", &ip_s(*me)),
                    o("to", &if by_name { other_name.to_string() } else { ip_s(*other) }),
                    o("local_port", &port_s(rng, *lp)),
                    o("remote_port", &port_s(rng, *rp)),
                ],
            };
            machs.push(Mach { opts: mo, nets: vec![net_leaf(&nets[net].id)], prots, apps: vec![app] });
        }
        label.push_str(" pingpong");
    } else {
        // receivers: captures and forwards; every receiver has (name, ip, port, nets)
        struct Rx {
            name: String,
            ip: [u8; 4],
            port: u16,
            nets: Vec<usize>,
            /// index of the receiver a forward passes its messages on to
            fwd_to: Option<usize>,
        }
        let mut rxs: Vec<Rx> = vec![];
        let n_caps = rng.range(1, 3) as usize;
        for i in 0..n_caps {
            let home = rng.below(n_nets as u64) as usize;
            let mut ns = vec![home];
            if n_nets > 1 && rng.chance(1, 3) {
                let other = (home + 1 + rng.below(n_nets as u64 - 1) as usize) % n_nets;
                if rng.chance(1, 2) {
                    ns.push(other);
                } else {
                    ns.insert(0, other);
                }
            }
            rxs.push(Rx { name: format!("recv{}", i + 1), ip: take_ip(home), port: rng.range(1024, 65000) as u16, nets: ns, fwd_to: None });
        }
        let n_fwd = if rng.chance(1, 2) { rng.range(1, 2) as usize } else { 0 };
        let mut second_fwd = false;
        for i in 0..n_fwd {
            // a forward's first network must reach its target
            let tgt = rng.below(rxs.len() as u64) as usize;
            let first = *rng.pick(&rxs[tgt].nets);
            let mut ns = vec![first];
            if n_nets > 1 && rng.chance(1, 3) {
                ns.push((first + 1) % n_nets);
            }
            let home = *rng.pick(&ns);
            if arp_mode >= 2 && rxs[tgt].nets[0] != first {
                second_fwd = true;
            }
            rxs.push(Rx { name: format!("fwd{}", i + 1), ip: take_ip(home), port: rng.range(1024, 65000) as u16, nets: ns, fwd_to: Some(tgt) });
        }
        // senders
        let n_send = rng.range(1, 3) as usize;
        let mut deliveries: Vec<Vec<String>> = vec![vec![]; rxs.len()];
        let mut msg_no = 0u32;
        let mut sender_machs: Vec<Mach> = vec![];
        let mut twice = false;
        let mut second = second_fwd;
        for i in 0..n_send {
            let count = if rng.chance(1, 2) { 1 } else { rng.range(2, 4) };
            let first_net = rng.below(n_nets as u64) as usize;
            let reachable: Vec<usize> = (0..rxs.len()).filter(|r| rxs[*r].nets.contains(&first_net)).collect();
            if reachable.is_empty() {
                continue;
            }
            let mut ns = vec![first_net];
            if n_nets > 1 && rng.chance(1, 3) {
                ns.push((first_net + 1) % n_nets);
            }
            // F-C19-3 probe: the network shared with the receiver is listed second
            if n_nets > 1 && rng.chance(1, 40) {
                let other = (first_net + 1) % n_nets;
                if reachable.iter().any(|r| !rxs[*r].nets.contains(&other)) {
                    ns = vec![other, first_net];
                    second = true;
                }
            }
            let mut apps = vec![];
            // F-C19-2: a machine holds one protocol per Rust type, so of two applications of the
            // same kind only the last one runs; generated rarely and labelled
            let n_apps = if rng.chance(1, 40) { 2 } else { 1 };
            if n_apps == 2 {
                twice = true;
            }
            for _ in 0..n_apps {
                let r = *rng.pick(&reachable);
                if arp_mode >= 2 && rxs[r].nets[0] != first_net {
                    // under ARP a machine answers on its first network only (same finding)
                    second = true;
                }
                msg_no += 1;
                let msg = format!("m{:03}-{:03}", seed_tag % 1000, msg_no % 1000);
                assert_eq!(msg.len(), MSG_LEN);
                let tgt = if rng.chance(1, 2) { Target::Name(r) } else { Target::Addr(r) };
                let mut ao = vec![
                    o("name", "send_message"),
                    o("message", &msg),
                    o("to", &match tgt {
                        Target::Name(r) => rxs[r].name.clone(),
                        Target::Addr(r) => ip_s(rxs[r].ip),
                    }),
                    o("port", &port_s(rng, rxs[r].port)),
                ];
                if count == 1 && rng.chance(1, 4) {
                    ao.push(o("ip", &ip_s(take_ip(ns[0]))));
                }
                apps.push(Leaf { dt: "Application".into(), opts: ao });
                // follow forwards to the capture
                let mut at = r;
                while let Some(nx) = rxs[at].fwd_to {
                    at = nx;
                }
                for _ in 0..count {
                    deliveries[at].push(msg.clone());
                }
            }
            let (prots, auto) = protocols(rng);
            let mut mo = vec![o("name", &format!("send{}", i + 1))];
            if count > 1 || rng.chance(1, 3) {
                mo.push(o("count", &count.to_string()));
            }
            if let Some(a) = auto {
                mo.push(a);
            }
            sender_machs.push(Mach { opts: mo, nets: ns.iter().map(|n| net_leaf(&nets[*n].id)).collect(), prots, apps });
        }
        // a capture nobody sends to would wait forever: give it a sender of its own
        for r in 0..n_caps {
            if deliveries[r].is_empty() {
                msg_no += 1;
                let msg = format!("m{:03}-{:03}", seed_tag % 1000, msg_no % 1000);
                let (prots, auto) = protocols(rng);
                let mut mo = vec![o("name", &format!("extra{}", r + 1))];
                if let Some(a) = auto {
                    mo.push(a);
                }
                let first = if arp_mode >= 2 { rxs[r].nets[0] } else { rxs[r].nets[rng.below(rxs[r].nets.len() as u64) as usize] };
                let ao = vec![o("name", "send_message"), o("message", &msg), o("to", &ip_s(rxs[r].ip)), o("port", &port_s(rng, rxs[r].port))];
                sender_machs.push(Mach { opts: mo, nets: vec![net_leaf(&nets[first].id)], prots, apps: vec![Leaf { dt: "Application".into(), opts: ao }] });
                deliveries[r].push(msg);
            }
        }
        let factory = n_caps > 1 || rng.chance(1, 4);
        let mut rx_machs: Vec<Mach> = vec![];
        for (r, rx) in rxs.iter().enumerate() {
            let (prots, auto) = protocols(rng);
            let mut mo = vec![o("name", &rx.name)];
            if let Some(a) = auto {
                mo.push(a);
            }
            let app = match rx.fwd_to {
                None => {
                    let n = deliveries[r].len();
                    let mut ao = vec![o("name", "capture"), o("ip", &ip_s(rx.ip)), o("port", &port_s(rng, rx.port))];
                    if n != 1 || rng.chance(1, 2) {
                        ao.push(o("type", "count"));
                    }
                    ao.push(o("message_count", &n.to_string()));
                    if factory {
                        ao.push(o("factory", "f1"));
                    }
                    intended.push((rx.name.clone(), deliveries[r].clone()));
                    Leaf { dt: "Application".into(), opts: ao }
                }
                Some(t) => {
                    let by_name = rng.chance(1, 2);
                    Leaf {
                        dt: "Application".into(),
                        opts: vec![
                            o("name", "forward"),
                            o("ip", &ip_s(rx.ip)),
                            o("to", &if by_name { rxs[t].name.clone() } else { ip_s(rxs[t].ip) }),
                            o("local_port", &port_s(rng, rx.port)),
                            o("remote_port", &port_s(rng, rxs[t].port)),
                        ],
                    }
                }
            };
            rx_machs.push(Mach { opts: mo, nets: rx.nets.iter().map(|n| net_leaf(&nets[*n].id)).collect(), prots, apps: vec![app] });
        }
        // machine order: any interleaving of senders and receivers
        machs = sender_machs;
        for m in rx_machs {
            let at = rng.below(machs.len() as u64 + 1) as usize;
            machs.insert(at, m);
        }
        label.push_str(&format!(" caps={} fwd={} senders={}", n_caps, n_fwd, n_send));
        if twice {
            label.push_str(" same-kind-twice");
        }
        if second {
            label.push_str(" shared-net-second");
        }
    }
    // ---- protocol sections, per machine, in the final machine order ----
    {
        let p = |n: &str| Leaf { dt: "Protocol".into(), opts: vec![("name".to_string(), n.to_string())] };
        let shuffle = |rng: &mut Rng, v: &mut Vec<Leaf>| {
            for i in (1..v.len()).rev() {
                let j = rng.below(i as u64 + 1) as usize;
                v.swap(i, j);
            }
        };
        let n = machs.len();
        // which machines rely on auto-protocol (the others list what they need)
        let auto: Vec<bool> = match arp_mode {
            0 | 1 | 2 => vec![false; n],
            3 => vec![true; n],
            _ => {
                let pattern = rng.below(5);
                let k = rng.range(1, (n.max(2) - 1) as u64) as usize; // size of the leading block
                let mut v: Vec<bool> = (0..n)
                    .map(|i| match pattern {
                        0 => i >= k,           // explicit machines first, then auto machines
                        1 => i < k,            // auto machines first
                        2 => i % 2 == 1,       // alternating, explicit first
                        3 => i % 2 == 0,       // alternating, auto first
                        _ => rng.chance(1, 2), // any mix
                    })
                    .collect();
                // a mix holds both kinds whenever there are two machines
                if n >= 2 && v.iter().all(|x| *x) {
                    v[rng.below(n as u64) as usize] = false;
                }
                if n >= 2 && v.iter().all(|x| !*x) {
                    v[rng.below(n as u64) as usize] = true;
                }
                label.push_str(&format!(" mix={}", ["explicit-first", "auto-first", "alternating-e", "alternating-a", "random"][pattern as usize]));
                v
            }
        };
        for (i, m) in machs.iter_mut().enumerate() {
            let mut prots = match (arp_mode, auto[i]) {
                (0 | 1, _) => vec![p("IPv4"), p("UDP")],
                (_, false) => vec![p("IPv4"), p("UDP"), p("ARP")],
                // what an auto-protocol machine still lists: UDP always (it is never added), IPv4 / ARP optionally
                (_, true) => match rng.below(if arp_mode == 3 { 6 } else { 4 }) {
                    0 => vec![p("UDP"), p("IPv4")],
                    1 => vec![p("UDP"), p("ARP")],
                    2 if arp_mode != 3 => vec![p("UDP"), p("IPv4"), p("ARP")],
                    _ => vec![p("UDP")],
                },
            };
            shuffle(rng, &mut prots);
            m.prots = prots;
            if auto[i] {
                m.opts.push(o("auto-protocol", "true"));
            } else if rng.chance(1, 8) {
                // the switch spelled out in its off position
                m.opts.push(o("auto-protocol", "false"));
            }
        }
        if arp_mode >= 4 {
            let first_auto = auto.iter().position(|x| *x);
            let first_expl = auto.iter().position(|x| !*x);
            if let (Some(a), Some(e)) = (first_auto, first_expl) {
                label.push_str(if e < a { " explicit-before-auto" } else { " auto-before-explicit" });
            }
        }
    }
    // argument order within a line is arbitrary
    for m in machs.iter_mut() {
        for a in m.apps.iter_mut() {
            for i in (1..a.opts.len()).rev() {
                let j = rng.below(i as u64 + 1) as usize;
                a.opts.swap(i, j);
            }
        }
    }
    tree.machs = machs;
    Plan { tree, intended, pingpong, label }
}

fn status_name(s: &ExitStatus) -> String {
    match s {
        ExitStatus::Exited => "exited".into(),
        ExitStatus::TimedOut => "timedout".into(),
        ExitStatus::Status(n) => format!("status:{}", n),
    }
}

/// parse (real `core_parser`), build (real generator) and run (real `run_internet`, paused
/// clock) one description; returns the observed `expect …` line
fn run_description(dir: &Path, tree: &Tree, lay: Layout) -> Result<String, String> {
    std::fs::create_dir_all(dir).map_err(|e| e.to_string())?;
    let path = dir.join(format!("run-{}.ndl", std::process::id()));
    std::fs::write(&path, render(lay, tree)).map_err(|e| e.to_string())?;
    let sim = core_parser(path.to_string_lossy().to_string()).map_err(|e| format!("parse error: {}", e))?;
    // names of the machines in build order (count expands a machine)
    let mut names: Vec<String> = vec![];
    for m in &tree.machs {
        let c: u64 = get(&m.opts, "count").and_then(|c| c.parse().ok()).unwrap_or(1);
        for _ in 0..c {
            names.push(get(&m.opts, "name").unwrap_or("").to_string());
        }
    }
    let machines = elvis::ndl::verif_build_machines(sim);
    if machines.len() != names.len() {
        return Err(format!("generator built {} machines for {} described", machines.len(), names.len()));
    }
    let ms = machines.clone();
    let status = block_on_mode(RtMode::Paused, async move { elvis_core::run_internet(&ms, Some(Duration::from_secs(5))).await });
    let mut caps: Vec<(String, String)> = vec![];
    for (m, name) in machines.iter().zip(names.iter()) {
        if let Some(c) = m.protocol::<Capture>() {
            let bytes = c.message().map(|m| m.to_vec()).unwrap_or_default();
            let got = if bytes.is_empty() {
                "none".to_string()
            } else if bytes.len() % MSG_LEN != 0 {
                format!("ragged:{}", hex(&bytes))
            } else {
                let mut ch: Vec<String> = bytes.chunks(MSG_LEN).map(hex).collect();
                ch.sort();
                ch.join(",")
            };
            caps.push((hx(name), got));
        }
    }
    caps.sort();
    let mut line = format!("expect {}", status_name(&status));
    for (n, g) in caps {
        line.push_str(&format!(" cap {} {}", n, g));
    }
    Ok(line)
}

fn intended_line(p: &Plan) -> String {
    let mut caps: Vec<(String, String)> = p
        .intended
        .iter()
        .map(|(n, ms)| {
            let mut h: Vec<String> = ms.iter().map(|m| hx(m)).collect();
            h.sort();
            (hx(n), if h.is_empty() { "none".to_string() } else { h.join(",") })
        })
        .collect();
    caps.sort();
    let mut line = "expect exited".to_string();
    for (n, g) in caps {
        line.push_str(&format!(" cap {} {}", n, g));
    }
    line
}

const RULE_RUN: &str = "descriptions: 1..3 networks (range / single-ip entries), 1..3 capture machines (count type, shared factory when several), 0..2 forwards (chains), 1..3 sender machines with count 1..4 and 1..2 send_message applications wired by name or by address, or a ping_pong pair; protocol sections per machine: IPv4+UDP in either order without ARP, or ARP on every machine — all listed explicitly (any order), all by auto-protocol='true' (listing UDP, UDP+IPv4 or UDP+ARP), or MIXED within one description (explicit machines first, auto machines first, alternating, random; different listed subsets per machine; sender counts > 1; auto-protocol='false' spelled out now and then); second networks on some machines; rendered in a random layout, parsed by core_parser, built by the NDL generator, run by run_internet on a paused clock (5 s virtual timeout) in a worker process; non-trivial = a forward, a count > 1 or two captures; distinct = hash of the run line";

fn run_one_case(spec: &str, dir: &Path) -> CaseReport {
    let mut rep = CaseReport::default();
    let (tree, intended, label, lay): (Tree, Option<String>, String, Layout);
    if let Some(rest) = spec.strip_prefix("gen ") {
        let mut it = rest.split_whitespace();
        let id: u64 = it.next().and_then(|x| x.parse().ok()).unwrap_or(0);
        let seed: u64 = it.next().and_then(|x| x.parse().ok()).unwrap_or(1);
        let mut rng = Rng::new(seed);
        let p = gen_plan(&mut rng, id);
        lay = *rng.pick(&LAYOUTS);
        intended = Some(intended_line(&p));
        label = p.label.clone();
        rep.nontrivial = label.contains("fwd=1") || label.contains("fwd=2") || p.tree.machs.iter().any(|m| get(&m.opts, "count").map_or(false, |c| c != "1")) || p.intended.len() > 1;
        rep.count(format!("layout.{}", lay.name()));
        rep.count(if p.pingpong { "kind.pingpong" } else { "kind.capture" });
        for part in label.split(' ') {
            rep.count(format!("plan.{}", part));
        }
        tree = p.tree;
    } else if let Some(rest) = spec.strip_prefix("replay ") {
        let w: Vec<&str> = rest.split_whitespace().collect();
        match (w.first().copied(), Tree::from_tokens(w.get(1..).unwrap_or(&[]))) {
            (Some("run"), Some(t)) => {
                tree = t;
                intended = None;
                label = "replay".into();
                lay = Layout::Tabs;
                rep.nontrivial = true;
            }
            _ => {
                rep.line(rest, "bad-op");
                return rep;
            }
        }
    } else {
        rep.line(spec, "bad-op");
        return rep;
    }
    // descriptions of the two recorded finding classes are judged by the native oracle only: the
    // Lean spec says what should happen, the implementation is known to differ
    let known_class = label.contains("same-kind-twice") || label.contains("shared-net-second");
    let op = format!("{} {}", if known_class { "run-known" } else { "run" }, tree.tokens(false));
    match run_description(dir, &tree, lay) {
        Ok(observed) => {
            rep.count(format!("status.{}", observed.split(' ').nth(1).unwrap_or("")));
            if let Some(want) = intended {
                if observed != want {
                    let ident = if label.contains("same-kind-twice") {
                        "same-kind-applications only-last-runs"
                    } else if label.contains("shared-net-second") {
                        "shared-network-listed-second not-delivered"
                    } else if !observed.starts_with("expect exited") {
                        "run-did-not-exit"
                    } else {
                        "delivery-mismatch"
                    };
                    rep.fail(format!("running a valid description ({}): intended `{}`, observed `{}`; description:\n{}", label, want, observed, render(Layout::Tabs, &tree)), ident);
                }
            } else if !observed.starts_with("expect exited") {
                rep.fail(format!("replayed description did not end with the normal exit status: `{}`", observed), "run-did-not-exit");
            }
            rep.line(op, if known_class { "not-compared".to_string() } else { observed });
        }
        Err(e) => {
            rep.fail(format!("a valid description ({}) could not be run: {}; description:\n{}", label, e, render(Layout::Tabs, &tree)), "run-setup-error");
            rep.line(op, format!("error {}", e.chars().take(80).collect::<String>().replace(' ', "_").replace('\n', "_")));
        }
    }
    rep
}

fn run_sims(args: &Args) {
    let dir = args.out.join("ndl-tmp");
    if is_worker(args) {
        // the parent passes the scratch directory through the environment
        let d = std::env::var("C19_TMP").map(PathBuf::from).unwrap_or_else(|_| std::env::temp_dir().join("c19-run"));
        worker_loop(|spec| run_one_case(spec, &d));
        return;
    }
    std::env::set_var("C19_TMP", &dir);
    let mut out = Out::new(&args.out);
    let specs: Vec<String> = if let Some(rp) = &args.replay {
        read_ops(rp).into_iter().filter(|l| l.starts_with("run ") || l.starts_with("run-known ")).map(|l| format!("replay {}", l.replacen("run-known ", "run ", 1))).collect()
    } else {
        let mut rng = Rng::new(args.seed);
        (0..args.cases).map(|c| format!("gen {} {}", c, rng.next())).collect()
    };
    let mut seen: HashMap<String, u32> = HashMap::new();
    for (c, o) in run_cases(&args.prop, &specs, default_workers(), 20, 90).iter().enumerate() {
        out.begin_case(c as u64);
        match o {
            CaseOutcome::Done(rep) => {
                // at most two listed failures per identity (the list is bounded)
                let mut rep = rep.clone();
                rep.fails.retain(|f| {
                    let n = seen.entry(f.1.clone()).or_insert(0);
                    *n += 1;
                    if *n > 2 {
                        out.count("oracle_failures");
                        out.count("oracle_failures_not_listed");
                    }
                    *n <= 2
                });
                rep.emit(&mut out)
            }
            died => {
                let (mut line, mut ident) = died_ident(died);
                let stderr = if let CaseOutcome::Died { stderr, .. } = died { stderr.chars().take(600).collect::<String>() } else { String::new() };
                // regenerate the description the dead worker was running, so the case can be replayed
                let op = match specs[c].strip_prefix("gen ") {
                    Some(rest) => {
                        let mut it = rest.split_whitespace();
                        let id: u64 = it.next().and_then(|x| x.parse().ok()).unwrap_or(0);
                        let seed: u64 = it.next().and_then(|x| x.parse().ok()).unwrap_or(1);
                        let p = gen_plan(&mut Rng::new(seed), id);
                        if p.label.contains("shared-net-second") {
                            ident = "shared-network-listed-second not-delivered".into();
                        }
                        if p.label.contains("shared-net-second") || p.label.contains("same-kind-twice") {
                            line = "not-compared".into();
                        }
                        format!("{} {}", if p.label.contains("shared-net-second") || p.label.contains("same-kind-twice") { "run-known" } else { "run" }, p.tree.tokens(false))
                    }
                    None => specs[c].trim_start_matches("replay ").to_string(),
                };
                out.line(&op, &line);
                out.count("died");
                out.fail(&format!("building or running a valid description crashed the process: {} ; spec `{}` ; stderr: {}", ident, specs[c], stderr), &ident);
            }
        }
        out.end_case();
    }
    out.finish(RULE_RUN);
}
