fn main() {
    eprintln!("hfull: no property implemented yet");
    std::process::exit(2);
}
