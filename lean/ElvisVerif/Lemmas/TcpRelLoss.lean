import ElvisVerif.Lemmas.TcpRelData2
import ElvisVerif.Lemmas.TcpConvCalm3
/-!
# `close()` after loss, with text queued (quiet peer): the closer retransmits in FIN-WAIT-1

Starting states: the *calm* states of `Lemmas/TcpConvCalm2.lean` (both ESTABLISHED, reorder heaps / receive buffers /
one-shot queues empty, retransmission timers ≤ RTO; ANYTHING on the closer's retransmission queue — lost or received,
acknowledged or not) with unsent text on the closer and an idle peer (`SND.UNA = SND.NXT`, nothing unsent).
`advanceTime_fw`: `advance_time` does not read the state, so the two ticks of a fair round keep the closed system a twin
(`Lemmas/TcpRelData2.lean`).  First phase after the ticks: `phase_twin_first` (text remains: then `phases_twin` /
`phase_final` apply, the twin being steady) or `phase_final_first` (the window admits the whole queue and all the text: the
queue, the text and the FIN leave in ONE batch; B takes what it has not received yet, in order, then the FIN).
`close_after_loss`: `close A`, a fair round of `2n + 2` phases.
-/
namespace Elvis.Tcp
open Tcb Elvis.ModCmp Elvis.Tcp.Fin

namespace Tcb

theorem advanceRetransmission_fw (t : Tcb) (dt : Nat) :
    (fw t).advanceRetransmission dt =
      match t.advanceRetransmission dt with
      | .error e => .error e
      | .ok t1 => .ok (fw t1) := by
  unfold advanceRetransmission
  show (if dt > t.timeouts.retransmission then _ else _) = _
  by_cases h1 : dt > t.timeouts.retransmission
  · rw [if_pos h1, if_pos h1]
    rfl
  · rw [if_neg h1, if_neg h1]
    show (if t.timeouts.retransmission < dt then _ else _) = _
    by_cases h2 : t.timeouts.retransmission < dt
    · rw [if_pos h2, if_pos h2]
    · rw [if_neg h2, if_neg h2]
      rfl

theorem advanceTime_fw (t : Tcb) (dt : Nat) :
    (fw t).advanceTime dt =
      match t.advanceTime dt with
      | .error e => .error e
      | .ok (t1, r) => .ok (fw t1, r) := by
  unfold advanceTime
  rw [advanceRetransmission_fw]
  cases h : t.advanceRetransmission dt with
  | error e => rfl
  | ok s1 =>
    dsimp only
    show (match s1.timeouts.timeWait with
      | some tw => _
      | none => _) = _
    cases htw : s1.timeouts.timeWait with
    | none => rfl
    | some tw =>
      dsimp only
      by_cases h2 : dt > tw
      · rw [if_pos h2, if_pos h2]
      · rw [if_neg h2, if_neg h2]
        have h3 : ¬ tw < dt := h2
        rw [if_neg h3, if_neg h3]
        rfl

/-- both timers of a fair round: the tick flags the whole queue of the endpoint and of its closed twin (FIN numbered) -/
theorem advanceTime_closedT (t : Tcb) (dt : Nat) (hdt : dt > t.timeouts.retransmission)
    (htw : t.timeouts.timeWait = none) :
    ∃ t1, t.advanceTime dt = .ok (t1, .Ignore) ∧ Flagged t t1 ∧ (closedT t).advanceTime dt = .ok (closedT t1, .Ignore) ∧
      t1.localPort = t.localPort ∧ t1.remotePort = t.remotePort := by
  refine ⟨({ t with timeouts.retransmission := RTO,
                    outgoing.retransmit := t.outgoing.retransmit.map fun x => { x with needsTransmit := true } } : Tcb),
    ?_, ⟨rfl, rfl, rfl, rfl, rfl, rfl, rfl, rfl, rfl⟩, ?_, rfl, rfl⟩
  · unfold advanceTime advanceRetransmission
    rw [if_pos hdt]
    dsimp only
    rw [htw]
  · unfold advanceTime advanceRetransmission
    have hdt' : dt > (closedT t).timeouts.retransmission := hdt
    rw [if_pos hdt']
    dsimp only
    have htw' : (closedT t).timeouts.timeWait = none := htw
    rw [htw']
    dsimp only
    unfold closedT
    simp only [List.map_append, List.map_cons, List.map_nil, htw]
    rfl

/-- `segments()` of the closed twin with nothing left to segmentize: the twin's batch, then the FIN -/
theorem segments_closedT (t : Tcb) (ht : t.outgoing.text = []) (hm : ¬ t.mtu.toNat < SPACE_FOR_HEADERS) :
    t.segments = .ok (emitT t, emitOut t) ∧
      (closedT t).segments = .ok (emitT (closedT t), emitOut t ++ [finSeg t]) ∧
      CloseFx (emitT t) (finSeg t).hdr (emitT (closedT t)) := by
  refine ⟨segments_notext_eq t ht hm, ?_, ?_⟩
  · have := segments_notext_eq (closedT t) ht hm
    have hout : emitOut (closedT t) = emitOut t ++ [finSeg t] := by
      unfold emitOut closedT
      simp only [List.filter_append, List.map_append, List.append_assoc]
      rfl
    rw [hout] at this
    exact this
  · exact {
      st := rfl, nxt := rfl, una := rfl, iss := rfl, rcv := rfl, inc := rfl, text := ht, one := rfl
      rtx := by
        show (t.outgoing.retransmit ++ [Transmit.new (finSeg t)]).map _ = _
        rw [List.map_append]
        rfl
      mtu := rfl, lp := rfl, rp := rfl
      isfin := ⟨rfl, rfl, rfl, rfl, rfl, rfl, rfl⟩
      src := rfl, dst := rfl }

end Tcb

section
variable {iss : SideId → Seq}

/-- **the first exchange phase after loss while text remains**: both timers have expired; the closer re-sends its whole
    queue and cuts what the window still admits; the closed system follows its twin, which becomes steady -/
theorem phase_twin_first (s c : Sys) (hg : Good iss s) (ta tb : Tcb) (hc : Calm s ta tb)
    (hfa : ∀ tr ∈ ta.outgoing.retransmit, tr.needsTransmit = true)
    (hub : tb.snd.una = tb.snd.nxt) (tbt : tb.outgoing.text = [])
    (tw : Twin c s ta tb) (hmore : emitAmount ta < ta.outgoing.text.length) :
    ∃ s' c' ta' tb', phase s = .ok s' ∧ PlainRun s s' ∧ Good iss s' ∧ Steady s' ta' tb' ∧ IdleB ta' tb' ∧
      ta'.outgoing.text = ta.outgoing.text.drop (emitAmount ta) ∧ phase c = .ok c' ∧ PlainRun c c' ∧ Twin c' s' ta' tb' ∧
      (s'.side .A).submitted = (s.side .A).submitted ∧ (s'.side .B).submitted = (s.side .B).submitted := by
  have hsa : (s.side .A).tcb = some ta := hc.ha
  have hsb : (s.side .B).tcb = some tb := hc.hb
  have hqb : tb.outgoing.retransmit = [] :=
    keepOk_empty tb (hg.ext.tcb .B tb hsb).keep ((hg.conv.full.inv.link .B).snd tb hsb).1 (hg.sent_lt .B tb hsb) hub
  have hfb : ∀ tr ∈ tb.outgoing.retransmit, tr.needsTransmit = true := by
    intro tr htr; rw [hqb] at htr; cases htr
  obtain ⟨newA, ta1, outA, eA, fA, eA'⟩ := segments_twin_more ta hc.a.st hc.a.mtu
  have hne1 : ta1.outgoing.text ≠ [] := by
    intro h0
    have := congrArg List.length h0
    rw [fA.text, List.length_drop] at this
    simp only [List.length_nil] at this
    omega
  have eA' := eA' hne1
  obtain ⟨s1, r1, st1, h1a, h1p, h1sub, _, h1len, h1new, h1old⟩ := emit_facts s .A ta ta1 outA hsa eA
  have h1b : (s1.side .B).tcb = some tb := by
    have : s1.side .B = s.side .B := h1p
    rw [this]; exact hsb
  obtain ⟨newB, tb1, outB, eB, fB⟩ := segments_fwd tb (by rw [hc.b.st]; trivial) hc.b.mtu
  obtain ⟨s2, r2, st2, h2b, h2p, h2sub, _, h2len, h2new, h2old⟩ := emit_facts s1 .B tb tb1 outB h1b eB
  have h2pa : s2.side .A = s1.side .A := h2p
  have h2a : (s2.side .A).tcb = some ta1 := by rw [h2pa]; exact h1a
  have r02 : PlainRun s s2 :=
    (PlainRun.step (op := .emit .A) (.refl _) trivial st1).trans (.step (op := .emit .B) (.refl _) trivial st2)
  have hsubA2 : (s2.side .A).submitted = (s.side .A).submitted := by rw [h2pa]; exact h1sub
  have hsubB2 : (s2.side .B).submitted = (s.side .B).submitted := by
    rw [h2sub]
    have : s1.side .B = s.side .B := h1p
    rw [this]
  have hroom2 : RoomH s2 := by
    have a := hg.room.1
    have b := hg.room.2
    exact ⟨by show (s2.side .A).submitted.length + 2 < _; rw [hsubA2]; exact a,
      by show (s2.side .B).submitted.length + 2 < _; rw [hsubB2]; exact b⟩
  have hg2 : Good iss s2 := ⟨(ext_run hg.conv hg.ext r02 hroom2).1, (ext_run hg.conv hg.ext r02 hroom2).2, hroom2⟩
  have haA := out_shape_calm hg .A ta ta1 newA outA hsa hc.a hfa fA
  -- B has nothing to send
  have hamtB : emitAmount tb = 0 := by unfold emitAmount; rw [tbt]; simp
  have hnewB : newB = [] := by
    have := dataRun_nil _ _ _ _ _ _ fB.run (by rw [fB.bytes, hamtB])
    exact List.map_eq_nil_iff.1 this
  have houtB : outB = [] := by rw [fB.out, hc.b.one, hqb, hnewB]; rfl
  subst houtB
  obtain ⟨tb2, eb2, b_st, _⟩ :=
    side_outcome_first hg hg2 .B tb tb1 ta ta1 newB newA [] outA hsb hsa h2b fB fA hc.b hc.a hfa
  have a_st : ta1.state = .Established := by rw [fA.st]; exact hc.a.st
  -- the two phases
  obtain ⟨s6, ph, r06, h6a, h6b, h6sa, h6sb, h6da, h6db, _⟩ :=
    phase_eval s ta tb ta1 tb1 ta1 tb2 outA [] hsa hsb eA eB eb2 rfl (fun g hg' => haA g hg') (fun g hg' => by cases hg')
  obtain ⟨c6, phc, rc06, k6a, k6b, k6sa, k6sb, k6da, k6db, _⟩ :=
    phase_eval c (fw ta) tb (fw ta1) tb1 (fw ta1) tb2 outA [] tw.ca tw.cb eA' eB eb2 rfl
      (fun g hg' => haA g hg') (fun g hg' => by cases hg')
  obtain ⟨s', ta', tb', hp, hr, hg', hs', pta, ptb⟩ := phase_first s hg ta tb hc hfa hfb
  rw [ph] at hp
  cases hp
  have hta' : ta' = ta1.receive.1 := by
    have := hs'.ha
    have h6a' : s6.a.tcb = some ta1.receive.1 := h6a
    rw [h6a'] at this
    cases this; rfl
  have htb' : tb' = tb2.receive.1 := by
    have := hs'.hb
    have h6b' : s6.b.tcb = some tb2.receive.1 := h6b
    rw [h6b'] at this
    cases this; rfl
  have hrA : (fw ta1).receive = (fw ta1.receive.1, ta1.receive.2) := by
    rw [receive_established ta1 a_st]
    rfl
  have hoa' : ta'.outgoing.oneshot = [] := by
    rw [hta', receive_established ta1 a_st]
    exact fA.one
  have hidle' : IdleB ta' tb' := ⟨by rw [ptb, tbt]; simp⟩
  refine ⟨s6, c6, ta', tb', ph, hr, hg', hs', hidle', pta, phc, rc06, ?_, h6sa, h6sb⟩
  rw [hrA] at k6a k6da
  exact ⟨by rw [hta']; exact k6a, by rw [htb']; exact k6b, by rw [k6sa, h6sa]; exact tw.sa,
    by rw [k6sb, h6sb]; exact tw.sb, by rw [k6da, h6da, tw.da], by rw [k6db, h6db, tw.db]⟩

/-- **the last two phases, after loss**: both timers have expired (every queue entry flagged), the window admits the
    closer's whole queue and all its remaining text: the queue is re-sent, the text and the FIN follow in the same batch -/
theorem phase_final_first (s c : Sys) (hg : Good iss s) (ta tb : Tcb) (hc : Calm s ta tb)
    (hfa : ∀ tr ∈ ta.outgoing.retransmit, tr.needsTransmit = true)
    (hub : tb.snd.una = tb.snd.nxt) (tbt : tb.outgoing.text = [])
    (tw : Twin c s ta tb) (hne : ta.outgoing.text ≠ []) (hfit : emitAmount ta = ta.outgoing.text.length) :
    ∃ c' ta' tb', phases 2 c = .ok c' ∧ PlainRun c c' ∧
      (c'.side .A).tcb = some ta' ∧ (c'.side .B).tcb = some tb' ∧
      ta'.state = .FinWait2 ∧ tb'.state = .CloseWait ∧ RestX .A ta' tb' ∧ RestX .B tb' ta' ∧
      (c'.side .A).submitted = (s.side .A).submitted ∧ (c'.side .B).submitted = (s.side .B).submitted ∧
      (c'.side .A).delivered = (s.side .A).delivered := by
  have hsa : (s.side .A).tcb = some ta := hc.ha
  have hsb : (s.side .B).tcb = some tb := hc.hb
  have hqb : tb.outgoing.retransmit = [] :=
    keepOk_empty tb (hg.ext.tcb .B tb hsb).keep ((hg.conv.full.inv.link .B).snd tb hsb).1 (hg.sent_lt .B tb hsb) hub
  have hfb : ∀ tr ∈ tb.outgoing.retransmit, tr.needsTransmit = true := by
    intro tr htr; rw [hqb] at htr; cases htr
  have hsyncB : ta.rcv.nxt = tb.snd.nxt := by
    have sq := squeeze_facts hg .B tb ta hsb hsa hc.a.st
    apply off_inj (base := iss .B)
    have : tb.sent = off (iss .B) tb.snd.nxt := by unfold sent; rw [hg.iss_eq .B tb hsb]
    rw [hub] at sq
    omega
  have hfitA : ta.outgoing.text.length ≤ ta.snd.wnd.toNat - rtxBytes ta.outgoing.retransmit := by
    unfold emitAmount at hfit; omega
  -- both sides emit (A: the ESTABLISHED twin and the closer)
  obtain ⟨newA, ta1, outA, ta1', fin, eA, fA, eA', cf⟩ := segments_twin ta hc.a.st hc.a.mtu hfitA
  have eA' := eA' hne
  obtain ⟨s1, r1, st1, h1a, h1p, h1sub, _, h1len, h1new, h1old⟩ := emit_facts s .A ta ta1 outA hsa eA
  have h1b : (s1.side .B).tcb = some tb := by
    have : s1.side .B = s.side .B := h1p
    rw [this]; exact hsb
  obtain ⟨newB, tb1, outB, eB, fB⟩ := segments_fwd tb (by rw [hc.b.st]; trivial) hc.b.mtu
  obtain ⟨s2, r2, st2, h2b, h2p, h2sub, _, h2len, h2new, h2old⟩ := emit_facts s1 .B tb tb1 outB h1b eB
  have h2pa : s2.side .A = s1.side .A := h2p
  have h2a : (s2.side .A).tcb = some ta1 := by rw [h2pa]; exact h1a
  have r02 : PlainRun s s2 :=
    (PlainRun.step (op := .emit .A) (.refl _) trivial st1).trans (.step (op := .emit .B) (.refl _) trivial st2)
  have hsubA2 : (s2.side .A).submitted = (s.side .A).submitted := by rw [h2pa]; exact h1sub
  have hsubB2 : (s2.side .B).submitted = (s.side .B).submitted := by
    rw [h2sub]
    have : s1.side .B = s.side .B := h1p
    rw [this]
  have hroom2 : RoomH s2 := by
    have a := hg.room.1
    have b := hg.room.2
    exact ⟨by show (s2.side .A).submitted.length + 2 < _; rw [hsubA2]; exact a,
      by show (s2.side .B).submitted.length + 2 < _; rw [hsubB2]; exact b⟩
  have hg2 : Good iss s2 := ⟨(ext_run hg.conv hg.ext r02 hroom2).1, (ext_run hg.conv hg.ext r02 hroom2).2, hroom2⟩
  have haA := out_shape_calm hg .A ta ta1 newA outA hsa hc.a hfa fA
  have haB := out_shape_calm hg .B tb tb1 newB outB hsb hc.b hfb fB
  -- B has nothing to send
  have hamtB : emitAmount tb = 0 := by unfold emitAmount; rw [tbt]; simp
  have hnewB : newB = [] := by
    have := dataRun_nil _ _ _ _ _ _ fB.run (by rw [fB.bytes, hamtB])
    exact List.map_eq_nil_iff.1 this
  have houtB : outB = [] := by rw [fB.out, hc.b.one, hqb, hnewB]; rfl
  have hnxtB1 : tb1.snd.nxt = tb.snd.nxt := by rw [fB.nxt, hamtB]; simp
  -- B takes A's queue and data
  obtain ⟨tb2, eb2, b_st, b_heap, b_rcv, b_nxt, b_mtu, b_unf, b_text, b_lo, b_hi, _, _⟩ :=
    side_outcome_first hg hg2 .B tb tb1 ta ta1 newB newA outB outA hsb hsa h2b fB fA hc.b hc.a hfa
  have b_una : tb2.snd.una = tb.snd.nxt := by
    apply off_inj (base := iss .B)
    have h1 : tb1.sent = off (iss .B) tb1.snd.nxt := by unfold sent; rw [hg2.iss_eq .B tb1 h2b]
    rw [fB.una, hub] at b_lo
    rw [h1, hnxtB1] at b_hi
    omega
  have hnA : ∀ j (hj : j < outA.length), s2.nth (s.historyLen + j) = some outA[j] := by
    intro j hj
    rw [h2old _ (by rw [h1len]; omega)]
    exact h1new j hj
  obtain ⟨s3, _, r23, h3b, h3p, h3sub, _, _, _⟩ :=
    batch_facts s2 .B s.historyLen outA tb1 tb2 h2b hnA eb2 (fun g hg' => haA g hg')
  have h3pa : s3.side .A = s2.side .A := h3p
  have h3a : (s3.side .A).tcb = some ta1 := by rw [h3pa]; exact h2a
  have hroom3 : RoomH s3 := by
    have a := hg.room.1
    have b := hg.room.2
    exact ⟨by show (s3.side .A).submitted.length + 2 < _; rw [h3pa, hsubA2]; exact a,
      by show (s3.side .B).submitted.length + 2 < _; rw [h3sub, hsubB2]; exact b⟩
  have r03 : PlainRun s s3 := r02.trans r23
  have hg3 : Good iss s3 := ⟨(ext_run hg.conv hg.ext r03 hroom3).1, (ext_run hg.conv hg.ext r03 hroom3).2, hroom3⟩
  -- what the invariants say about the twin `ta1` and about `tb2`
  obtain ⟨sbA, lpA, rpA⟩ := (hg3.conv.full.inv.link .A).snd ta1 h3a
  obtain ⟨sbB, lpB, rpB⟩ := (hg3.conv.full.inv.link .B).snd tb2 h3b
  have wB2 : tb2.rcv.wnd = 65535#16 := hg3.wnd .B tb2 h3b
  have wA : ta.rcv.wnd = 65535#16 := hg.wnd .A ta hsa
  have issA1 : ta1.snd.iss = iss .A := hg3.iss_eq .A ta1 h3a
  have hN : ta1.sent + 1 < 2147483648 := by
    have := room_of_inv hg3.conv.c01 hg3.room .A ta1 h3a
    unfold Room at this; omega
  have sqA3 := squeeze_facts hg3 .A ta1 tb2 h3a h3b b_st
  have oneB3 := oneshot_facts hg3 .B tb2 ta1 h3b h3a b_st
  have qA1 := hg3.queue .A ta1 h3a
  have hsentA1 : off (iss .A) ta1.snd.nxt = ta1.sent := by unfold sent; rw [issA1]
  have hunaB2 : tb2.snd.una = tb2.snd.nxt := by rw [b_una, b_nxt, hnxtB1]
  have hrtxB2 : tb2.outgoing.retransmit = [] := by
    apply List.eq_nil_iff_forall_not_mem.2
    intro tr htr
    obtain ⟨k1, k2⟩ := hg3.queue .B tb2 h3b tr htr
    have hNB := hg3.sent_lt .B tb2 h3b
    have hu : off (iss .B) tb2.snd.una = tb2.sent := by
      rw [hunaB2]; unfold sent; rw [hg3.iss_eq .B tb2 h3b]
    have := (keepFor_iff (iss .B) tb2.snd.una tr tb2.sent hNB (by omega) k2).1 k1
    omega
  -- the FIN reaches B behind the data
  let gF : Segment := ⟨fin, []⟩
  let tb3 : Tcb := ({ tb2 with state := .CloseWait, rcv.nxt := tb2.rcv.nxt + 1, outgoing.oneshot := tb2.outgoing.oneshot ++ [tb2.finAckHdr] } : Tcb)
  have eF : tb2.segmentArrives gF = .ok (tb3, .Ok) :=
    arrive_fin_est tb2 gF b_st wB2 b_heap cf.isfin.rst cf.isfin.syn cf.isfin.fin cf.isfin.ackb cf.isfin.text
      (by rw [cf.isfin.seq, b_rcv])
      (by
        rw [cf.isfin.ack, fA.rcv, hsyncB, b_una]
        exact modLeq_self _)
  have aB : tb1.arriveList (outA ++ [gF]) = .ok tb3 := by
    rw [arriveList_append outA [gF] tb1 tb2 eb2]
    simp only [arriveList, eF]
  -- the closer (FIN queued) takes B's pending pure ACKs
  have hfinLen : Segment.segLen ⟨fin, []⟩ = 1 := by
    unfold Segment.segLen
    rw [cf.isfin.syn, cf.isfin.fin]
    rfl
  have hfinSeq : fin.seq = ta1.snd.nxt := cf.isfin.seq
  have hfinEnd : off (iss .A) (ta1.snd.nxt + BitVec.ofNat 32 1) = ta1.sent + 1 := by
    rw [off_add _ _ _ (by rw [hsentA1]; omega), hsentA1]
  have hnxtA1' : off (iss .A) ta1'.snd.nxt = ta1.sent + 1 := by
    rw [cf.nxt, off_add_one _ _ (by rw [hsentA1]; omega), hsentA1]
  have hunaA1' : off (iss .A) ta1'.snd.una ≤ ta1.sent := by
    rw [cf.una]
    have := sqA3.1
    have := sqA3.2
    omega
  have hrcvA1' : ta1'.rcv.nxt = tb.snd.nxt := by rw [cf.rcv, fA.rcv, hsyncB]
  have hkeep1' : ∀ tr ∈ ta1'.outgoing.retransmit, keepFor ta1'.snd.una tr = true := by
    intro t0 h0
    rw [cf.una]
    rw [cf.rtx] at h0
    rcases List.mem_append.1 h0 with h0 | h0
    · exact (qA1 t0 h0).1
    · simp only [List.mem_singleton] at h0
      subst h0
      unfold keepFor
      show modLt ta1.snd.una (fin.seq + BitVec.ofNat 32 (Segment.segLen ⟨fin, []⟩)) = true
      rw [hfinLen, hfinSeq]
      refine (modLt_iff_off (iss .A) _ _ (by have := sqA3.1; have := sqA3.2; omega) (by rw [hfinEnd]; omega)).2 ?_
      rw [hfinEnd]
      have := sqA3.1
      have := sqA3.2
      omega
  have hend1' : ∀ tr ∈ ta1'.outgoing.retransmit, off (iss .A) (txEnd tr) ≤ ta1.sent + 1 := by
    intro t0 h0
    rw [cf.rtx] at h0
    rcases List.mem_append.1 h0 with h0 | h0
    · have := (qA1 t0 h0).2; omega
    · simp only [List.mem_singleton] at h0
      subst h0
      unfold txEnd
      show off (iss .A) (fin.seq + BitVec.ofNat 32 (Segment.segLen ⟨fin, []⟩)) ≤ _
      rw [hfinLen, hfinSeq, hfinEnd]
      omega
  have hallB : ∀ g ∈ outB, PureAck g ∧ g.hdr.seq = ta1'.rcv.nxt ∧ 1 ≤ off (iss .A) g.hdr.ack ∧
      off (iss .A) g.hdr.ack ≤ ta1.sent := by
    intro g hg'
    rw [houtB] at hg'
    cases hg'
  obtain ⟨ta3, aA1, lf1⟩ := ackList_fwx (iss .A) (ta1.sent + 1) hN outB ta1'
    (Or.inl cf.st) (by rw [cf.rcv, fA.rcv]; exact wA)
    (by rw [cf.inc, fA.inc]; exact hc.a.heap) cf.text
    (by rw [cf.iss]; exact issA1) hnxtA1' (by omega)
    (fun g hg' => by
      obtain ⟨a, b, c1, d⟩ := hallB g hg'
      exact ⟨a, b, c1, by omega⟩)
    hkeep1'
  -- phase 1: the data and the FIN
  have hbufA1' : ta1'.incoming.text = [] := by rw [cf.inc, fA.inc]; exact hc.a.buf
  have hbufA3 : ta3.incoming.text = [] := by rw [lf1.inc]; exact hbufA1'
  obtain ⟨c1, ph1, r01, c1a, c1b, c1sa, c1sb, c1da, _, _⟩ :=
    phase_eval c (fw ta) tb ta1' tb1 ta3 tb3 (outA ++ [gF]) outB tw.ca tw.cb eA' eB aB aA1
      (fun g hg' => by
        rcases List.mem_append.1 hg' with h | h
        · exact haA g h
        · simp only [List.mem_singleton] at h
          subst h
          exact ⟨cf.src.trans lpA, cf.dst.trans rpA⟩)
      (fun g hg' => haB g hg')
  rw [receive_empty ta3 hbufA3] at c1a c1da
  let tb4 : Tcb := ({ tb3 with incoming.text := [] } : Tcb)
  have hrB3 : tb3.receive.1 = tb4 := rfl
  rw [hrB3] at c1b
  -- phase 2: B's ACKs
  have hmA1' : ¬ ta1'.mtu.toNat < SPACE_FOR_HEADERS := by
    rw [cf.mtu, fA.mtu]; have := hc.a.mtu; omega
  have hmA3 : ¬ ta3.mtu.toNat < SPACE_FOR_HEADERS := by rw [lf1.mtu]; exact hmA1'
  have hmB4 : ¬ tb4.mtu.toNat < SPACE_FOR_HEADERS := by
    show ¬ tb2.mtu.toNat < _
    rw [b_mtu]; have := hc.b.mtu; omega
  have hunfA1' : ∀ tr ∈ ta1'.outgoing.retransmit, tr.needsTransmit = false := by
    intro tr htr
    rw [cf.rtx, fA.rtx] at htr
    rcases List.mem_append.1 htr with h | h
    · obtain ⟨t0, _, rfl⟩ := List.mem_map.1 h
      rfl
    · simp only [List.mem_singleton] at h
      subst h
      rfl
  have htA3 : ta3.outgoing.text = [] := by rw [lf1.otext]; exact cf.text
  have eA2 := segments_notext_eq ta3 htA3 hmA3
  have houtA2 : emitOut ta3 = [] := by
    unfold emitOut
    rw [lf1.one, cf.one]
    have h1 : ta3.outgoing.retransmit.filter (·.needsTransmit) = [] :=
      List.filter_eq_nil_iff.2 (fun tr htr => by rw [hunfA1' tr (lf1.rtx tr htr).1]; simp)
    rw [h1]
    rfl
  rw [houtA2] at eA2
  have htB4 : tb4.outgoing.text = [] := by
    show tb2.outgoing.text = []
    rw [b_text, tbt]; simp
  have eB2 := segments_notext_eq tb4 htB4 hmB4
  have houtB2 : emitOut tb4 = (tb2.outgoing.oneshot ++ [tb2.finAckHdr]).map fun h => (⟨h, []⟩ : Segment) := by
    unfold emitOut
    show List.map _ (tb2.outgoing.oneshot ++ [tb2.finAckHdr]) ++
      List.map _ (List.filter _ tb2.outgoing.retransmit) = _
    rw [hrtxB2]
    simp
  rw [houtB2] at eB2
  -- A takes the ACKs
  have hmax1 : maxAck (iss .A) outB ≤ ta1.sent :=
    maxAck_le _ _ _ (fun g hg' => (hallB g hg').2.2.2)
  have hunaA3 : off (iss .A) (emitT ta3).snd.una ≤ ta1.sent + 1 := by
    show off (iss .A) ta3.snd.una ≤ _
    rw [lf1.una]
    omega
  have hnxtA3 : off (iss .A) (emitT ta3).snd.nxt = ta1.sent + 1 := by
    show off (iss .A) ta3.snd.nxt = _
    rw [lf1.nxt]; exact hnxtA1'
  have hrcvA : (emitT ta3).rcv.nxt = tb2.snd.nxt := by
    show ta3.rcv.nxt = _
    rw [lf1.rcv, hrcvA1', b_nxt, hnxtB1]
  have hrcvB2 : off (iss .A) tb2.rcv.nxt = ta1.sent := by rw [b_rcv, hsentA1]
  have hackF : (tb2.finAckHdr).ack = tb2.rcv.nxt + 1 := rfl
  have hoffF : off (iss .A) (tb2.finAckHdr).ack = ta1.sent + 1 := by
    rw [hackF, off_add_one _ _ (by rw [hrcvB2]; omega), hrcvB2]
  obtain ⟨ta5, aA, lf⟩ := ackList_fwx (iss .A) (ta1.sent + 1) hN
    ((tb2.outgoing.oneshot ++ [tb2.finAckHdr]).map fun h => (⟨h, []⟩ : Segment)) (emitT ta3)
    lf1.st (by show ta3.rcv.wnd = _; rw [lf1.rcv, cf.rcv, fA.rcv]; exact wA)
    (by show ta3.incoming.segments = []; rw [lf1.inc, cf.inc, fA.inc]; exact hc.a.heap) htA3
    (by show ta3.snd.iss = _; rw [lf1.iss, cf.iss]; exact issA1) hnxtA3 hunaA3
    (fun g hg' => by
      obtain ⟨h, hh, rfl⟩ := List.mem_map.1 hg'
      rcases List.mem_append.1 hh with hh | hh
      · obtain ⟨e1, e2, e3, e4, e5, e6, e7⟩ := oneB3.2 h hh
        have e7' : off (iss .A) h.ack ≤ off (iss .A) tb2.rcv.nxt := e7
        rw [hrcvB2] at e7'
        refine ⟨⟨e2, e3, e4, e5, rfl⟩, by rw [hrcvA]; exact e1, ?_, ?_⟩
        · show 1 ≤ off (iss .A) h.ack
          exact e6
        · show off (iss .A) h.ack ≤ ta1.sent + 1
          omega
      · simp only [List.mem_singleton] at hh
        subst hh
        exact ⟨⟨rfl, rfl, rfl, rfl, rfl⟩, by rw [hrcvA]; rfl, by show 1 ≤ off _ (tb2.finAckHdr).ack; omega,
          by show off _ (tb2.finAckHdr).ack ≤ _; omega⟩)
    (fun tr htr => by
      have htr' : tr ∈ ta3.outgoing.retransmit.map (fun x => ({ x with needsTransmit := false } : Transmit)) := htr
      obtain ⟨t0, h0, rfl⟩ := List.mem_map.1 htr'
      show keepFor ta3.snd.una t0 = true
      exact (lf1.rtx t0 h0).2)
  obtain ⟨c2, ph2, r12, c2a, c2b, c2sa, c2sb, c2da, _, _⟩ :=
    phase_eval c1 ta3 tb4 (emitT ta3) (emitT tb4) ta5 (emitT tb4) []
      ((tb2.outgoing.oneshot ++ [tb2.finAckHdr]).map fun h => (⟨h, []⟩ : Segment)) c1a c1b eA2 eB2 rfl aA
      (fun g hg' => by cases hg')
      (fun g hg' => by
        obtain ⟨h, hh, rfl⟩ := List.mem_map.1 hg'
        rcases List.mem_append.1 hh with hh | hh
        · have := sbB.oports h hh
          exact ⟨this.1.trans lpB, this.2.trans rpB⟩
        · simp only [List.mem_singleton] at hh
          subst hh
          exact ⟨lpB, rpB⟩)
  -- the final TCBs
  have hbufA5 : ta5.incoming.text = [] := by
    rw [lf.inc]; exact hbufA3
  rw [receive_empty ta5 hbufA5] at c2a c2da
  have hbufB5 : (emitT tb4).incoming.text = [] := rfl
  rw [receive_empty (emitT tb4) hbufB5] at c2b
  -- SND.UNA has reached SND.NXT on A's side
  have hmax : maxAck (iss .A) ((tb2.outgoing.oneshot ++ [tb2.finAckHdr]).map fun h => (⟨h, []⟩ : Segment)) = ta1.sent + 1 := by
    apply Nat.le_antisymm
    · refine maxAck_le _ _ _ (fun g hg' => ?_)
      obtain ⟨h, hh, rfl⟩ := List.mem_map.1 hg'
      rcases List.mem_append.1 hh with hh | hh
      · have e7 : off (iss .A) h.ack ≤ off (iss .A) tb2.rcv.nxt := (oneB3.2 h hh).2.2.2.2.2.2
        show off (iss .A) h.ack ≤ _
        rw [hrcvB2] at e7; omega
      · simp only [List.mem_singleton] at hh
        subst hh
        show off (iss .A) (tb2.finAckHdr).ack ≤ _
        omega
    · have hm : (⟨tb2.finAckHdr, []⟩ : Segment) ∈
          (tb2.outgoing.oneshot ++ [tb2.finAckHdr]).map fun h => (⟨h, []⟩ : Segment) :=
        List.mem_map.2 ⟨tb2.finAckHdr, List.mem_append_right _ (List.mem_singleton.2 rfl), rfl⟩
      have := maxAck_ge (iss .A) _ ⟨tb2.finAckHdr, []⟩ hm
      rw [← hoffF]
      exact this
  have hu5 : off (iss .A) ta5.snd.una = ta1.sent + 1 := by
    rw [lf.una, hmax]
    omega
  have hun5 : ta5.snd.una = ta5.snd.nxt := by
    apply off_inj (base := iss .A)
    rw [hu5, lf.nxt, hnxtA3]
  have hst5 : ta5.state = .FinWait2 := lf.done (by simp) hun5
  have hrtx5 : ta5.outgoing.retransmit = [] := by
    apply List.eq_nil_iff_forall_not_mem.2
    intro tr htr
    obtain ⟨k1, k2⟩ := lf.rtx tr htr
    have k1' : tr ∈ ta3.outgoing.retransmit.map (fun x => ({ x with needsTransmit := false } : Transmit)) := k1
    obtain ⟨t0, h0, rfl⟩ := List.mem_map.1 k1'
    have hend : txEnd ({ t0 with needsTransmit := false } : Transmit) = txEnd t0 := rfl
    have hle : off (iss .A) (txEnd t0) ≤ ta1.sent + 1 := hend1' t0 (lf1.rtx t0 h0).1
    have := (keepFor_iff (iss .A) ta5.snd.una { t0 with needsTransmit := false } (ta1.sent + 1) hN (by omega)
      (by rw [hend]; exact hle)).1 k2
    rw [hend, hu5] at this
    omega
  refine ⟨c2, ta5, emitT tb4, ?_, r01.trans r12, c2a, c2b, hst5, rfl, ?_, ?_, ?_, ?_, ?_⟩
  · simp only [phases, ph1, ph2]
  · -- A is at rest
    refine ⟨by rw [lf.inc]; show ta3.incoming.segments = []; rw [lf1.inc, cf.inc, fA.inc]; exact hc.a.heap, hbufA5,
      by rw [lf.otext]; exact htA3, hrtx5,
      by rw [lf.one]; rfl, hun5, ?_, by rw [lf.rcv]; show ta3.rcv.wnd = _; rw [lf1.rcv, cf.rcv, fA.rcv]; exact wA,
      by rw [lf.mtu]; exact hmA3,
      by rw [lf.lp]; show ta3.localPort = _; rw [lf1.lp, cf.lp]; exact lpA,
      by rw [lf.rp]; show ta3.remotePort = _; rw [lf1.rp, cf.rp]; exact rpA⟩
    show tb2.rcv.nxt + 1 = ta5.snd.nxt
    rw [lf.nxt]
    show _ = ta3.snd.nxt
    rw [lf1.nxt, b_rcv]
    exact cf.nxt.symm
  · -- B is at rest
    refine ⟨b_heap, rfl, htB4, by show tb2.outgoing.retransmit.map _ = []; rw [hrtxB2]; rfl, rfl, hunaB2, ?_, wB2, hmB4,
      lpB, rpB⟩
    show ta5.rcv.nxt = tb2.snd.nxt
    rw [lf.rcv]
    exact hrcvA
  · rw [c2sa, c1sa]; exact tw.sa
  · rw [c2sb, c1sb]; exact tw.sb
  · rw [c2da, c1da, tw.da]; simp


/-- the core of `phase_final_first`: the closer's TCB `tc` is any TCB that emits the twin's batch followed by a FIN
    (`CloseFx`) — the FIN may have been numbered by `close()` itself -/
theorem final_core_first (s c : Sys) (hg : Good iss s) (ta tb : Tcb) (hc : Calm s ta tb)
    (hfa : ∀ tr ∈ ta.outgoing.retransmit, tr.needsTransmit = true)
    (hub : tb.snd.una = tb.snd.nxt) (tbt : tb.outgoing.text = [])
    (tc : Tcb) (hca : (c.side .A).tcb = some tc) (hcb : (c.side .B).tcb = some tb)
    (hcsa : (c.side .A).submitted = (s.side .A).submitted) (hcsb : (c.side .B).submitted = (s.side .B).submitted)
    (hcda : (c.side .A).delivered = (s.side .A).delivered)
    (newA : List Transmit) (ta1 : Tcb) (outA : List Segment) (ta1' : Tcb) (fin : Hdr)
    (eA : ta.segments = .ok (ta1, outA)) (fA : EmitFx ta newA ta1 outA)
    (eA' : tc.segments = .ok (ta1', outA ++ [⟨fin, []⟩])) (cf : CloseFx ta1 fin ta1') :
    ∃ c' ta' tb', phases 2 c = .ok c' ∧ PlainRun c c' ∧
      (c'.side .A).tcb = some ta' ∧ (c'.side .B).tcb = some tb' ∧
      ta'.state = .FinWait2 ∧ tb'.state = .CloseWait ∧ RestX .A ta' tb' ∧ RestX .B tb' ta' ∧
      (c'.side .A).submitted = (s.side .A).submitted ∧ (c'.side .B).submitted = (s.side .B).submitted ∧
      (c'.side .A).delivered = (s.side .A).delivered := by
  have hsa : (s.side .A).tcb = some ta := hc.ha
  have hsb : (s.side .B).tcb = some tb := hc.hb
  have hqb : tb.outgoing.retransmit = [] :=
    keepOk_empty tb (hg.ext.tcb .B tb hsb).keep ((hg.conv.full.inv.link .B).snd tb hsb).1 (hg.sent_lt .B tb hsb) hub
  have hfb : ∀ tr ∈ tb.outgoing.retransmit, tr.needsTransmit = true := by
    intro tr htr; rw [hqb] at htr; cases htr
  have hsyncB : ta.rcv.nxt = tb.snd.nxt := by
    have sq := squeeze_facts hg .B tb ta hsb hsa hc.a.st
    apply off_inj (base := iss .B)
    have : tb.sent = off (iss .B) tb.snd.nxt := by unfold sent; rw [hg.iss_eq .B tb hsb]
    rw [hub] at sq
    omega
  obtain ⟨s1, r1, st1, h1a, h1p, h1sub, _, h1len, h1new, h1old⟩ := emit_facts s .A ta ta1 outA hsa eA
  have h1b : (s1.side .B).tcb = some tb := by
    have : s1.side .B = s.side .B := h1p
    rw [this]; exact hsb
  obtain ⟨newB, tb1, outB, eB, fB⟩ := segments_fwd tb (by rw [hc.b.st]; trivial) hc.b.mtu
  obtain ⟨s2, r2, st2, h2b, h2p, h2sub, _, h2len, h2new, h2old⟩ := emit_facts s1 .B tb tb1 outB h1b eB
  have h2pa : s2.side .A = s1.side .A := h2p
  have h2a : (s2.side .A).tcb = some ta1 := by rw [h2pa]; exact h1a
  have r02 : PlainRun s s2 :=
    (PlainRun.step (op := .emit .A) (.refl _) trivial st1).trans (.step (op := .emit .B) (.refl _) trivial st2)
  have hsubA2 : (s2.side .A).submitted = (s.side .A).submitted := by rw [h2pa]; exact h1sub
  have hsubB2 : (s2.side .B).submitted = (s.side .B).submitted := by
    rw [h2sub]
    have : s1.side .B = s.side .B := h1p
    rw [this]
  have hroom2 : RoomH s2 := by
    have a := hg.room.1
    have b := hg.room.2
    exact ⟨by show (s2.side .A).submitted.length + 2 < _; rw [hsubA2]; exact a,
      by show (s2.side .B).submitted.length + 2 < _; rw [hsubB2]; exact b⟩
  have hg2 : Good iss s2 := ⟨(ext_run hg.conv hg.ext r02 hroom2).1, (ext_run hg.conv hg.ext r02 hroom2).2, hroom2⟩
  have haA := out_shape_calm hg .A ta ta1 newA outA hsa hc.a hfa fA
  have haB := out_shape_calm hg .B tb tb1 newB outB hsb hc.b hfb fB
  -- B has nothing to send
  have hamtB : emitAmount tb = 0 := by unfold emitAmount; rw [tbt]; simp
  have hnewB : newB = [] := by
    have := dataRun_nil _ _ _ _ _ _ fB.run (by rw [fB.bytes, hamtB])
    exact List.map_eq_nil_iff.1 this
  have houtB : outB = [] := by rw [fB.out, hc.b.one, hqb, hnewB]; rfl
  have hnxtB1 : tb1.snd.nxt = tb.snd.nxt := by rw [fB.nxt, hamtB]; simp
  -- B takes A's queue and data
  obtain ⟨tb2, eb2, b_st, b_heap, b_rcv, b_nxt, b_mtu, b_unf, b_text, b_lo, b_hi, _, _⟩ :=
    side_outcome_first hg hg2 .B tb tb1 ta ta1 newB newA outB outA hsb hsa h2b fB fA hc.b hc.a hfa
  have b_una : tb2.snd.una = tb.snd.nxt := by
    apply off_inj (base := iss .B)
    have h1 : tb1.sent = off (iss .B) tb1.snd.nxt := by unfold sent; rw [hg2.iss_eq .B tb1 h2b]
    rw [fB.una, hub] at b_lo
    rw [h1, hnxtB1] at b_hi
    omega
  have hnA : ∀ j (hj : j < outA.length), s2.nth (s.historyLen + j) = some outA[j] := by
    intro j hj
    rw [h2old _ (by rw [h1len]; omega)]
    exact h1new j hj
  obtain ⟨s3, _, r23, h3b, h3p, h3sub, _, _, _⟩ :=
    batch_facts s2 .B s.historyLen outA tb1 tb2 h2b hnA eb2 (fun g hg' => haA g hg')
  have h3pa : s3.side .A = s2.side .A := h3p
  have h3a : (s3.side .A).tcb = some ta1 := by rw [h3pa]; exact h2a
  have hroom3 : RoomH s3 := by
    have a := hg.room.1
    have b := hg.room.2
    exact ⟨by show (s3.side .A).submitted.length + 2 < _; rw [h3pa, hsubA2]; exact a,
      by show (s3.side .B).submitted.length + 2 < _; rw [h3sub, hsubB2]; exact b⟩
  have r03 : PlainRun s s3 := r02.trans r23
  have hg3 : Good iss s3 := ⟨(ext_run hg.conv hg.ext r03 hroom3).1, (ext_run hg.conv hg.ext r03 hroom3).2, hroom3⟩
  -- what the invariants say about the twin `ta1` and about `tb2`
  obtain ⟨sbA, lpA, rpA⟩ := (hg3.conv.full.inv.link .A).snd ta1 h3a
  obtain ⟨sbB, lpB, rpB⟩ := (hg3.conv.full.inv.link .B).snd tb2 h3b
  have wB2 : tb2.rcv.wnd = 65535#16 := hg3.wnd .B tb2 h3b
  have wA : ta.rcv.wnd = 65535#16 := hg.wnd .A ta hsa
  have issA1 : ta1.snd.iss = iss .A := hg3.iss_eq .A ta1 h3a
  have hN : ta1.sent + 1 < 2147483648 := by
    have := room_of_inv hg3.conv.c01 hg3.room .A ta1 h3a
    unfold Room at this; omega
  have sqA3 := squeeze_facts hg3 .A ta1 tb2 h3a h3b b_st
  have oneB3 := oneshot_facts hg3 .B tb2 ta1 h3b h3a b_st
  have qA1 := hg3.queue .A ta1 h3a
  have hsentA1 : off (iss .A) ta1.snd.nxt = ta1.sent := by unfold sent; rw [issA1]
  have hunaB2 : tb2.snd.una = tb2.snd.nxt := by rw [b_una, b_nxt, hnxtB1]
  have hrtxB2 : tb2.outgoing.retransmit = [] := by
    apply List.eq_nil_iff_forall_not_mem.2
    intro tr htr
    obtain ⟨k1, k2⟩ := hg3.queue .B tb2 h3b tr htr
    have hNB := hg3.sent_lt .B tb2 h3b
    have hu : off (iss .B) tb2.snd.una = tb2.sent := by
      rw [hunaB2]; unfold sent; rw [hg3.iss_eq .B tb2 h3b]
    have := (keepFor_iff (iss .B) tb2.snd.una tr tb2.sent hNB (by omega) k2).1 k1
    omega
  -- the FIN reaches B behind the data
  let gF : Segment := ⟨fin, []⟩
  let tb3 : Tcb := ({ tb2 with state := .CloseWait, rcv.nxt := tb2.rcv.nxt + 1, outgoing.oneshot := tb2.outgoing.oneshot ++ [tb2.finAckHdr] } : Tcb)
  have eF : tb2.segmentArrives gF = .ok (tb3, .Ok) :=
    arrive_fin_est tb2 gF b_st wB2 b_heap cf.isfin.rst cf.isfin.syn cf.isfin.fin cf.isfin.ackb cf.isfin.text
      (by rw [cf.isfin.seq, b_rcv])
      (by
        rw [cf.isfin.ack, fA.rcv, hsyncB, b_una]
        exact modLeq_self _)
  have aB : tb1.arriveList (outA ++ [gF]) = .ok tb3 := by
    rw [arriveList_append outA [gF] tb1 tb2 eb2]
    simp only [arriveList, eF]
  -- the closer (FIN queued) takes B's pending pure ACKs
  have hfinLen : Segment.segLen ⟨fin, []⟩ = 1 := by
    unfold Segment.segLen
    rw [cf.isfin.syn, cf.isfin.fin]
    rfl
  have hfinSeq : fin.seq = ta1.snd.nxt := cf.isfin.seq
  have hfinEnd : off (iss .A) (ta1.snd.nxt + BitVec.ofNat 32 1) = ta1.sent + 1 := by
    rw [off_add _ _ _ (by rw [hsentA1]; omega), hsentA1]
  have hnxtA1' : off (iss .A) ta1'.snd.nxt = ta1.sent + 1 := by
    rw [cf.nxt, off_add_one _ _ (by rw [hsentA1]; omega), hsentA1]
  have hunaA1' : off (iss .A) ta1'.snd.una ≤ ta1.sent := by
    rw [cf.una]
    have := sqA3.1
    have := sqA3.2
    omega
  have hrcvA1' : ta1'.rcv.nxt = tb.snd.nxt := by rw [cf.rcv, fA.rcv, hsyncB]
  have hkeep1' : ∀ tr ∈ ta1'.outgoing.retransmit, keepFor ta1'.snd.una tr = true := by
    intro t0 h0
    rw [cf.una]
    rw [cf.rtx] at h0
    rcases List.mem_append.1 h0 with h0 | h0
    · exact (qA1 t0 h0).1
    · simp only [List.mem_singleton] at h0
      subst h0
      unfold keepFor
      show modLt ta1.snd.una (fin.seq + BitVec.ofNat 32 (Segment.segLen ⟨fin, []⟩)) = true
      rw [hfinLen, hfinSeq]
      refine (modLt_iff_off (iss .A) _ _ (by have := sqA3.1; have := sqA3.2; omega) (by rw [hfinEnd]; omega)).2 ?_
      rw [hfinEnd]
      have := sqA3.1
      have := sqA3.2
      omega
  have hend1' : ∀ tr ∈ ta1'.outgoing.retransmit, off (iss .A) (txEnd tr) ≤ ta1.sent + 1 := by
    intro t0 h0
    rw [cf.rtx] at h0
    rcases List.mem_append.1 h0 with h0 | h0
    · have := (qA1 t0 h0).2; omega
    · simp only [List.mem_singleton] at h0
      subst h0
      unfold txEnd
      show off (iss .A) (fin.seq + BitVec.ofNat 32 (Segment.segLen ⟨fin, []⟩)) ≤ _
      rw [hfinLen, hfinSeq, hfinEnd]
      omega
  have hallB : ∀ g ∈ outB, PureAck g ∧ g.hdr.seq = ta1'.rcv.nxt ∧ 1 ≤ off (iss .A) g.hdr.ack ∧
      off (iss .A) g.hdr.ack ≤ ta1.sent := by
    intro g hg'
    rw [houtB] at hg'
    cases hg'
  obtain ⟨ta3, aA1, lf1⟩ := ackList_fwx (iss .A) (ta1.sent + 1) hN outB ta1'
    (Or.inl cf.st) (by rw [cf.rcv, fA.rcv]; exact wA)
    (by rw [cf.inc, fA.inc]; exact hc.a.heap) cf.text
    (by rw [cf.iss]; exact issA1) hnxtA1' (by omega)
    (fun g hg' => by
      obtain ⟨a, b, c1, d⟩ := hallB g hg'
      exact ⟨a, b, c1, by omega⟩)
    hkeep1'
  -- phase 1: the data and the FIN
  have hbufA1' : ta1'.incoming.text = [] := by rw [cf.inc, fA.inc]; exact hc.a.buf
  have hbufA3 : ta3.incoming.text = [] := by rw [lf1.inc]; exact hbufA1'
  obtain ⟨c1, ph1, r01, c1a, c1b, c1sa, c1sb, c1da, _, _⟩ :=
    phase_eval c tc tb ta1' tb1 ta3 tb3 (outA ++ [gF]) outB hca hcb eA' eB aB aA1
      (fun g hg' => by
        rcases List.mem_append.1 hg' with h | h
        · exact haA g h
        · simp only [List.mem_singleton] at h
          subst h
          exact ⟨cf.src.trans lpA, cf.dst.trans rpA⟩)
      (fun g hg' => haB g hg')
  rw [receive_empty ta3 hbufA3] at c1a c1da
  let tb4 : Tcb := ({ tb3 with incoming.text := [] } : Tcb)
  have hrB3 : tb3.receive.1 = tb4 := rfl
  rw [hrB3] at c1b
  -- phase 2: B's ACKs
  have hmA1' : ¬ ta1'.mtu.toNat < SPACE_FOR_HEADERS := by
    rw [cf.mtu, fA.mtu]; have := hc.a.mtu; omega
  have hmA3 : ¬ ta3.mtu.toNat < SPACE_FOR_HEADERS := by rw [lf1.mtu]; exact hmA1'
  have hmB4 : ¬ tb4.mtu.toNat < SPACE_FOR_HEADERS := by
    show ¬ tb2.mtu.toNat < _
    rw [b_mtu]; have := hc.b.mtu; omega
  have hunfA1' : ∀ tr ∈ ta1'.outgoing.retransmit, tr.needsTransmit = false := by
    intro tr htr
    rw [cf.rtx, fA.rtx] at htr
    rcases List.mem_append.1 htr with h | h
    · obtain ⟨t0, _, rfl⟩ := List.mem_map.1 h
      rfl
    · simp only [List.mem_singleton] at h
      subst h
      rfl
  have htA3 : ta3.outgoing.text = [] := by rw [lf1.otext]; exact cf.text
  have eA2 := segments_notext_eq ta3 htA3 hmA3
  have houtA2 : emitOut ta3 = [] := by
    unfold emitOut
    rw [lf1.one, cf.one]
    have h1 : ta3.outgoing.retransmit.filter (·.needsTransmit) = [] :=
      List.filter_eq_nil_iff.2 (fun tr htr => by rw [hunfA1' tr (lf1.rtx tr htr).1]; simp)
    rw [h1]
    rfl
  rw [houtA2] at eA2
  have htB4 : tb4.outgoing.text = [] := by
    show tb2.outgoing.text = []
    rw [b_text, tbt]; simp
  have eB2 := segments_notext_eq tb4 htB4 hmB4
  have houtB2 : emitOut tb4 = (tb2.outgoing.oneshot ++ [tb2.finAckHdr]).map fun h => (⟨h, []⟩ : Segment) := by
    unfold emitOut
    show List.map _ (tb2.outgoing.oneshot ++ [tb2.finAckHdr]) ++
      List.map _ (List.filter _ tb2.outgoing.retransmit) = _
    rw [hrtxB2]
    simp
  rw [houtB2] at eB2
  -- A takes the ACKs
  have hmax1 : maxAck (iss .A) outB ≤ ta1.sent :=
    maxAck_le _ _ _ (fun g hg' => (hallB g hg').2.2.2)
  have hunaA3 : off (iss .A) (emitT ta3).snd.una ≤ ta1.sent + 1 := by
    show off (iss .A) ta3.snd.una ≤ _
    rw [lf1.una]
    omega
  have hnxtA3 : off (iss .A) (emitT ta3).snd.nxt = ta1.sent + 1 := by
    show off (iss .A) ta3.snd.nxt = _
    rw [lf1.nxt]; exact hnxtA1'
  have hrcvA : (emitT ta3).rcv.nxt = tb2.snd.nxt := by
    show ta3.rcv.nxt = _
    rw [lf1.rcv, hrcvA1', b_nxt, hnxtB1]
  have hrcvB2 : off (iss .A) tb2.rcv.nxt = ta1.sent := by rw [b_rcv, hsentA1]
  have hackF : (tb2.finAckHdr).ack = tb2.rcv.nxt + 1 := rfl
  have hoffF : off (iss .A) (tb2.finAckHdr).ack = ta1.sent + 1 := by
    rw [hackF, off_add_one _ _ (by rw [hrcvB2]; omega), hrcvB2]
  obtain ⟨ta5, aA, lf⟩ := ackList_fwx (iss .A) (ta1.sent + 1) hN
    ((tb2.outgoing.oneshot ++ [tb2.finAckHdr]).map fun h => (⟨h, []⟩ : Segment)) (emitT ta3)
    lf1.st (by show ta3.rcv.wnd = _; rw [lf1.rcv, cf.rcv, fA.rcv]; exact wA)
    (by show ta3.incoming.segments = []; rw [lf1.inc, cf.inc, fA.inc]; exact hc.a.heap) htA3
    (by show ta3.snd.iss = _; rw [lf1.iss, cf.iss]; exact issA1) hnxtA3 hunaA3
    (fun g hg' => by
      obtain ⟨h, hh, rfl⟩ := List.mem_map.1 hg'
      rcases List.mem_append.1 hh with hh | hh
      · obtain ⟨e1, e2, e3, e4, e5, e6, e7⟩ := oneB3.2 h hh
        have e7' : off (iss .A) h.ack ≤ off (iss .A) tb2.rcv.nxt := e7
        rw [hrcvB2] at e7'
        refine ⟨⟨e2, e3, e4, e5, rfl⟩, by rw [hrcvA]; exact e1, ?_, ?_⟩
        · show 1 ≤ off (iss .A) h.ack
          exact e6
        · show off (iss .A) h.ack ≤ ta1.sent + 1
          omega
      · simp only [List.mem_singleton] at hh
        subst hh
        exact ⟨⟨rfl, rfl, rfl, rfl, rfl⟩, by rw [hrcvA]; rfl, by show 1 ≤ off _ (tb2.finAckHdr).ack; omega,
          by show off _ (tb2.finAckHdr).ack ≤ _; omega⟩)
    (fun tr htr => by
      have htr' : tr ∈ ta3.outgoing.retransmit.map (fun x => ({ x with needsTransmit := false } : Transmit)) := htr
      obtain ⟨t0, h0, rfl⟩ := List.mem_map.1 htr'
      show keepFor ta3.snd.una t0 = true
      exact (lf1.rtx t0 h0).2)
  obtain ⟨c2, ph2, r12, c2a, c2b, c2sa, c2sb, c2da, _, _⟩ :=
    phase_eval c1 ta3 tb4 (emitT ta3) (emitT tb4) ta5 (emitT tb4) []
      ((tb2.outgoing.oneshot ++ [tb2.finAckHdr]).map fun h => (⟨h, []⟩ : Segment)) c1a c1b eA2 eB2 rfl aA
      (fun g hg' => by cases hg')
      (fun g hg' => by
        obtain ⟨h, hh, rfl⟩ := List.mem_map.1 hg'
        rcases List.mem_append.1 hh with hh | hh
        · have := sbB.oports h hh
          exact ⟨this.1.trans lpB, this.2.trans rpB⟩
        · simp only [List.mem_singleton] at hh
          subst hh
          exact ⟨lpB, rpB⟩)
  -- the final TCBs
  have hbufA5 : ta5.incoming.text = [] := by
    rw [lf.inc]; exact hbufA3
  rw [receive_empty ta5 hbufA5] at c2a c2da
  have hbufB5 : (emitT tb4).incoming.text = [] := rfl
  rw [receive_empty (emitT tb4) hbufB5] at c2b
  -- SND.UNA has reached SND.NXT on A's side
  have hmax : maxAck (iss .A) ((tb2.outgoing.oneshot ++ [tb2.finAckHdr]).map fun h => (⟨h, []⟩ : Segment)) = ta1.sent + 1 := by
    apply Nat.le_antisymm
    · refine maxAck_le _ _ _ (fun g hg' => ?_)
      obtain ⟨h, hh, rfl⟩ := List.mem_map.1 hg'
      rcases List.mem_append.1 hh with hh | hh
      · have e7 : off (iss .A) h.ack ≤ off (iss .A) tb2.rcv.nxt := (oneB3.2 h hh).2.2.2.2.2.2
        show off (iss .A) h.ack ≤ _
        rw [hrcvB2] at e7; omega
      · simp only [List.mem_singleton] at hh
        subst hh
        show off (iss .A) (tb2.finAckHdr).ack ≤ _
        omega
    · have hm : (⟨tb2.finAckHdr, []⟩ : Segment) ∈
          (tb2.outgoing.oneshot ++ [tb2.finAckHdr]).map fun h => (⟨h, []⟩ : Segment) :=
        List.mem_map.2 ⟨tb2.finAckHdr, List.mem_append_right _ (List.mem_singleton.2 rfl), rfl⟩
      have := maxAck_ge (iss .A) _ ⟨tb2.finAckHdr, []⟩ hm
      rw [← hoffF]
      exact this
  have hu5 : off (iss .A) ta5.snd.una = ta1.sent + 1 := by
    rw [lf.una, hmax]
    omega
  have hun5 : ta5.snd.una = ta5.snd.nxt := by
    apply off_inj (base := iss .A)
    rw [hu5, lf.nxt, hnxtA3]
  have hst5 : ta5.state = .FinWait2 := lf.done (by simp) hun5
  have hrtx5 : ta5.outgoing.retransmit = [] := by
    apply List.eq_nil_iff_forall_not_mem.2
    intro tr htr
    obtain ⟨k1, k2⟩ := lf.rtx tr htr
    have k1' : tr ∈ ta3.outgoing.retransmit.map (fun x => ({ x with needsTransmit := false } : Transmit)) := k1
    obtain ⟨t0, h0, rfl⟩ := List.mem_map.1 k1'
    have hend : txEnd ({ t0 with needsTransmit := false } : Transmit) = txEnd t0 := rfl
    have hle : off (iss .A) (txEnd t0) ≤ ta1.sent + 1 := hend1' t0 (lf1.rtx t0 h0).1
    have := (keepFor_iff (iss .A) ta5.snd.una { t0 with needsTransmit := false } (ta1.sent + 1) hN (by omega)
      (by rw [hend]; exact hle)).1 k2
    rw [hend, hu5] at this
    omega
  refine ⟨c2, ta5, emitT tb4, ?_, r01.trans r12, c2a, c2b, hst5, rfl, ?_, ?_, ?_, ?_, ?_⟩
  · simp only [phases, ph1, ph2]
  · -- A is at rest
    refine ⟨by rw [lf.inc]; show ta3.incoming.segments = []; rw [lf1.inc, cf.inc, fA.inc]; exact hc.a.heap, hbufA5,
      by rw [lf.otext]; exact htA3, hrtx5,
      by rw [lf.one]; rfl, hun5, ?_, by rw [lf.rcv]; show ta3.rcv.wnd = _; rw [lf1.rcv, cf.rcv, fA.rcv]; exact wA,
      by rw [lf.mtu]; exact hmA3,
      by rw [lf.lp]; show ta3.localPort = _; rw [lf1.lp, cf.lp]; exact lpA,
      by rw [lf.rp]; show ta3.remotePort = _; rw [lf1.rp, cf.rp]; exact rpA⟩
    show tb2.rcv.nxt + 1 = ta5.snd.nxt
    rw [lf.nxt]
    show _ = ta3.snd.nxt
    rw [lf1.nxt, b_rcv]
    exact cf.nxt.symm
  · -- B is at rest
    refine ⟨b_heap, rfl, htB4, by show tb2.outgoing.retransmit.map _ = []; rw [hrtxB2]; rfl, rfl, hunaB2, ?_, wB2, hmB4,
      lpB, rpB⟩
    show ta5.rcv.nxt = tb2.snd.nxt
    rw [lf.rcv]
    exact hrcvA
  · rw [c2sa, c1sa]; exact hcsa
  · rw [c2sb, c1sb]; exact hcsb
  · rw [c2da, c1da, hcda]; simp


/-- an idle side whose peer is synchronised with it: the peer's application has been handed everything it submitted -/
theorem idle_stream {s : Sys} (hg : Good iss s) (x : SideId) (t u : Tcb) (ht : (s.side x).tcb = some t)
    (hu : (s.side x.peer).tcb = some u) (hsync : u.rcv.nxt = t.snd.nxt) (hns : u.state ≠ .SynSent)
    (hbuf : u.incoming.text = []) (htext : t.outgoing.text = []) :
    (s.side x.peer).delivered = (s.side x).submitted := by
  have tx := hg.tinv x t ht
  have tu := hg.tinv x.peer u hu
  rw [SideId.peer_peer] at tu
  obtain ⟨pre, hsub, hnxt⟩ := tx.out
  rw [htext, List.append_nil] at hsub
  obtain ⟨hrn, hpre⟩ := tu.rcv1 hns
  rw [hbuf, List.append_nil] at hpre
  rw [hbuf] at hrn
  have hb := hg.room.side x
  have hlen := hpre.length_le
  have e : iss x + 1 + BitVec.ofNat 32 ((s.side x.peer).delivered.length + ([] : List UInt8).length)
      = iss x + 1 + BitVec.ofNat 32 pre.length := by rw [← hrn, ← hnxt]; exact hsync
  have e2 : BitVec.ofNat 32 ((s.side x.peer).delivered.length + ([] : List UInt8).length) = BitVec.ofNat 32 pre.length := by
    generalize BitVec.ofNat 32 ((s.side x.peer).delivered.length + ([] : List UInt8).length) = p at e
    generalize BitVec.ofNat 32 pre.length = q at e
    bv_omega
  have e3 := congrArg BitVec.toNat e2
  simp only [BitVec.toNat_ofNat, List.length_nil, Nat.add_zero] at e3
  have hl : pre.length = (s.side x).submitted.length := by rw [hsub]
  exact hpre.eq_of_length (by omega)

/-- `close A`, then a fair round of `2n + 2` phases (both retransmission timers expire first) -/
def closeLossFrontN (n : Nat) (s : Sys) : Except String Sys :=
  match s.step (.close .A) with
  | .error e => .error e
  | .ok (s1, _) => fairRound (2 * n + 2) s1

def closeLossRoundN (n : Nat) (s : Sys) : Except String Sys :=
  match closeLossFrontN n s with
  | .error e => .error e
  | .ok s1 => releaseTail s1

/-- **close after loss with text queued (at most `65535·n` bytes), idle peer** -/
theorem close_after_loss (n : Nat) (s : Sys) (hg : Good iss s) (ta tb : Tcb) (hc : Calm s ta tb)
    (hub : tb.snd.una = tb.snd.nxt) (tbt : tb.outgoing.text = [])
    (hne : ta.outgoing.text ≠ []) (hlen : ta.outgoing.text.length ≤ 65535 * n) :
    ∃ s1 ta1 tb1 s2, closeLossFrontN n s = .ok s1 ∧ FinRun s s1 ∧
      (s1.side .A).tcb = some ta1 ∧ (s1.side .B).tcb = some tb1 ∧
      ta1.state = .FinWait2 ∧ tb1.state = .CloseWait ∧ RestX .A ta1 tb1 ∧ RestX .B tb1 ta1 ∧
      (s1.side .A).submitted = (s.side .A).submitted ∧ (s1.side .B).submitted = (s.side .B).submitted ∧
      (s1.side .A).delivered = (s.side .A).delivered ∧
      closeLossRoundN n s = .ok s2 ∧ releaseTail s1 = .ok s2 ∧ FinRun s1 s2 ∧
      (s2.side .A).tcb = none ∧ (s2.side .B).tcb = none ∧
      (s2.side .A).submitted = (s.side .A).submitted ∧ (s2.side .B).submitted = (s.side .B).submitted ∧
      (s2.side .A).delivered = (s.side .A).delivered ∧ (s2.side .B).delivered = (s1.side .B).delivered := by
  have hsa : (s.side .A).tcb = some ta := hc.ha
  have hsb : (s.side .B).tcb = some tb := hc.hb
  -- A's application already holds everything B submitted
  have hsyncB : ta.rcv.nxt = tb.snd.nxt := by
    have sq := squeeze_facts hg .B tb ta hsb hsa hc.a.st
    apply off_inj (base := iss .B)
    have : tb.sent = off (iss .B) tb.snd.nxt := by unfold sent; rw [hg.iss_eq .B tb hsb]
    rw [hub] at sq
    omega
  have hdA0 : (s.side .A).delivered = (s.side .B).submitted :=
    idle_stream hg .B tb ta hsb hsa hsyncB (by rw [hc.a.st]; simp) hc.a.buf tbt
  -- close A
  have st0 : s.step (.close .A) = .ok (s.setSide .A { s.side .A with tcb := some (fw ta) }, .closed .Ok) := by
    simp only [Sys.step, Op.side, hsa, close_pending ta hc.a.st hne]
  generalize hc0 : s.setSide .A { s.side .A with tcb := some (fw ta) } = c0 at st0
  have tw0 : Twin c0 s ta tb := by
    rw [← hc0]
    exact ⟨rfl, hsb, rfl, rfl, rfl, rfl⟩
  -- both timers expire, in both systems
  have notw : ∀ (σ : Sys) (hσ : Good iss σ) (x : SideId) (t : Tcb), (σ.side x).tcb = some t → t.state = .Established →
      t.timeouts.timeWait = none := by
    intro σ hσ x t ht hst
    have := (hσ.conv.nr.tcb x t ht).tw
    cases h : t.timeouts.timeWait with
    | none => rfl
    | some v =>
      have := this (by rw [h]; rfl)
      rw [hst] at this; cases this
  obtain ⟨ta1, e1, _⟩ := advanceTime_expire ta (RTO + 1) (by have := hc.a.tmo; omega) (notw s hg .A ta hsa hc.a.st)
  obtain ⟨s1, r1, ta1', es1, p1, g1, h1a, h1p, fa⟩ := tick_calm s hg .A ta hsa hc.a
  have es : s.step (.tick .A (RTO + 1)) = .ok (s.setSide .A { s.side .A with tcb := some ta1 }, .tick .Ignore) := by
    simp only [Sys.step, Op.side, hsa, e1]
  rw [es] at es1
  cases es1
  rw [side_setSide_same] at h1a
  cases h1a
  have ec1 : c0.step (.tick .A (RTO + 1)) = .ok (c0.setSide .A { c0.side .A with tcb := some (fw ta1) }, .tick .Ignore) := by
    have : (fw ta).advanceTime (RTO + 1) = .ok (fw ta1, .Ignore) := by rw [advanceTime_fw, e1]
    simp only [Sys.step, Op.side, tw0.ca, this]
  generalize hc1 : c0.setSide .A { c0.side .A with tcb := some (fw ta1) } = c1 at ec1
  generalize hs1 : s.setSide .A { s.side .A with tcb := some ta1 } = s1 at p1 g1 h1p
  have h1a : (s1.side .A).tcb = some ta1 := by rw [← hs1]; rfl
  have h1b : (s1.side .B).tcb = some tb := by rw [← hs1]; exact hsb
  have tw1 : Twin c1 s1 ta1 tb := by
    rw [← hc1, ← hs1]
    exact ⟨rfl, tw0.cb, tw0.sa, tw0.sb, tw0.da, tw0.db⟩
  obtain ⟨tb1, e2, _⟩ := advanceTime_expire tb (RTO + 1) (by have := hc.b.tmo; omega) (notw s hg .B tb hsb hc.b.st)
  obtain ⟨s2, r2, tb1', es2, p2, g2, h2b, h2p, fb⟩ := tick_calm s1 g1 .B tb h1b hc.b
  have es' : s1.step (.tick .B (RTO + 1)) = .ok (s1.setSide .B { s1.side .B with tcb := some tb1 }, .tick .Ignore) := by
    simp only [Sys.step, Op.side, h1b, e2]
  rw [es'] at es2
  cases es2
  rw [side_setSide_same] at h2b
  cases h2b
  have ec2 : c1.step (.tick .B (RTO + 1)) = .ok (c1.setSide .B { c1.side .B with tcb := some tb1 }, .tick .Ignore) := by
    simp only [Sys.step, Op.side, tw1.cb, e2]
  generalize hc2 : c1.setSide .B { c1.side .B with tcb := some tb1 } = c2 at ec2
  generalize hs2 : s1.setSide .B { s1.side .B with tcb := some tb1 } = s2 at p2 g2 h2p
  have h2a : (s2.side .A).tcb = some ta1 := by rw [← hs2]; exact h1a
  have h2b : (s2.side .B).tcb = some tb1 := by rw [← hs2]; rfl
  have tw2 : Twin c2 s2 ta1 tb1 := by
    rw [← hc2, ← hs2]
    exact ⟨tw1.ca, rfl, tw1.sa, tw1.sb, tw1.da, tw1.db⟩
  have hsub2A : (s2.side .A).submitted = (s.side .A).submitted := by rw [← hs2, ← hs1]; rfl
  have hsub2B : (s2.side .B).submitted = (s.side .B).submitted := by rw [← hs2, ← hs1]; rfl
  have hdel2A : (s2.side .A).delivered = (s.side .A).delivered := by rw [← hs2, ← hs1]; rfl
  obtain ⟨ca, hfa⟩ := hc.a.of_flagged fa
  obtain ⟨cb, _⟩ := hc.b.of_flagged fb
  have hc2' : Calm s2 ta1 tb1 := ⟨h2a, h2b, ca, cb⟩
  have hub1 : tb1.snd.una = tb1.snd.nxt := by rw [fb.snd]; exact hub
  have tbt1 : tb1.outgoing.text = [] := by rw [fb.otext]; exact tbt
  have hne1 : ta1.outgoing.text ≠ [] := by rw [fa.otext]; exact hne
  have hlen1 : ta1.outgoing.text.length ≤ 65535 * n := by rw [fa.otext]; exact hlen
  have rc02 : PlainRun c0 c2 :=
    (PlainRun.step (op := .tick .A (RTO + 1)) (.refl _) trivial ec1).trans
      (.step (op := .tick .B (RTO + 1)) (.refl _) trivial ec2)
  -- the phases
  have key : ∃ c3 ta3 tb3, phases (2 * n + 2) c2 = .ok c3 ∧ PlainRun c2 c3 ∧
      (c3.side .A).tcb = some ta3 ∧ (c3.side .B).tcb = some tb3 ∧
      ta3.state = .FinWait2 ∧ tb3.state = .CloseWait ∧ RestX .A ta3 tb3 ∧ RestX .B tb3 ta3 ∧
      (c3.side .A).submitted = (s2.side .A).submitted ∧ (c3.side .B).submitted = (s2.side .B).submitted ∧
      (c3.side .A).delivered = (s2.side .A).delivered := by
    by_cases h0 : emitAmount ta1 = ta1.outgoing.text.length
    · obtain ⟨c3, ta3, tb3, p3, r3, h3a, h3b, sa3, sb3, qa3, qb3, u1, u2, u3⟩ :=
        phase_final_first s2 c2 g2 ta1 tb1 hc2' hfa hub1 tbt1 tw2 hne1 h0
      obtain ⟨c4, ta4, tb4, p4, r4, h4a, h4b, sa4, sb4, qa4, qb4, v1, v2, v3, _⟩ :=
        rest_phases (2 * n) c3 ta3 tb3 h3a h3b sa3 sb3 qa3 qb3
      refine ⟨c4, ta4, tb4, ?_, r3.trans r4, h4a, h4b, sa4, sb4, qa4, qb4, v1.trans u1, v2.trans u2, v3.trans u3⟩
      rw [show 2 * n + 2 = 2 + 2 * n by omega, phases_add, p3]
      exact p4
    · have hlt0 : emitAmount ta1 < ta1.outgoing.text.length := by
        unfold emitAmount at h0 ⊢; omega
      obtain ⟨s3, c3, ta3, tb3, _, r3, g3, hs3, hi3, txt3, pc3, rc3, tw3, x3a, x3b⟩ :=
        phase_twin_first s2 c2 g2 ta1 tb1 hc2' hfa hub1 tbt1 tw2 hlt0
      have hne3 : ta3.outgoing.text ≠ [] := by
        intro h
        have := congrArg List.length h
        rw [txt3, List.length_drop] at this
        simp only [List.length_nil] at this
        omega
      have hlen3 : ta3.outgoing.text.length ≤ 65535 * n := by
        rw [txt3, List.length_drop]; omega
      obtain ⟨k, s4, c4, ta4, tb4, hk, pk, rck, _, g4, hs4, hi4, tw4, hne4, hf4, x4a, x4b⟩ :=
        phases_twin n s3 c3 ta3 tb3 g3 hs3 hi3 tw3 hne3 hlen3
      obtain ⟨c5, ta5, tb5, p5, r5, h5a, h5b, sa5, sb5, qa5, qb5, u1, u2, u3⟩ :=
        phase_final s4 c4 g4 ta4 tb4 hs4 hi4 tw4 hne4 hf4
      obtain ⟨c6, ta6, tb6, p6, r6, h6a, h6b, sa6, sb6, qa6, qb6, v1, v2, v3, _⟩ :=
        rest_phases (2 * n + 2 - (1 + k + 2)) c5 ta5 tb5 h5a h5b sa5 sb5 qa5 qb5
      have hdel : (s4.side .A).delivered = (s2.side .A).delivered := by
        have d4 : (s4.side .A).delivered = (s4.side .B).submitted :=
          steady_stream g4 .B tb4 ta4 hs4.hb hs4.ha hs4.b hs4.a hi4.tbt
        rw [d4, x4b, x3b, hsub2B, hdel2A, hdA0]
      refine ⟨c6, ta6, tb6, ?_, ((rc3.trans rck).trans r5).trans r6, h6a, h6b, sa6, sb6, qa6, qb6,
        ((v1.trans u1).trans x4a).trans x3a, ((v2.trans u2).trans x4b).trans x3b, (v3.trans u3).trans hdel⟩
      rw [show 2 * n + 2 = 1 + (k + (2 + (2 * n + 2 - (1 + k + 2)))) by omega, phases_add]
      simp only [phases, pc3]
      rw [phases_add, pk]
      dsimp only
      rw [phases_add, p5]
      exact p6
  obtain ⟨c3, ta3, tb3, p3, r3, h3a, h3b, sa3, sb3, qa3, qb3, u1, u2, u3⟩ := key
  obtain ⟨sF, eF, rF, na, nb, w1, w2, w3, w4, _⟩ := release_tail c3 ta3 tb3 h3a h3b sa3 sb3 qa3 qb3
  have hfront : closeLossFrontN n s = .ok c3 := by
    unfold closeLossFrontN
    rw [st0]
    dsimp only
    unfold fairRound
    rw [ec1]
    dsimp only
    rw [ec2]
    exact p3
  refine ⟨c3, ta3, tb3, sF, hfront, ?_, h3a, h3b, sa3, sb3, qa3, qb3, u1.trans hsub2A, u2.trans hsub2B,
    u3.trans hdel2A, ?_, eF, rF, na, nb, (w1.trans u1).trans hsub2A, (w2.trans u2).trans hsub2B,
    (w3.trans u3).trans hdel2A, w4⟩
  · exact (FinRun.step (op := .close .A) (.refl _) trivial st0).trans (FinRun.of_plain (rc02.trans r3))
  · unfold closeLossRoundN
    rw [hfront]
    exact eF

/-- **close after loss with NO text queued** (the FIN is numbered by `close()` itself, behind unacknowledged data), idle
    peer: `close A`, a fair round of `2n + 2` phases (two suffice; the others change nothing) -/
theorem close_inflight_after_loss (n : Nat) (s : Sys) (hg : Good iss s) (ta tb : Tcb) (hc : Calm s ta tb)
    (hub : tb.snd.una = tb.snd.nxt) (tbt : tb.outgoing.text = []) (hnt : ta.outgoing.text = []) :
    ∃ s1 ta1 tb1 s2, closeLossFrontN n s = .ok s1 ∧ FinRun s s1 ∧
      (s1.side .A).tcb = some ta1 ∧ (s1.side .B).tcb = some tb1 ∧
      ta1.state = .FinWait2 ∧ tb1.state = .CloseWait ∧ RestX .A ta1 tb1 ∧ RestX .B tb1 ta1 ∧
      (s1.side .A).submitted = (s.side .A).submitted ∧ (s1.side .B).submitted = (s.side .B).submitted ∧
      (s1.side .A).delivered = (s.side .A).delivered ∧
      closeLossRoundN n s = .ok s2 ∧ releaseTail s1 = .ok s2 ∧ FinRun s1 s2 ∧
      (s2.side .A).tcb = none ∧ (s2.side .B).tcb = none ∧
      (s2.side .A).submitted = (s.side .A).submitted ∧ (s2.side .B).submitted = (s.side .B).submitted ∧
      (s2.side .A).delivered = (s.side .A).delivered ∧ (s2.side .B).delivered = (s1.side .B).delivered := by
  have hsa : (s.side .A).tcb = some ta := hc.ha
  have hsb : (s.side .B).tcb = some tb := hc.hb
  -- close A: the FIN is numbered at once
  have st0 : s.step (.close .A) = .ok (s.setSide .A { s.side .A with tcb := some (closedT ta) }, .closed .Ok) := by
    have : ta.close = .ok (closedT ta, .Ok) := close_fwd ta hc.a.st hnt
    simp only [Sys.step, Op.side, hsa, this]
  generalize hc0 : s.setSide .A { s.side .A with tcb := some (closedT ta) } = c0 at st0
  have c0a : (c0.side .A).tcb = some (closedT ta) := by rw [← hc0]; rfl
  have c0b : (c0.side .B).tcb = some tb := by rw [← hc0]; exact hsb
  have c0sa : (c0.side .A).submitted = (s.side .A).submitted := by rw [← hc0]; rfl
  have c0sb : (c0.side .B).submitted = (s.side .B).submitted := by rw [← hc0]; rfl
  have c0da : (c0.side .A).delivered = (s.side .A).delivered := by rw [← hc0]; rfl
  have notw : ∀ (σ : Sys) (hσ : Good iss σ) (x : SideId) (t : Tcb), (σ.side x).tcb = some t → t.state = .Established →
      t.timeouts.timeWait = none := by
    intro σ hσ x t ht hst
    have := (hσ.conv.nr.tcb x t ht).tw
    cases h : t.timeouts.timeWait with
    | none => rfl
    | some v =>
      have := this (by rw [h]; rfl)
      rw [hst] at this; cases this
  obtain ⟨ta1, e1, _, e1', _, _⟩ := advanceTime_closedT ta (RTO + 1) (by have := hc.a.tmo; omega) (notw s hg .A ta hsa hc.a.st)
  obtain ⟨s1, r1, ta1', es1, p1, g1, h1a, h1p, fa⟩ := tick_calm s hg .A ta hsa hc.a
  have es : s.step (.tick .A (RTO + 1)) = .ok (s.setSide .A { s.side .A with tcb := some ta1 }, .tick .Ignore) := by
    simp only [Sys.step, Op.side, hsa, e1]
  rw [es] at es1
  cases es1
  rw [side_setSide_same] at h1a
  cases h1a
  have ec1 : c0.step (.tick .A (RTO + 1)) = .ok (c0.setSide .A { c0.side .A with tcb := some (closedT ta1) }, .tick .Ignore) := by
    simp only [Sys.step, Op.side, c0a, e1']
  generalize hc1 : c0.setSide .A { c0.side .A with tcb := some (closedT ta1) } = c1 at ec1
  generalize hs1 : s.setSide .A { s.side .A with tcb := some ta1 } = s1 at p1 g1 h1p
  have h1a : (s1.side .A).tcb = some ta1 := by rw [← hs1]; rfl
  have h1b : (s1.side .B).tcb = some tb := by rw [← hs1]; exact hsb
  have c1b : (c1.side .B).tcb = some tb := by rw [← hc1]; exact c0b
  obtain ⟨tb1, e2, _⟩ := advanceTime_expire tb (RTO + 1) (by have := hc.b.tmo; omega) (notw s hg .B tb hsb hc.b.st)
  obtain ⟨s2, r2, tb1', es2, p2, g2, h2b, h2p, fb⟩ := tick_calm s1 g1 .B tb h1b hc.b
  have es' : s1.step (.tick .B (RTO + 1)) = .ok (s1.setSide .B { s1.side .B with tcb := some tb1 }, .tick .Ignore) := by
    simp only [Sys.step, Op.side, h1b, e2]
  rw [es'] at es2
  cases es2
  rw [side_setSide_same] at h2b
  cases h2b
  have ec2 : c1.step (.tick .B (RTO + 1)) = .ok (c1.setSide .B { c1.side .B with tcb := some tb1 }, .tick .Ignore) := by
    simp only [Sys.step, Op.side, c1b, e2]
  generalize hc2 : c1.setSide .B { c1.side .B with tcb := some tb1 } = c2 at ec2
  generalize hs2 : s1.setSide .B { s1.side .B with tcb := some tb1 } = s2 at p2 g2 h2p
  have h2a : (s2.side .A).tcb = some ta1 := by rw [← hs2]; exact h1a
  have h2b : (s2.side .B).tcb = some tb1 := by rw [← hs2]; rfl
  have c2a : (c2.side .A).tcb = some (closedT ta1) := by rw [← hc2, ← hc1]; rfl
  have c2b : (c2.side .B).tcb = some tb1 := by rw [← hc2]; rfl
  have hsub2A : (s2.side .A).submitted = (s.side .A).submitted := by rw [← hs2, ← hs1]; rfl
  have hsub2B : (s2.side .B).submitted = (s.side .B).submitted := by rw [← hs2, ← hs1]; rfl
  have hdel2A : (s2.side .A).delivered = (s.side .A).delivered := by rw [← hs2, ← hs1]; rfl
  have c2sa : (c2.side .A).submitted = (s2.side .A).submitted := by rw [hsub2A, ← hc2, ← hc1]; exact c0sa
  have c2sb : (c2.side .B).submitted = (s2.side .B).submitted := by rw [hsub2B, ← hc2, ← hc1]; exact c0sb
  have c2da : (c2.side .A).delivered = (s2.side .A).delivered := by rw [hdel2A, ← hc2, ← hc1]; exact c0da
  obtain ⟨ca, hfa⟩ := hc.a.of_flagged fa
  obtain ⟨cb, _⟩ := hc.b.of_flagged fb
  have hc2' : Calm s2 ta1 tb1 := ⟨h2a, h2b, ca, cb⟩
  have hub1 : tb1.snd.una = tb1.snd.nxt := by rw [fb.snd]; exact hub
  have tbt1 : tb1.outgoing.text = [] := by rw [fb.otext]; exact tbt
  have hnt1 : ta1.outgoing.text = [] := by rw [fa.otext]; exact hnt
  have rc02 : PlainRun c0 c2 :=
    (PlainRun.step (op := .tick .A (RTO + 1)) (.refl _) trivial ec1).trans
      (.step (op := .tick .B (RTO + 1)) (.refl _) trivial ec2)
  -- the twin and the closer emit
  have hm1 : ¬ ta1.mtu.toNat < SPACE_FOR_HEADERS := by have := ca.mtu; omega
  obtain ⟨eP, eC, cf⟩ := segments_closedT ta1 hnt1 hm1
  obtain ⟨newA, ta2, outA, eA, fA⟩ := segments_fwd ta1 (by rw [ca.st]; trivial) ca.mtu
  rw [eP] at eA
  cases eA
  obtain ⟨c3, ta3, tb3, p3, r3, h3a, h3b, sa3, sb3, qa3, qb3, u1, u2, u3⟩ :=
    final_core_first s2 c2 g2 ta1 tb1 hc2' hfa hub1 tbt1 (closedT ta1) c2a c2b c2sa c2sb c2da newA (emitT ta1) (emitOut ta1)
      (emitT (closedT ta1)) (finSeg ta1).hdr eP fA eC cf
  obtain ⟨c4, ta4, tb4, p4, r4, h4a, h4b, sa4, sb4, qa4, qb4, v1, v2, v3, _⟩ :=
    rest_phases (2 * n) c3 ta3 tb3 h3a h3b sa3 sb3 qa3 qb3
  obtain ⟨sF, eF, rF, na, nb, w1, w2, w3, w4, _⟩ := release_tail c4 ta4 tb4 h4a h4b sa4 sb4 qa4 qb4
  have hfront : closeLossFrontN n s = .ok c4 := by
    unfold closeLossFrontN
    rw [st0]
    dsimp only
    unfold fairRound
    rw [ec1]
    dsimp only
    rw [ec2]
    show phases (2 * n + 2) c2 = _
    rw [show 2 * n + 2 = 2 + 2 * n by omega, phases_add, p3]
    exact p4
  refine ⟨c4, ta4, tb4, sF, hfront, ?_, h4a, h4b, sa4, sb4, qa4, qb4, (v1.trans u1).trans hsub2A, (v2.trans u2).trans hsub2B,
    (v3.trans u3).trans hdel2A, ?_, eF, rF, na, nb, ((w1.trans v1).trans u1).trans hsub2A,
    ((w2.trans v2).trans u2).trans hsub2B, ((w3.trans v3).trans u3).trans hdel2A, w4⟩
  · exact (FinRun.step (op := .close .A) (.refl _) trivial st0).trans (FinRun.of_plain ((rc02.trans r3).trans r4))
  · unfold closeLossRoundN
    rw [hfront]
    exact eF

end
end Elvis.Tcp
