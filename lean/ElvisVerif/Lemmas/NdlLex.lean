import ElvisVerif.Lemmas.NdlTotal
/-!
# NDL line lexer: what it returns on a rendered line

Character classes of the grammar (`KeyOk`, `valOk`) and the lemmas that walk `general_parser`
through `renderLine dt ps ++ newlines ++ rest`.
-/
namespace Elvis.Ndl
open Elvis.Gen.Ndl

/-- a key the grammar can carry: no `=`, no `]`, and it does not begin with a separator
    (a character whose low byte is space, tab or newline).  It may be empty. -/
def KeyOk (k : Text) : Prop :=
  (∀ c ∈ k, c ≠ '=' ∧ c ≠ ']') ∧ (∀ c r, k = c :: r → isSep c = false)

/-- a value the grammar can carry: no `]`; a quote only as the two characters `\'`; no other
    backslash.  It may be empty and may contain `=`, `[`, spaces, tabs, newlines, non-ASCII. -/
def valOk : Text → Bool
  | [] => true
  | c :: r =>
    if c = '\\' then
      match r with
      | q :: r' => q = '\'' && valOk r'
      | [] => false
    else c ≠ '\'' && c ≠ ']' && valOk r

/-- the arguments of one line: keys and values in the grammar's classes, keys pairwise distinct -/
def LineOk (ps : Params) : Prop :=
  (∀ kv ∈ ps, KeyOk kv.1 ∧ valOk kv.2 = true) ∧ (ps.map (·.1)).Nodup

theorem takeUntil_append (c : Char) : ∀ (x r : Text), (∀ d ∈ x, d ≠ c) →
    takeUntil c (x ++ c :: r) = some (x, c :: r)
  | [], r, _ => by simp [takeUntil]
  | d :: x, r, h => by
    have hd : d ≠ c := h d List.mem_cons_self
    have ih := takeUntil_append c x r (fun e he => h e (List.mem_cons_of_mem _ he))
    simp [takeUntil, hd, ih]

theorem valOk_no_bracket : ∀ v : Text, valOk v = true → ∀ c ∈ v, c ≠ ']'
  | [], _, c, hc => by simp at hc
  | [x], h, c, hc => by
    unfold valOk at h
    split at h
    · simp at h
    · simp at h hc; subst hc; exact h.1.2
  | x :: y :: r, h, c, hc => by
    unfold valOk at h
    split at h
    · rename_i hx
      simp at h
      simp at hc
      rcases hc with rfl | rfl | hc
      · rw [hx]; decide
      · rw [h.1]; decide
      · exact valOk_no_bracket r h.2 c hc
    · simp at h
      simp at hc
      rcases hc with rfl | hc
      · exact h.1.2
      · exact valOk_no_bracket (y :: r) h.2 c (by simpa using hc)

theorem escBody_quote (rest : Text) : escBody ('\'' :: rest) = some ([], '\'' :: rest) := by
  unfold escBody
  have h1 : ('\'' : Char) ≠ '\\' := by decide
  simp [h1]

theorem escBody_val : ∀ (v rest : Text), valOk v = true →
    escBody (v ++ '\'' :: rest) = some (v, '\'' :: rest)
  | [], rest, _ => by simp [escBody_quote]
  | [x], rest, h => by
    unfold valOk at h
    split at h
    · simp at h
    · rename_i hx
      simp at h
      simp [escBody, hx, h.1.1, escBody_quote]
  | x :: y :: r, rest, h => by
    unfold valOk at h
    split at h
    · rename_i hx
      simp at h
      have ih := escBody_val r rest h.2
      simp [escBody, hx, h.1, ih]
    · rename_i hx
      simp at h
      have ih := escBody_val (y :: r) rest h.2
      simp only [List.cons_append] at ih ⊢
      rw [escBody]
      simp [hx, h.1.1, ih]

theorem dropWhile_head (p : Char → Bool) (c : Char) (r : Text) (h : p c = false) :
    (c :: r).dropWhile p = c :: r := by simp [List.dropWhile, h]

theorem isSep_eq : isSep '=' = false := by decide
theorem isSep_space : isSep ' ' = true := by decide

/-- one rendered argument is read back as written -/
theorem argument_render (k v rest : Text) (hk : KeyOk k) (hv : valOk v = true) :
    argument (' ' :: (k ++ '=' :: '\'' :: (v ++ '\'' :: rest))) = some ((k, v), rest) := by
  have h1 : skipSeps1 (' ' :: (k ++ '=' :: '\'' :: (v ++ '\'' :: rest))) =
      some (k ++ '=' :: '\'' :: (v ++ '\'' :: rest)) := by
    simp only [skipSeps1, isSep_space, if_true]
    cases k with
    | nil => simp [isSep_eq]
    | cons c r => simp [hk.2 c r rfl]
  have h2 := takeUntil_append '=' k ('\'' :: (v ++ '\'' :: rest)) (fun d hd => (hk.1 d hd).1)
  have h3 : valueBody (v ++ '\'' :: rest) = (v, '\'' :: rest) := by
    simp [valueBody, escBody_val v rest hv]
  simp [argument, h1, h2, h3]

theorem renderArgs_cons (k v : Text) (ps : Params) :
    renderArgs ((k, v) :: ps) = ' ' :: (k ++ '=' :: '\'' :: (v ++ '\'' :: renderArgs ps)) := by
  simp [renderArgs]

theorem arguments_render : ∀ (ps : Params) (fuel : Nat),
    (∀ kv ∈ ps, KeyOk kv.1 ∧ valOk kv.2 = true) → (renderArgs ps).length ≤ fuel →
    argumentsFuel fuel (renderArgs ps) = ([], ps)
  | [], fuel, _, _ => by
    cases fuel <;> simp [argumentsFuel, renderArgs, argument, skipSeps1]
  | (k, v) :: ps, fuel, h, hf => by
    rw [renderArgs_cons] at hf ⊢
    cases fuel with
    | zero => simp at hf
    | succ f =>
      have hkv := h (k, v) List.mem_cons_self
      have ih := arguments_render ps f (fun kv hkv => h kv (List.mem_cons_of_mem _ hkv))
        (by simp at hf; omega)
      simp [argumentsFuel, argument_render k v (renderArgs ps) hkv.1 hkv.2, ih]

theorem insertAll_nodup : ∀ (ps acc : Params),
    (ps.map (·.1)).Nodup → (∀ kv ∈ ps, acc.has kv.1 = false) → insertAll ps acc = some (acc ++ ps)
  | [], acc, _, _ => by simp [insertAll]
  | (k, v) :: ps, acc, hn, hd => by
    simp only [List.map_cons, List.nodup_cons] at hn
    have hk : acc.has k = false := hd (k, v) List.mem_cons_self
    simp only [insertAll, hk]
    have := insertAll_nodup ps (acc ++ [(k, v)]) hn.2 (by
      intro kv hkv
      have h1 := hd kv (List.mem_cons_of_mem _ hkv)
      simp only [Params.has, List.any_append, List.any_cons, List.any_nil, Bool.or_false] at h1 ⊢
      rw [Bool.or_eq_false_iff]
      refine ⟨h1, ?_⟩
      simp only [beq_eq_false_iff_ne, ne_eq]
      intro he
      exact hn.1 (by rw [he]; exact List.mem_map_of_mem hkv))
    simp [this]

/-! ### the type tag -/

/-- some character of the common prefix differs (ASCII case ignored) -/
def differs : Text → Text → Bool
  | k :: ks, c :: cs => c.toLower ≠ k.toLower || differs ks cs
  | _, _ => false

theorem keyword_append : ∀ (t x r y : Text), keyword t x = some r → keyword t (x ++ y) = some (r ++ y)
  | [], x, r, y, h => by simp [keyword] at h ⊢; rw [h]
  | _ :: _, [], r, y, h => by simp [keyword] at h
  | k :: ks, c :: cs, r, y, h => by
    simp only [keyword, List.cons_append] at h ⊢
    split at h
    · rename_i hc; simp only [hc, if_true]; exact keyword_append ks cs r y h
    · simp at h

theorem keyword_differs : ∀ (t x y : Text), differs t x = true → keyword t (x ++ y) = none
  | [], x, y, h => by simp [differs] at h
  | _ :: _, [], y, h => by simp [differs] at h
  | k :: ks, c :: cs, y, h => by
    simp only [differs, Bool.or_eq_true, decide_eq_true_eq] at h
    simp only [keyword, List.cons_append]
    split
    · rename_i hc
      rcases h with h | h
      · exact absurd hc h
      · exact keyword_differs ks cs y h
    · rfl

/-- which alternative `get_type` settles on, decided inside the prefix `x` of the input -/
def selects (table : List (Text × Text)) : List Text → Text → Option (Text × DecType)
  | [], _ => none
  | t :: ts, x =>
    if differs t x then selects table ts x
    else
      match keyword t x with
      | some r =>
        match decTypeFromWith table t with
        | .ok d => some (r, d)
        | .error _ => none
      | none => none

theorem selects_sound (table : List (Text × Text)) : ∀ (ts : List Text) (x r : Text) (d : DecType),
    selects table ts x = some (r, d) → ∀ (y : Text) (line : Nat),
    getTypeWith "keyword" table ts (x ++ y) line = .ok (r ++ y, d)
  | [], x, r, d, h, y, line => by simp [selects] at h
  | t :: ts, x, r, d, h, y, line => by
    unfold selects at h
    unfold getTypeWith matchTag
    simp only [if_true]
    split at h
    · rename_i hd
      rw [keyword_differs t x y hd]
      exact selects_sound table ts x r d h y line
    · split at h
      · rename_i r' hk
        rw [keyword_append t x r' y hk]
        split at h
        · rename_i d' hd
          simp at h
          obtain ⟨rfl, rfl⟩ := h
          simp [hd]
        · simp at h
      · simp at h

theorem selects_name_space (dt : DecType) :
    selects decTypeTable tagAlt (dt.name ++ [' ']) = some ([' '], dt) := by
  cases dt <;> decide

theorem getType_name_nil (dt : DecType) (line : Nat) : getType dt.name line = .ok ([], dt) := by
  cases dt <;> rfl

/-- the rendered tag followed by nothing or by a space is read back as that type -/
theorem getType_render (dt : DecType) (ps : Params) (line : Nat) :
    getType (dt.name ++ renderArgs ps) line = .ok (renderArgs ps, dt) := by
  cases ps with
  | nil => simp [renderArgs, getType_name_nil]
  | cons kv ps =>
    obtain ⟨k, v⟩ := kv
    rw [renderArgs_cons]
    have := selects_sound decTypeTable tagAlt (dt.name ++ [' ']) [' '] dt (selects_name_space dt)
      (k ++ '=' :: '\'' :: (v ++ '\'' :: renderArgs ps)) line
    unfold getType
    rw [tagMatcher_keyword]
    simpa using this

theorem name_no_bracket (dt : DecType) : ∀ c ∈ dt.name, c ≠ ']' := by
  cases dt <;> decide

theorem renderArgs_no_bracket : ∀ (ps : Params), (∀ kv ∈ ps, KeyOk kv.1 ∧ valOk kv.2 = true) →
    ∀ c ∈ renderArgs ps, c ≠ ']'
  | [], _, c, hc => by simp [renderArgs] at hc
  | (k, v) :: ps, h, c, hc => by
    rw [renderArgs_cons] at hc
    have hkv := h (k, v) List.mem_cons_self
    simp only [List.mem_cons, List.mem_append] at hc
    rcases hc with rfl | hc | rfl | rfl | hc | rfl | hc
    · decide
    · exact ((hkv.1).1 c hc).2
    · decide
    · decide
    · exact valOk_no_bracket v hkv.2 c hc
    · decide
    · exact renderArgs_no_bracket ps (fun kv hkv => h kv (List.mem_cons_of_mem _ hkv)) c hc

theorem sectionP_render (dt : DecType) (ps : Params) (after : Text)
    (h : ∀ kv ∈ ps, KeyOk kv.1 ∧ valOk kv.2 = true) :
    sectionP (renderLine dt ps ++ after) = some (dt.name ++ renderArgs ps, after) := by
  have hnb : ∀ d ∈ dt.name ++ renderArgs ps, d ≠ ']' := by
    intro d hd
    rcases List.mem_append.1 hd with hd | hd
    · exact name_no_bracket dt d hd
    · exact renderArgs_no_bracket ps h d hd
  have := takeUntil_append ']' (dt.name ++ renderArgs ps) after hnb
  simp only [renderLine, List.cons_append, List.append_assoc, sectionP] at this ⊢
  simp [this]

theorem countNl_replicate (n : Nat) (rest : Text) (h : ∀ r, rest ≠ '\n' :: r) :
    countNl (List.replicate n '\n' ++ rest) = n := by
  induction n with
  | zero =>
    cases rest with
    | nil => simp [countNl]
    | cons c r =>
      have : c ≠ '\n' := fun hc => h r (by rw [hc])
      simp [countNl, this]
  | succ n ih => simp [List.replicate_succ, countNl] at ih ⊢; exact ih

/-- `general_parser` on a rendered line followed by `n` newlines and a text that does not begin
    with a newline -/
theorem generalParser_render (dt : DecType) (ps : Params) (hps : LineOk ps) (n : Nat) (rest : Text)
    (hrest : ∀ r, rest ≠ '\n' :: r) (line : Nat) (hb : line + n ≤ i32Max) :
    generalParser (renderLine dt ps ++ (List.replicate n '\n' ++ rest)) line =
      .ok ⟨dt, ps, rest, line + n⟩ := by
  unfold generalParser
  rw [sectionP_render dt ps _ hps.1]
  simp only [getType_render]
  have ha : arguments (renderArgs ps) = ([], ps) := arguments_render ps _ hps.1 (Nat.le_refl _)
  have hi : insertAll ps [] = some ps := by
    have := insertAll_nodup ps [] hps.2 (by intro kv _; simp [Params.has])
    simpa using this
  have hc := countNl_replicate n rest hrest
  have hd : byteDrop n (List.replicate n '\n' ++ rest) = some rest := by
    have := byteDrop_nl (List.replicate n '\n' ++ rest)
    rw [hc] at this
    simpa using this
  have hno : ¬ (line + n > i32Max) := by omega
  simp [ha, hi, hc, hd, hno]

end Elvis.Ndl
