import ElvisVerif.Lemmas.TcpHeapInv
/-!
# C01 — the reorder heap pops the least sequence number first (a building block of convergence after
reordering)

`segment_arrives` parks acceptable segments in a `BinaryHeap` ordered by `Segment::cmp`, which compares sequence
numbers circularly and is a total preorder only on a window of 2^31 numbers; the processing loop takes the root
while it is not ahead of `RCV.NXT`.  That the root is the parked segment with the least sequence number — so
that the loop stops only when EVERY parked segment is ahead — is what convergence from states with a
non-empty reorder heap needs (`C01ConvergesFullStatement` in `Props/C01Converge.lean`).
-/
namespace Elvis.Tcp
open Elvis.ModCmp Elvis.Tcp.Tcb

/-- **The reorder heap is a heap, and at rest everything parked is ahead of `RCV.NXT`.**  For a TCB that
    satisfies C01's stream invariant (`C01.TInv`; peer's ISS `issY`, fewer than 2^31 − 1 bytes submitted by the
    peer), whose reorder heap satisfies the binary-heap invariant for the order "smaller offset from `issY`
    first" with every parked segment within 2^31 of `issY` (`HeapOk`), and in which (in ESTABLISHED) every parked
    segment is ahead of `RCV.NXT` (`Ahead`): after `segment_arrives` with ANY valid in-window segment of the peer
    both hold again.  Proof: `Lemmas/LHeapOrd.lean` (the list model of `std::BinaryHeap` used by the TCB model
    refines the array model of `Base/Heap.lean` under any comparison that agrees with `le` on the elements
    present, which transports `Lemmas/Heap.lean`'s heap invariant and "the root is a maximum") and
    `Lemmas/TcpHeapInv.lean`. -/
theorem c01_reorder_heap_partial {port : U16} {issX issY : Seq} {subX subY delX : List UInt8}
    {t t' : Tcb} {g : Segment} {r : SegmentArrivesResult}
    (h : C01.TInv port issX issY subX subY delX t) (hv : C01.Valid issY subY g) (h31 : subY.length + 1 < 2147483648)
    (hw : off issY g.hdr.seq < 2147483648) (hk : HeapOk issY t) (ha : Ahead issY t)
    (e : t.segmentArrives g = .ok (t', r)) :
    HeapOk issY t' ∧ (r = .Ok → t'.state = .Established →
      ∀ σ ∈ t'.incoming.segments, off issY t'.rcv.nxt < off issY σ.hdr.seq) := by
  obtain ⟨a, b⟩ := segmentArrives_heapOk h hv h31 hw hk ha e
  exact ⟨a, fun hr => b hr⟩

/-- the root of a reorder heap satisfying `HeapOk` has the least offset -/
theorem c01_reorder_heap_root_least (base : Seq) (t : Tcb) (top : Segment) (hk : HeapOk base t)
    (hp : LHeap.peek t.incoming.segments = some top) :
    ∀ σ ∈ t.incoming.segments, off base top.hdr.seq ≤ off base σ.hdr.seq := by
  intro σ hσ
  have := LHeap.peek_max (leK_tp base) _ top hp hk.heap σ hσ
  unfold leK at this
  simpa using this

/-- non-vacuity: the empty heap and every one-element heap are heaps -/
example (base : Seq) (t : Tcb) (h : t.incoming.segments = []) : HeapOk base t :=
  ⟨(by rw [h]; intro g hg; cases hg), (by rw [h]; exact LHeap.isHeap_nil _)⟩

end Elvis.Tcp
