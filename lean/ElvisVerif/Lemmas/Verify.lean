import ElvisVerif.Lemmas.Ipv4
import ElvisVerif.Lemmas.Udp
import ElvisVerif.Lemmas.Tcp
import ElvisVerif.Lemmas.Flip
/-!
Helper lemmas for C18: for each decoder, the checksum test it performs (`Checksum::matches` on
its accumulator, feature on) is equivalent to RFC 1071 verification of the covered words.
-/
namespace Elvis.Ck
open Elvis.Codec Elvis.Rfc1071

/-- RFC 1071 verification in terms of the plain word sum -/
theorem verifies_iff_sum (ws : List Nat) : verifies ws ↔ (ws.sum % 65535 = 0 ∧ ws.sum ≠ 0) := by
  unfold verifies onesSum onesSumOfTotal
  split
  · omega
  · split <;> omega

/-- the decoder's test against a tracked accumulator, when the covered data is not all zero -/
theorem matches_iff_of_tracks {acc s e : Nat} (t : Tracks acc s) (he : e < 65536) (hs : s ≠ 0) :
    matchesField true acc e = true ↔ ((s + e) % 65535 = 0 ∧ s + e ≠ 0) := by
  rw [matchesField_iff t he]
  constructor
  · intro ⟨h1, _⟩; exact ⟨h1, by omega⟩
  · intro ⟨h1, _⟩; exact ⟨h1, fun h => absurd h hs⟩

theorem W4_halves (a b c d : UInt8) :
    W4 a b c d / 65536 % 65536 + W4 a b c d % 65536 = W a b + W c d := by
  have := a.toNat_lt; have := b.toNat_lt; have := c.toNat_lt; have := d.toNat_lt
  simp only [W, W4]; omega

theorem pseudoHeader_sum (src dst proto len : Nat) :
    (pseudoHeader src dst proto len).sum = src / 65536 + src % 65536 + (dst / 65536 + dst % 65536) + proto + len := by
  simp [pseudoHeader]; omega

end Elvis.Ck

namespace Elvis.Codec.Ipv4
open Elvis.Ck Elvis.Codec Elvis.Rfc1071

/-- plain sum of the nine checksummed words of a header -/
def coveredSum (b0 b1 b2 b3 b4 b5 b6 b7 b8 b9 b12 b13 b14 b15 b16 b17 b18 b19 : UInt8) : Nat :=
  W b0 b1 + W b2 b3 + W b4 b5 + W b6 b7 + W b8 b9 + W b12 b13 + W b14 b15 + W b16 b17 + W b18 b19

theorem accBytes_tracks (b0 b1 b2 b3 b4 b5 b6 b7 b8 b9 b12 b13 b14 b15 b16 b17 b18 b19 : UInt8) :
    Tracks (accBytes true b0 b1 b2 b3 b4 b5 b6 b7 b8 b9 b12 b13 b14 b15 b16 b17 b18 b19)
      (coveredSum b0 b1 b2 b3 b4 b5 b6 b7 b8 b9 b12 b13 b14 b15 b16 b17 b18 b19) := by
  unfold accBytes coveredSum
  have t := (((Tracks.zero.addU8 b0.toNat_lt b1.toNat_lt).add16 (W_lt b2 b3)).add16 (W_lt b4 b5)).add16 (W_lt b6 b7)
  have t := ((t.addU8 b8.toNat_lt b9.toNat_lt).addWord32 (v := W4 b12 b13 b14 b15)).addWord32
    (v := W4 b16 b17 b18 b19)
  refine t.congr ?_
  have := b12.toNat_lt; have := b13.toNat_lt; have := b14.toNat_lt; have := b15.toNat_lt
  have := b16.toNat_lt; have := b17.toNat_lt; have := b18.toNat_lt; have := b19.toNat_lt
  simp only [W, W4]; omega

/-- the decoder's checksum test on a version-4 header is RFC 1071 verification of its 20 bytes -/
theorem matches_iff_verifies
    (b0 b1 b2 b3 b4 b5 b6 b7 b8 b9 b10 b11 b12 b13 b14 b15 b16 b17 b18 b19 : UInt8)
    (h0 : b0.toNat / 16 = 4) :
    matchesField true (accBytes true b0 b1 b2 b3 b4 b5 b6 b7 b8 b9 b12 b13 b14 b15 b16 b17 b18 b19)
      (W b10 b11) = true ↔
    verifies (wordsOf [b0, b1, b2, b3, b4, b5, b6, b7, b8, b9, b10, b11, b12, b13, b14, b15, b16,
      b17, b18, b19]) := by
  have t := accBytes_tracks b0 b1 b2 b3 b4 b5 b6 b7 b8 b9 b12 b13 b14 b15 b16 b17 b18 b19
  have hs : coveredSum b0 b1 b2 b3 b4 b5 b6 b7 b8 b9 b12 b13 b14 b15 b16 b17 b18 b19 ≠ 0 := by
    simp only [coveredSum, W]; omega
  rw [matches_iff_of_tracks t (W_lt b10 b11) hs, verifies_iff_sum]
  have e : (wordsOf [b0, b1, b2, b3, b4, b5, b6, b7, b8, b9, b10, b11, b12, b13, b14, b15, b16,
      b17, b18, b19]).sum =
      coveredSum b0 b1 b2 b3 b4 b5 b6 b7 b8 b9 b12 b13 b14 b15 b16 b17 b18 b19 + W b10 b11 := by
    simp only [wordsOf, List.sum_cons, List.sum_nil, coveredSum, W]; omega
  rw [e]

end Elvis.Codec.Ipv4

namespace Elvis.Codec.Udp
open Elvis.Ck Elvis.Codec Elvis.Rfc1071

/-- the decoder's checksum test is RFC 1071 verification of pseudo header + datagram -/
theorem matches_iff_verifies (b0 b1 b2 b3 b4 b5 b6 b7 : UInt8) (rest : List UInt8) (src dst : Nat)
    (hs : src < 4294967296) (hd : dst < 4294967296) :
    matchesField true (accDec true (W b0 b1) (W b2 b3) (W b4 b5) src dst rest) (W b6 b7) = true ↔
    verifies (pseudoHeader src dst 17 (W b4 b5) ++
      wordsOf (b0 :: b1 :: b2 :: b3 :: b4 :: b5 :: b6 :: b7 :: rest)) := by
  have t := accDec_tracks src dst rest (W_lt b0 b1) (W_lt b2 b3) (W_lt b4 b5)
  have hne : coveredSum src (W b0 b1) dst (W b2 b3) (W b4 b5) rest ≠ 0 := by
    unfold coveredSum; omega
  rw [matches_iff_of_tracks t (W_lt b6 b7) hne, verifies_iff_sum, List.sum_append, pseudoHeader_sum]
  have e : (wordsOf (b0 :: b1 :: b2 :: b3 :: b4 :: b5 :: b6 :: b7 :: rest)).sum =
      W b0 b1 + W b2 b3 + W b4 b5 + W b6 b7 + (wordsOf rest).sum := by
    simp only [wordsOf, List.sum_cons, W]; omega
  rw [e]
  unfold coveredSum
  have e1 : src / 65536 % 65536 = src / 65536 := by omega
  have e2 : dst / 65536 % 65536 = dst / 65536 := by omega
  rw [e1, e2]
  constructor <;> (intro ⟨h1, h2⟩; constructor <;> omega)

end Elvis.Codec.Udp

namespace Elvis.Codec.Tcp
open Elvis.Ck Elvis.Codec Elvis.Rfc1071

/-- the decoder's checksum test is RFC 1071 verification of pseudo header + segment -/
theorem matches_iff_verifies
    (b0 b1 b2 b3 b4 b5 b6 b7 b8 b9 b10 b11 b12 b13 b14 b15 b16 b17 b18 b19 : UInt8)
    (rest : List UInt8) (src dst plen : Nat)
    (hs : src < 4294967296) (hd : dst < 4294967296) (hp : plen < 65536) :
    matchesField true (accDec true (W b0 b1) (W b2 b3) (W4 b4 b5 b6 b7) (W4 b8 b9 b10 b11)
        (W b12 b13) (W b14 b15) (W b18 b19) rest src dst plen) (W b16 b17) = true ↔
    verifies (pseudoHeader src dst 6 plen ++
      wordsOf (b0 :: b1 :: b2 :: b3 :: b4 :: b5 :: b6 :: b7 :: b8 :: b9 :: b10 :: b11 :: b12 :: b13 ::
        b14 :: b15 :: b16 :: b17 :: b18 :: b19 :: rest)) := by
  have t := accDec_tracks (W4 b4 b5 b6 b7) (W4 b8 b9 b10 b11) src dst rest (W_lt b0 b1) (W_lt b2 b3)
    (W_lt b12 b13) (W_lt b14 b15) (W_lt b18 b19) hp
  have hne : coveredSum (W b0 b1) (W b2 b3) (W4 b4 b5 b6 b7) (W4 b8 b9 b10 b11) (W b12 b13)
      (W b14 b15) (W b18 b19) rest src dst plen ≠ 0 := by
    unfold coveredSum; omega
  rw [matches_iff_of_tracks t (W_lt b16 b17) hne, verifies_iff_sum, List.sum_append, pseudoHeader_sum]
  have e : (wordsOf (b0 :: b1 :: b2 :: b3 :: b4 :: b5 :: b6 :: b7 :: b8 :: b9 :: b10 :: b11 :: b12 ::
      b13 :: b14 :: b15 :: b16 :: b17 :: b18 :: b19 :: rest)).sum =
      W b0 b1 + W b2 b3 + W b4 b5 + W b6 b7 + W b8 b9 + W b10 b11 + W b12 b13 + W b14 b15 +
        W b16 b17 + W b18 b19 + (wordsOf rest).sum := by
    simp only [wordsOf, List.sum_cons, W, Nat.add_assoc]
  rw [e]
  unfold coveredSum
  have e1 : src / 65536 % 65536 = src / 65536 := by omega
  have e2 : dst / 65536 % 65536 = dst / 65536 := by omega
  rw [e1, e2, W4_halves b4 b5 b6 b7, W4_halves b8 b9 b10 b11]
  constructor <;> (intro ⟨h1, h2⟩; constructor <;> omega)

end Elvis.Codec.Tcp
