import Driver.Common
/-! Line-protocol handlers for C14 (sub-commands `c14` / `c14-*`). -/
namespace Driver.C14

def dispatch (_sub : String) (_i _o : IO.FS.Stream) : Option (IO Unit) := none

end Driver.C14
