import ElvisVerif.Lemmas.RouterDeliveryInv
import ElvisVerif.Props.C16
/-!
# C16 — delivery along a static path, with ARP as coded (no `FaithfulRun` hypothesis)

`c16_delivery_partial` (Props/C16.lean) takes as a hypothesis that the ARP resolutions made for
the datagram return the MAC of the machine that answers for the next hop.  Here that is DERIVED
from the concrete ARP layer of `Model/Router.lean` (tables keyed by IP only, shared by all networks
of a machine; learn from every packet; reply for local addresses; broadcasts reach every tap)
for every topology that is well-formed in the sense of `TopoWf`:

* an address is answered for by at most one tap per network segment,
* the address a machine puts into its requests on a slot is one it answers for,

and for every route whose hops satisfy `SharedOnce`: the next hop is an interface on THE network
the forward leaves on — the forwarding machine shares no other network with a machine answering
for it (`RouteS` = `Route` + `SharedOnce` at every hop; MAC numbers are per-network counters, as
the scaffold assigns them, so a MAC learned on one network means nothing on another: without
`SharedOnce` the model — like the code — sends the frame to whoever has that number there).

What remains a hypothesis is about TIME, which the untimed transition system cannot exhibit:
`ArpInTime` — no resolve task of the datagram is polled with an exhausted retry budget while its
machine's table has no answer ("no loss on the ARP exchanges of this datagram within the retry
budget of `arpResendTries` requests").  The retry timer may otherwise fire at any moment, ARP
frames and data frames of all datagrams may interleave in any order, any other traffic may run.
Routes of every length `m` are covered (the induction is the one of `route_leads`).
-/
namespace Elvis.Router

/-- the state right after the application handed the datagram to its stack -/
def afterSend (s0 : CState) (p0 : Pending) : CState := { s0 with tasks := s0.tasks ++ [newTask p0] }

/-- DELIVERY.  In a well-formed topology, if the static routes lead from the sending host through
    `m` routers to the destination application (`RouteS`) and `m` is smaller than the initial TTL,
    then in EVERY run of the concrete system (ARP as coded) that starts in a state satisfying the
    ARP invariant (`CInv`: the initial state does, and every reachable state does) — any
    interleaving with any other traffic, any arrival order of ARP and data frames — in which the
    ARP exchanges made for this datagram complete within the retry budget (`ArpInTime`), once
    nothing of the datagram is left in the system it has been handed to the destination
    application exactly once, with the data that were sent, and to no other application. -/
theorem c16_delivery (topo : Topo) (wf : TopoWf topo) (k hd port : Nat) (data : List UInt8) (m : Nat)
    (s0 : CState) (inv0 : CInv topo s0) (h : Nat) (pkt : Pkt) (p0 : Pending) (rest : List CChoice) (s : CState)
    (fresh : (∀ f ∈ s0.flight, f.pkt.tok ≠ k) ∧ (∀ t ∈ s0.tasks, t.p.pkt.tok ≠ k) ∧ appsOf k s0.log = [])
    (hk : pkt.tok = k) (hsend : sendCore topo h pkt = [p0])
    (hroute : RouteS topo hd port data m p0) (httl : m < pkt.hdr.ttl)
    (hrun : crun topo s0 (.send h pkt :: rest) = .ok s)
    (htime : ArpInTime topo k (afterSend s0 p0) rest)
    (hquiet : (∀ f ∈ s.flight, f.pkt.tok ≠ k) ∧ (∀ t ∈ s.tasks, t.p.pkt.tok ≠ k)) :
    appsOf k s.log = [(hd, port, data)] := by
  have hp0 : p0.pkt = pkt := by
    rcases sendCore_spec topo h pkt with e | ⟨p, nd, e, _, _, hp, _⟩
    · rw [e] at hsend; cases hsend
    · rw [e] at hsend; cases hsend; exact hp
  -- the concrete step of the send
  have hstep : cstep topo s0 (.send h pkt) = .ok (afterSend s0 p0) := by
    simp [cstep, hsend, afterSend]
  have habs1 : (afterSend s0 p0).abs = { s0.abs with pend := s0.abs.pend ++ [p0] } := by
    simp [afterSend, CState.abs, newTask]
  -- the abstract run that simulates the concrete one
  have href := crun_refines topo _ s0 s hrun
  have hsched : absSched topo s0 (.send h pkt :: rest) = .send h pkt :: absSched topo (afterSend s0 p0) rest := by
    simp [absSched, absChoices, hstep]
  rw [hsched] at href
  -- invariants right after the send
  have inv1 : CInv topo (afterSend s0 p0) := cstep_cinv wf hstep inv0
  have tw1 : TrackW topo k (afterSend s0 p0).abs := by
    rw [habs1]
    refine ⟨?_, ?_⟩
    · intro f hf hfk
      exact absurd hfk (fresh.1 f hf)
    · intro q hq hqk
      simp only [List.mem_append, List.mem_singleton] at hq
      rcases hq with hq | rfl
      · simp only [CState.abs, List.mem_map] at hq
        obtain ⟨t, ht, rfl⟩ := hq
        exact absurd hqk (fresh.2.1 t ht)
      · exact hroute.hopsWf (.inl (by rw [hp0]; exact httl))
  have hfaith := faithful_of_concrete wf rest (afterSend s0 p0) inv1 tw1 htime
  rw [habs1] at hfaith
  refine c16_delivery_partial topo k hd port data m s0.abs h pkt p0 _ s.abs ?_ hk hsend hroute.route httl href
    hfaith ?_
  · refine ⟨fresh.1, ?_, fresh.2.2⟩
    intro p hp
    simp only [CState.abs, List.mem_map] at hp
    obtain ⟨t, ht, rfl⟩ := hp
    exact fresh.2.1 t ht
  · refine ⟨hquiet.1, ?_⟩
    intro p hp
    simp only [CState.abs, List.mem_map] at hp
    obtain ⟨t, ht, rfl⟩ := hp
    exact hquiet.2 t ht

/-- the ARP invariant is not an assumption about the run: the initial state has it and every
    step of a well-formed topology keeps it -/
theorem c16_arp_invariant (topo : Topo) (wf : TopoWf topo) (cs : List CChoice) (s : CState)
    (h : crun topo (CState.init topo) cs = .ok s) : CInv topo s :=
  crun_cinv wf cs _ s h (cinv_init topo)

/-- what the invariant says, in the words of C06's `c06_resolve_sound`, for several networks: in
    every reachable state every `Ok` entry `ip ↦ mac` in the ARP table of machine `n` is the MAC,
    on some network `n` is attached to, of a tap whose machine answers ARP for `ip`; and whenever
    a resolve task whose hop satisfies `SharedOnce` reads an answer from its table, it is the
    faithful one -/
theorem c16_arp_sound (topo : Topo) (wf : TopoWf topo) (cs : List CChoice) (s : CState)
    (h : crun topo (CState.init topo) cs = .ok s) :
    (∀ n c ip mac, s.caches[n]? = some c → c.get ip = some (some mac) → Learnable topo n ip mac) ∧
    (∀ t ∈ s.tasks, SharedOnce topo t.p → ∀ mac,
      ((s.caches[t.p.node]?).getD []).answer t.p.nextHop = some (some mac) → faithfulMac topo t.p = some mac) := by
  have inv := c16_arp_invariant topo wf cs s h
  refine ⟨inv.caches, ?_⟩
  intro t _ so mac hm
  obtain ⟨mac', hr, hg⟩ := answer_some hm
  cases hr
  cases hcn : s.caches[t.p.node]? with
  | none => simp [hcn, Cache.get] at hg
  | some c =>
    simp only [hcn, Option.getD_some] at hg
    exact hop_faithful wf so (inv.caches _ c _ _ hcn hg)

/-- `SharedOnce` is needed: with a next hop whose owner is attached to two networks of the
    forwarding machine, the table (keyed by the address alone) may hold the MAC number the owner has
    on the OTHER network.  Witness: machine 0 with taps on networks 0 and 1, machine 1 owning
    address 9 with MAC 5 on network 0 and MAC 6 on network 1: `Learnable` allows both numbers. -/
theorem c16_shared_once_needed :
    ∃ (topo : Topo) (p : Pending), TopoWf topo ∧ ¬ SharedOnce topo p ∧
      Learnable topo p.node p.nextHop 5 ∧ faithfulMac topo p = some 6 := by
  let n0 : Node := { slots := [(0, 1), (1, 1)], binds := [], udpPorts := [], subnet := none,
                     localIps := [7, 8], table := [], arpIps := [7, 8] }
  let n1 : Node := { slots := [(0, 5), (1, 6)], binds := [], udpPorts := [], subnet := none,
                     localIps := [9, 9], table := [], arpIps := [9] }
  let topo : Topo := { nodes := [n0, n1], mtus := [] }
  let p : Pending := { node := 0, slot := 1, loc := 8, nextHop := 9, viaRouter := true,
                       pkt := ⟨0, ⟨0, 20, 0, 0, 0, 9, 17, 1, 2⟩, []⟩ }
  have taps0 : tapsOn topo 0 = [(0, n0, 1), (1, n1, 5)] := by decide +kernel
  have taps1 : tapsOn topo 1 = [(0, n0, 1), (1, n1, 6)] := by decide +kernel
  have on0 : OnNet topo 0 0 := ⟨n0, 1, by rw [taps0]; simp⟩
  have cl0 : Claims topo 0 9 5 := ⟨1, n1, by rw [taps0]; simp, by decide⟩
  refine ⟨topo, p, ⟨?_, ?_⟩, ?_, ⟨0, on0, cl0⟩, by decide +kernel⟩
  · -- claims are unique per network
    intro net ip t1 t2 h1 h2 c1 c2
    have hnet : ∀ t, t ∈ tapsOn topo net → net = 0 ∨ net = 1 := by
      intro t ht
      obtain ⟨a, b, c⟩ := t
      have := (mem_tapsOn.1 ht)
      have hn : a = 0 ∨ a = 1 := by
        rcases a with _ | _ | a
        · exact .inl rfl
        · exact .inr rfl
        · simp [topo] at this
      rcases hn with rfl | rfl
      · have h2 := this.2; simp only [topo, List.getElem?_cons_zero, Option.some.injEq] at this
        obtain ⟨rfl, hs⟩ := this
        simp only [n0, List.mem_cons, Prod.mk.injEq, List.not_mem_nil, or_false] at hs
        rcases hs with ⟨rfl, _⟩ | ⟨rfl, _⟩
        · exact .inl rfl
        · exact .inr rfl
      · simp only [topo, List.getElem?_cons_succ, List.getElem?_cons_zero, Option.some.injEq] at this
        obtain ⟨rfl, hs⟩ := this
        simp only [n1, List.mem_cons, Prod.mk.injEq, List.not_mem_nil, or_false] at hs
        rcases hs with ⟨rfl, _⟩ | ⟨rfl, _⟩
        · exact .inl rfl
        · exact .inr rfl
    rcases hnet t1 h1 with rfl | rfl
    · rw [taps0] at h1 h2
      simp only [List.mem_cons, List.not_mem_nil, or_false] at h1 h2
      rcases h1 with rfl | rfl <;> rcases h2 with rfl | rfl
      · rfl
      · simp [n0, n1] at c1 c2
        exfalso
        first
          | (rcases c1 with h | h <;> (rw [h] at c2; exact absurd c2 (by decide)))
          | (rcases c2 with h | h <;> (rw [h] at c1; exact absurd c1 (by decide)))
      · simp [n0, n1] at c1 c2
        exfalso
        first
          | (rcases c1 with h | h <;> (rw [h] at c2; exact absurd c2 (by decide)))
          | (rcases c2 with h | h <;> (rw [h] at c1; exact absurd c1 (by decide)))
      · rfl
    · rw [taps1] at h1 h2
      simp only [List.mem_cons, List.not_mem_nil, or_false] at h1 h2
      rcases h1 with rfl | rfl <;> rcases h2 with rfl | rfl
      · rfl
      · simp [n0, n1] at c1 c2
        exfalso
        first
          | (rcases c1 with h | h <;> (rw [h] at c2; exact absurd c2 (by decide)))
          | (rcases c2 with h | h <;> (rw [h] at c1; exact absurd c1 (by decide)))
      · simp [n0, n1] at c1 c2
        exfalso
        first
          | (rcases c1 with h | h <;> (rw [h] at c2; exact absurd c2 (by decide)))
          | (rcases c2 with h | h <;> (rw [h] at c1; exact absurd c1 (by decide)))
      · rfl
  · -- local addresses are claimed
    intro n nd σ loc hn hl
    have hn' : n = 0 ∨ n = 1 := by
      rcases n with _ | _ | n
      · exact .inl rfl
      · exact .inr rfl
      · simp [topo] at hn
    rcases hn' with rfl | rfl
    · simp only [topo, List.getElem?_cons_zero, Option.some.injEq] at hn
      subst hn
      have : σ = 0 ∨ σ = 1 := by
        rcases σ with _ | _ | σ
        · exact .inl rfl
        · exact .inr rfl
        · simp [n0] at hl
      rcases this with rfl | rfl <;> (simp [n0] at hl; subst hl; decide)
    · simp only [topo, List.getElem?_cons_succ, List.getElem?_cons_zero, Option.some.injEq] at hn
      subst hn
      have : σ = 0 ∨ σ = 1 := by
        rcases σ with _ | _ | σ
        · exact .inl rfl
        · exact .inr rfl
        · simp [n1] at hl
      rcases this with rfl | rfl <;> (simp [n1] at hl; subst hl; decide)
  · -- the forward leaves on network 1, but the owner of 9 is also on network 0
    intro so
    have := so 0 on0 ⟨5, cl0⟩
    have e : outNet topo p = some 1 := by decide +kernel
    rw [e] at this
    cases this

/-! ## executable checkers for the hypotheses (so that concrete topologies can be certified by evaluation) -/

/-- the networks that occur in the topology -/
def netsOf (topo : Topo) : List NetId := topo.nodes.flatMap (fun nd => nd.slots.map (·.1))

theorem net_mem_of_tap {topo : Topo} {net : NetId} {t : Nat × Node × Mac} (h : t ∈ tapsOn topo net) :
    net ∈ netsOf topo := by
  obtain ⟨n, nd, mac⟩ := t
  obtain ⟨hn, hs⟩ := mem_tapsOn.1 h
  simp only [netsOf, List.mem_flatMap, List.mem_map]
  exact ⟨nd, List.mem_of_getElem? hn, (net, mac), hs, rfl⟩

def claimOnceB (topo : Topo) : Bool :=
  (netsOf topo).all fun net => (tapsOn topo net).all fun t1 => (tapsOn topo net).all fun t2 =>
    t1.2.1.arpIps.all fun ip => !t2.2.1.arpIps.contains ip || decide (t1 = t2)

def localClaimedB (topo : Topo) : Bool :=
  topo.nodes.all fun nd => nd.localIps.all fun loc => nd.arpIps.contains loc

theorem topoWf_of_check (topo : Topo) (h1 : claimOnceB topo = true) (h2 : localClaimedB topo = true) :
    TopoWf topo := by
  constructor
  · intro net ip t1 t2 m1 m2 c1 c2
    simp only [claimOnceB, List.all_eq_true] at h1
    have := h1 net (net_mem_of_tap m1) t1 m1 t2 m2 ip (by simpa using c1)
    simp only [Bool.or_eq_true, Bool.not_eq_true', decide_eq_true_eq] at this
    rcases this with h | h
    · rw [c2] at h; cases h
    · exact h
  · intro n nd σ loc hn hl
    simp only [localClaimedB, List.all_eq_true] at h2
    exact h2 nd (List.mem_of_getElem? hn) loc (List.mem_of_getElem? hl)

def sharedOnceB (topo : Topo) (p : Pending) : Bool :=
  (netsOf topo).all fun net =>
    !((tapsOn topo net).any (fun t => t.1 == p.node) &&
      (tapsOn topo net).any (fun t => t.2.1.arpIps.contains p.nextHop)) ||
    (outNet topo p == some net)

theorem sharedOnce_of_check (topo : Topo) (p : Pending) (h : sharedOnceB topo p = true) : SharedOnce topo p := by
  intro net ⟨nd, mac, hon⟩ ⟨mac', n', nd', hcl, hc⟩
  simp only [sharedOnceB, List.all_eq_true] at h
  have := h net (net_mem_of_tap hon)
  simp only [Bool.or_eq_true, Bool.not_eq_true', Bool.and_eq_false_iff, beq_iff_eq] at this
  rcases this with (h1 | h1) | h1
  · have : (tapsOn topo net).any (fun t => t.1 == p.node) = true :=
      List.any_eq_true.2 ⟨_, hon, by simp⟩
    rw [this] at h1; cases h1
  · have : (tapsOn topo net).any (fun t => t.2.1.arpIps.contains p.nextHop) = true :=
      List.any_eq_true.2 ⟨_, hcl, hc⟩
    rw [this] at h1; cases h1
  · exact h1

def cchoiceOkB (k : Nat) (s : CState) : CChoice → Bool
  | .send _ pkt => pkt.tok != k
  | .inject f => f.pkt.tok != k
  | .task j =>
    match s.tasks[j]? with
    | none => true
    | some t => t.p.pkt.tok != k || (((s.caches[t.p.node]?).getD []).answer t.p.nextHop).isSome || t.tries != 0
  | _ => true

def arpInTimeB (topo : Topo) (k : Nat) : CState → List CChoice → Bool
  | _, [] => true
  | s, c :: cs =>
    cchoiceOkB k s c &&
      match cstep topo s c with
      | .ok s' => arpInTimeB topo k s' cs
      | .error _ => true

theorem arpInTime_of_check (topo : Topo) (k : Nat) : ∀ (cs : List CChoice) (s : CState),
    arpInTimeB topo k s cs = true → ArpInTime topo k s cs
  | [], _, _ => trivial
  | c :: cs, s, h => by
    simp only [arpInTimeB, Bool.and_eq_true] at h
    refine ⟨?_, ?_⟩
    · cases c with
      | send _ pkt => simpa [cchoiceOkB, CChoiceOk] using h.1
      | inject f => simpa [cchoiceOkB, CChoiceOk] using h.1
      | deliver _ => trivial
      | arp _ => trivial
      | task j =>
        intro t ht hk hm
        have h1 := h.1
        simp only [cchoiceOkB, ht, Bool.or_eq_true, bne_iff_ne, ne_eq] at h1
        rcases h1 with (h1 | h1) | h1
        · exact absurd hk h1
        · rw [hm] at h1; cases h1
        · exact h1
    · intro s' hs
      have h2 := h.2
      rw [hs] at h2
      exact arpInTime_of_check topo k cs s' h2

/-! ## non-vacuity: the two-subnet topology of Props/C16.lean, ARP as coded, a whole run -/

namespace Example2
open Example

theorem topo_wf : TopoWf topo := topoWf_of_check topo (by decide +kernel) (by decide +kernel)

/-- the forward the router makes for the datagram -/
def p1 : Pending :=
  { node := 2, slot := 1, loc := ipR1, nextHop := ipB, viaRouter := true, pkt := (pkt 30).withTtl 29 }

/-- the static routes of the example form a path of one router, with `SharedOnce` at both hops -/
theorem routeS : RouteS topo 1 5001 [7, 9] 1 p0 := by
  refine .forward 0 p0 1 hostA 0 0 2 router 0 ⟨167772416, 24, none, 1⟩ ipR1
    (sharedOnce_of_check topo p0 (by decide +kernel))
    (by decide +kernel) (by decide +kernel) (by decide +kernel) (by decide +kernel) (by decide +kernel) (by decide +kernel) (by decide +kernel) (by decide +kernel)
    (by decide +kernel) (by decide +kernel) (by decide +kernel) (by decide +kernel) ?_
  exact .deliver _ 0 router 1 1 hostB 0 (sharedOnce_of_check topo _ (by decide +kernel))
    (by decide +kernel) (by decide +kernel) (by decide +kernel) (by decide +kernel) (by decide +kernel)
    (by decide +kernel) (by decide +kernel) (by decide +kernel) (by decide +kernel)

/-- what happens after the send: host A asks for the router (broadcast, answered, learned), sends;
    the router forwards: asks for B, is answered, sends; B's application gets the data -/
def sched : List CChoice :=
  [.task 0, .arp 0, .arp 0, .task 0, .deliver 0, .task 0, .arp 0, .arp 0, .task 0, .deliver 0]

def quietB (s : CState) : Bool := s.flight.all (fun f => f.pkt.tok != 1) && s.tasks.all (fun t => t.p.pkt.tok != 1)

/-- the theorem applies to this run, and says what the run shows -/
example : ∃ s, crun topo (CState.init topo) (.send 0 (pkt 30) :: sched) = .ok s ∧
    appsOf 1 s.log = [(1, 5001, [7, 9])] := by
  cases hrun : crun topo (CState.init topo) (.send 0 (pkt 30) :: sched) with
  | error e =>
    have : (match crun topo (CState.init topo) (.send 0 (pkt 30) :: sched) with
      | .ok _ => true | .error _ => false) = true := by decide +kernel
    rw [hrun] at this; cases this
  | ok s =>
    have hq : quietB s = true := by
      have : (match crun topo (CState.init topo) (.send 0 (pkt 30) :: sched) with
        | .ok s => quietB s | .error _ => false) = true := by decide +kernel
      rw [hrun] at this; exact this
    simp only [quietB, Bool.and_eq_true, List.all_eq_true, bne_iff_ne, ne_eq] at hq
    refine ⟨s, rfl, ?_⟩
    refine c16_delivery topo topo_wf 1 1 5001 [7, 9] 1 (CState.init topo) (cinv_init topo) 0 (pkt 30) p0 sched s
      ⟨by simp [CState.init], by simp [CState.init], by simp [CState.init, appsOf]⟩ rfl (by decide +kernel)
      routeS (by decide) hrun (arpInTime_of_check topo 1 sched _ (by decide +kernel)) ⟨hq.1, hq.2⟩

/-- and the outcome the theorem predicts is the one the evaluated run has -/
example :
    (match crun topo (CState.init topo) (.send 0 (pkt 30) :: sched) with
     | .ok s => appsOf 1 s.log == [(1, 5001, [7, 9])] && s.flight.isEmpty && s.tasks.isEmpty
     | .error _ => false) = true := by decide +kernel

end Example2

end Elvis.Router
