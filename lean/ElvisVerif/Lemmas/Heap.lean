import ElvisVerif.Base.Heap
/-!
Correctness of the `std::collections::BinaryHeap` model (`Base/Heap.lean`) for element orders
that are total preorders (ties allowed — the reassembler's `Fragment` order):

* `push` / `pop` keep the heap shape invariant (`IsHeap`) and permute the contents;
* the root of a heap is a maximum, so `pop` returns a maximum;
* `drain` (pop until empty) lists the contents in non-increasing order.

For orders that are *not* total preorders (the TCB's circular sequence order) only the
permutation and size lemmas apply; they need no hypothesis on `le`.
-/
namespace Elvis.Heap
variable {α : Type}

structure TotalPreorder (le : α → α → Bool) : Prop where
  total : ∀ a b, le a b = true ∨ le b a = true
  trans : ∀ a b c, le a b = true → le b c = true → le a c = true

theorem TotalPreorder.refl {le : α → α → Bool} (tp : TotalPreorder le) (a : α) : le a a = true := by
  cases tp.total a a <;> assumption

/-- every element is `<=` its parent -/
def IsHeap (le : α → α → Bool) (d : Array α) : Prop :=
  ∀ i (hi : i < d.size), 0 < i → le d[i] (d[(i - 1) / 2]'(by omega)) = true

/-! ### sizes -/

@[simp] theorem size_siftUpF (le : α → α → Bool) (fuel : Nat) (d : Array α) (pos : Nat)
    (h : pos < d.size) : (siftUpF le fuel d pos h).size = d.size := by
  induction fuel generalizing d pos with
  | zero => rfl
  | succ fuel ih =>
    unfold siftUpF
    split
    · split
      · rfl
      · rw [ih]; simp
    · rfl

@[simp] theorem size_siftUp (le : α → α → Bool) (d : Array α) (pos : Nat) (h : pos < d.size) :
    (siftUp le d pos h).size = d.size := by simp [siftUp]

@[simp] theorem size_siftDownF (le : α → α → Bool) (fuel : Nat) (d : Array α) (pos : Nat)
    (h : pos < d.size) : (siftDownF le fuel d pos h).size = d.size := by
  induction fuel generalizing d pos with
  | zero => simp [siftDownF]
  | succ fuel ih =>
    unfold siftDownF
    split
    · split <;> (rw [ih]; simp)
    · split <;> simp

@[simp] theorem size_push (le : α → α → Bool) (d : Array α) (x : α) :
    (push le d x).size = d.size + 1 := by simp [push]

theorem size_pop (le : α → α → Bool) (d : Array α) : (pop le d).2.size = d.size - 1 := by
  unfold pop
  by_cases h0 : d.size = 0
  · simp [h0]
  · simp only [h0, dite_false]
    by_cases h1 : d.pop.size = 0
    · simp only [h1, dite_true]; simp at h1; omega
    · simp only [h1, dite_false]; simp [siftDownToBottom]

/-! ### contents are permuted -/

theorem siftUpF_perm (le : α → α → Bool) (fuel : Nat) (d : Array α) (pos : Nat)
    (h : pos < d.size) : (siftUpF le fuel d pos h).Perm d := by
  induction fuel generalizing d pos with
  | zero => exact .refl _
  | succ fuel ih =>
    unfold siftUpF
    split
    · split
      · exact .refl _
      · exact (ih _ _ _).trans (Array.swap_perm _ _)
    · exact .refl _

theorem siftUp_perm (le : α → α → Bool) (d : Array α) (pos : Nat) (h : pos < d.size) :
    (siftUp le d pos h).Perm d := siftUpF_perm le pos d pos h

theorem siftDownF_perm (le : α → α → Bool) (fuel : Nat) (d : Array α) (pos : Nat)
    (h : pos < d.size) : (siftDownF le fuel d pos h).Perm d := by
  induction fuel generalizing d pos with
  | zero => exact siftUp_perm le d pos h
  | succ fuel ih =>
    unfold siftDownF
    split
    · split <;> exact (ih _ _ _).trans (Array.swap_perm _ _)
    · split
      · exact (siftUp_perm le _ _ _).trans (Array.swap_perm _ _)
      · exact siftUp_perm le d pos h

theorem push_perm (le : α → α → Bool) (d : Array α) (x : α) : (push le d x).Perm (d.push x) :=
  siftUp_perm le _ _ _

/-- `pop` on an empty heap -/
theorem pop_empty (le : α → α → Bool) (d : Array α) (h : d.size = 0) : pop le d = (none, d) := by
  simp [pop, h]

/-- `pop` on a non-empty heap returns the root and a permutation of the rest -/
theorem pop_nonempty (le : α → α → Bool) (d : Array α) (h : 0 < d.size) :
    ∃ d', pop le d = (some d[0], d') ∧ (d'.push d[0]).Perm d := by
  unfold pop
  have hne : ¬ d.size = 0 := by omega
  simp only [hne, dite_false]
  by_cases h1 : d.pop.size = 0
  · simp only [h1, dite_true]
    have hs : d.size = 1 := by simp at h1; omega
    refine ⟨d.pop, by simp [hs], ?_⟩
    have : d.pop.push d[0] = d := by
      apply Array.ext
      · simp [hs]
      · intro i hi1 hi2
        have : i = 0 := by simp at hi1; omega
        subst this
        simp [Array.getElem_push, hs]
    rw [this]
  · simp only [h1, dite_false]
    refine ⟨_, Prod.ext (by simp [Array.getElem_pop]) rfl, ?_⟩
    -- contents: sift permutes (d.pop.set 0 last); pushing d[0] back gives a permutation of d
    have hp := siftDownF_perm le (d.pop.set 0 d[d.size - 1] (by simp at h1 ⊢; omega)).size
      (d.pop.set 0 d[d.size - 1] (by simp at h1 ⊢; omega)) 0 (by simp at h1 ⊢; omega)
    refine (Array.Perm.push _ hp).trans ?_
    -- (d.pop.set 0 last).push d[0]  ~  d   : it is `d` with positions 0 and size-1 swapped
    have hsw : (d.pop.set 0 d[d.size - 1] (by simp at h1 ⊢; omega)).push d[0]
        = d.swap 0 (d.size - 1) h (by omega) := by
      apply Array.ext
      · simp; omega
      · intro i hi1 hi2
        simp only [Array.size_push, Array.size_set, Array.size_pop] at hi1
        simp only [Array.getElem_push, Array.size_set, Array.size_pop, Array.getElem_set,
          Array.getElem_pop, Array.getElem_swap]
        simp at h1
        simp only [Array.size_swap] at hi2
        by_cases ha : i < d.size - 1
        · rw [dif_pos ha]
          by_cases hb : i = 0
          · subst hb; simp
          · rw [if_neg (Ne.symm hb), if_neg hb, if_neg (by omega)]
        · rw [dif_neg ha, if_neg (by omega), if_pos (by omega)]
    rw [hsw]
    exact Array.swap_perm _ _

/-! ### the heap shape is kept -/

/-- heap except that the element at `pos` (a position without children out of order) may be
    greater than its ancestors -/
def UpInv (le : α → α → Bool) (d : Array α) (pos : Nat) (_h : pos < d.size) : Prop :=
  (∀ i (hi : i < d.size), 0 < i → i ≠ pos → le d[i] (d[(i - 1) / 2]'(by omega)) = true) ∧
  (∀ c (hc : c < d.size), 0 < c → (c - 1) / 2 = pos → 0 < pos →
    le d[c] (d[(pos - 1) / 2]'(by omega)) = true)

theorem siftUpF_heap {le : α → α → Bool} (tp : TotalPreorder le) (fuel : Nat) :
    ∀ (d : Array α) (pos : Nat) (h : pos < d.size), pos ≤ fuel → UpInv le d pos h →
      IsHeap le (siftUpF le fuel d pos h) := by
  induction fuel with
  | zero =>
    intro d pos h hf inv
    have : pos = 0 := by omega
    subst this
    intro i hi hpos
    exact inv.1 i hi hpos (by omega)
  | succ fuel ih =>
    intro d pos h hf inv
    unfold siftUpF
    by_cases hp : 0 < pos
    · simp only [hp, dite_true]
      by_cases hle : le d[pos] (d[(pos - 1) / 2]'(by omega)) = true
      · simp only [hle, if_true]
        intro i hi hpos
        by_cases hip : i = pos
        · subst hip; exact hle
        · exact inv.1 i hi hpos hip
      · simp only [hle]
        apply ih _ _ _ (by omega)
        have hpar : le (d[(pos - 1) / 2]'(by omega)) d[pos] = true := by
          cases tp.total d[pos] (d[(pos - 1) / 2]'(by omega)) with
          | inl h' => exact absurd h' hle
          | inr h' => exact h'
        obtain ⟨i1, i2⟩ := inv
        have tr := tp.trans
        constructor
        · intro i hi hpos hne
          simp only [Array.size_swap] at hi
          grind
        · intro c hc hcpos hcp hpp
          simp only [Array.size_swap] at hc
          grind
    · simp only [hp, dite_false]
      have : pos = 0 := by omega
      subst this
      intro i hi hpos
      exact inv.1 i hi hpos (by omega)

theorem siftUp_heap {le : α → α → Bool} (tp : TotalPreorder le) (d : Array α) (pos : Nat)
    (h : pos < d.size) (inv : UpInv le d pos h) : IsHeap le (siftUp le d pos h) :=
  siftUpF_heap tp pos d pos h (Nat.le_refl _) inv

/-- heap with a hole at `pos`: nothing is known about the element at `pos` -/
def DownInv (le : α → α → Bool) (d : Array α) (pos : Nat) (_h : pos < d.size) : Prop :=
  (∀ i (hi : i < d.size), 0 < i → i ≠ pos → (i - 1) / 2 ≠ pos →
    le d[i] (d[(i - 1) / 2]'(by omega)) = true) ∧
  (∀ c (hc : c < d.size), 0 < c → (c - 1) / 2 = pos → 0 < pos →
    le d[c] (d[(pos - 1) / 2]'(by omega)) = true)

theorem siftDownF_heap {le : α → α → Bool} (tp : TotalPreorder le) (fuel : Nat) :
    ∀ (d : Array α) (pos : Nat) (h : pos < d.size), d.size ≤ pos + fuel → DownInv le d pos h →
      IsHeap le (siftDownF le fuel d pos h) := by
  induction fuel with
  | zero => intro d pos h hf _; omega
  | succ fuel ih =>
    intro d pos h hf inv
    obtain ⟨i1, i2⟩ := inv
    have tr := tp.trans
    unfold siftDownF
    by_cases h2 : 2 * pos + 2 < d.size
    · simp only [h2, dite_true]
      by_cases hc : le (d[2 * pos + 1]'(by omega)) (d[2 * pos + 2]'h2) = true
      · simp only [hc, if_true]
        apply ih _ _ _ (by simp only [Array.size_swap]; omega)
        constructor
        · intro i hi hpos hne hpar
          simp only [Array.size_swap] at hi
          grind
        · intro c hcs hcpos hcp hpp
          simp only [Array.size_swap] at hcs
          grind
      · simp only [hc]
        have hc' : le (d[2 * pos + 2]'h2) (d[2 * pos + 1]'(by omega)) = true := by
          cases tp.total (d[2 * pos + 1]'(by omega)) (d[2 * pos + 2]'h2) with
          | inl h' => exact absurd h' hc
          | inr h' => exact h'
        apply ih _ _ _ (by simp only [Array.size_swap]; omega)
        constructor
        · intro i hi hpos hne hpar
          simp only [Array.size_swap] at hi
          grind
        · intro c hcs hcpos hcp hpp
          simp only [Array.size_swap] at hcs
          grind
    · simp only [h2, dite_false]
      by_cases h1 : 2 * pos + 2 = d.size
      · simp only [h1, dite_true]
        apply siftUp_heap tp
        constructor
        · intro i hi hpos hne
          simp only [Array.size_swap] at hi
          grind
        · intro c hcs hcpos hcp hpp
          simp only [Array.size_swap] at hcs
          omega
      · simp only [h1, dite_false]
        apply siftUp_heap tp
        constructor
        · intro i hi hpos hne
          by_cases hpar : (i - 1) / 2 = pos
          · omega
          · exact i1 i hi hpos hne hpar
        · intro c hcs hcpos hcp hpp
          omega

theorem push_heap {le : α → α → Bool} (tp : TotalPreorder le) (d : Array α) (x : α)
    (hd : IsHeap le d) : IsHeap le (push le d x) := by
  apply siftUp_heap tp
  constructor
  · intro i hi hpos hne
    simp only [Array.size_push] at hi
    have hi' : i < d.size := by omega
    have := hd i hi' hpos
    simp only [Array.getElem_push]
    rw [dif_pos hi', dif_pos (by omega)]
    exact this
  · intro c hc hcpos hcp hpp
    simp only [Array.size_push] at hc
    omega

theorem pop_heap {le : α → α → Bool} (tp : TotalPreorder le) (d : Array α) (hd : IsHeap le d) :
    IsHeap le (pop le d).2 := by
  unfold pop
  by_cases h0 : d.size = 0
  · simp only [h0, dite_true]; exact hd
  · simp only [h0, dite_false]
    by_cases h1 : d.pop.size = 0
    · simp only [h1, dite_true]
      intro i hi; omega
    · simp only [h1, dite_false]
      apply siftDownF_heap tp _ _ _ _ (by omega)
      constructor
      · intro i hi hpos hne hpar
        simp only [Array.size_set, Array.size_pop] at hi
        have := hd i (by omega) hpos
        simp only [Array.getElem_set, Array.getElem_pop]
        rw [if_neg (by omega), if_neg (by omega)]
        exact this
      · intro c hc hcpos hcp hpp
        omega

/-! ### the root is a maximum; pops come out in order -/

theorem root_max {le : α → α → Bool} (tp : TotalPreorder le) (d : Array α) (hd : IsHeap le d) :
    ∀ i (hi : i < d.size), le d[i] (d[0]'(by omega)) = true := by
  intro i
  induction i using Nat.strongRecOn with
  | _ i ih =>
    intro hi
    by_cases h0 : i = 0
    · subst h0; exact tp.refl _
    · have h1 := hd i hi (by omega)
      have h2 := ih ((i - 1) / 2) (by omega) (by omega)
      exact tp.trans _ _ _ h1 h2

/-- **pop returns a maximum and leaves a heap with the other elements** -/
theorem pop_spec {le : α → α → Bool} (tp : TotalPreorder le) (d : Array α) (hd : IsHeap le d)
    (h : 0 < d.size) :
    ∃ x d', pop le d = (some x, d') ∧ (x :: d'.toList).Perm d.toList ∧ IsHeap le d' ∧
      (∀ y ∈ d.toList, le y x = true) ∧ d'.size = d.size - 1 := by
  obtain ⟨d', e, p⟩ := pop_nonempty le d h
  refine ⟨d[0], d', e, ?_, ?_, ?_, ?_⟩
  · have := Array.perm_iff_toList_perm.1 p
    simp only [Array.toList_push] at this
    exact (List.perm_append_singleton _ _).symm.trans this
  · have := pop_heap tp d hd; rw [e] at this; exact this
  · intro y hy
    obtain ⟨i, hi, rfl⟩ := List.getElem_of_mem hy
    have := root_max tp d hd i (by simpa using hi)
    simpa using this
  · have := size_pop le d; rw [e] at this; exact this

/-- **pop until empty: a permutation of the contents in non-increasing order** -/
theorem drainFuel_spec {le : α → α → Bool} (tp : TotalPreorder le) (n : Nat) :
    ∀ (d : Array α), IsHeap le d → d.size = n →
      (drainFuel le n d).Perm d.toList ∧
      (drainFuel le n d).Pairwise (fun a b => le b a = true) := by
  induction n with
  | zero =>
    intro d _ hs
    have : d = #[] := by apply Array.eq_empty_of_size_eq_zero hs
    subst this
    simp [drainFuel]
  | succ n ih =>
    intro d hd hs
    obtain ⟨x, d', e, p, hd', hmax, hs'⟩ := pop_spec tp d hd (by omega)
    obtain ⟨p', s'⟩ := ih d' hd' (by omega)
    simp only [drainFuel, e]
    refine ⟨(List.Perm.cons x p').trans p, ?_⟩
    rw [List.pairwise_cons]
    refine ⟨?_, s'⟩
    intro y hy
    have hy' : y ∈ d'.toList := p'.mem_iff.1 hy
    exact hmax y (p.mem_iff.1 (List.mem_cons_of_mem x hy'))

theorem drain_spec {le : α → α → Bool} (tp : TotalPreorder le) (d : Array α) (hd : IsHeap le d) :
    (drain le d).Perm d.toList ∧ (drain le d).Pairwise (fun a b => le b a = true) :=
  drainFuel_spec tp d.size d hd rfl

theorem isHeap_empty (le : α → α → Bool) : IsHeap le (#[] : Array α) := by
  intro i hi; simp at hi

end Elvis.Heap
