//! C01 (and the engine shared with C03 / C12-runs / C17): a system of two TCP endpoints A and B
//! built from the REAL `Tcb`, plus raw segment injection.  One op per text line (the same lines
//! drive the Lean model, `Driver/C01.lean`); after every op the result and a canonical dump of
//! the addressed side (everything `Tcb::verif_snapshot` shows) are printed.
//!
//! Ops: `open X iss mtu` · `listen X iss mtu` · `write X len seed` · `writehex X hex` ·
//! `read X` · `tick X ms` · `emit X` · `deliver X i` · `inject X ctl seq ack wnd len seed` ·
//! `injecthex X ctl seq ack wnd hex` ·
//! `close X` · `abort X` · `drop X`.
//!
//! Native oracles (independent of the model, evaluated on the real code):
//!  * C01 prefix: bytes returned by `receive()` on one side are a prefix of the bytes passed to
//!    `send()` on the other, at every step, in both directions;
//!  * C01 convergence (after the fair, loss-free phase): everything submitted was delivered
//!    exactly once, both retransmission queues are empty, both sides are silent;
//!  * C17 no panic; C17 window (new data stays left of SND.UNA+SND.WND); C17 unacceptable
//!    segments are no-ops (state, RCV.NXT, buffered data, reorder queue, send state).
use elvis_core::protocols::ipv4::Ipv4Address;
use elvis_core::protocols::tcp::verif::*;
use elvis_core::protocols::{Endpoint, Endpoints};
use elvis_core::Message;
use hcommon::*;
use std::time::Duration;

pub const A_PORT: u16 = 0xcafe;
pub const B_PORT: u16 = 0xdead;

#[derive(Clone, Copy, PartialEq, Eq, Debug)]
pub enum SideId {
    A,
    B,
}
impl SideId {
    pub fn peer(self) -> SideId {
        match self {
            SideId::A => SideId::B,
            SideId::B => SideId::A,
        }
    }
    pub fn port(self) -> u16 {
        match self {
            SideId::A => A_PORT,
            SideId::B => B_PORT,
        }
    }
    pub fn addr(self) -> Ipv4Address {
        match self {
            SideId::A => Ipv4Address::new([10, 0, 0, 1]),
            SideId::B => Ipv4Address::new([10, 0, 0, 2]),
        }
    }
    pub fn name(self) -> &'static str {
        match self {
            SideId::A => "A",
            SideId::B => "B",
        }
    }
    pub fn ids(self) -> Endpoints {
        Endpoints {
            local: Endpoint { address: self.addr(), port: self.port() },
            remote: Endpoint { address: self.peer().addr(), port: self.peer().port() },
        }
    }
}

// ---------------------------------------------------------------------------------------------
// canonical printing (must match Driver/C01.lean character for character)
// ---------------------------------------------------------------------------------------------
pub fn fnv(b: &[u8]) -> u64 {
    let mut h: u64 = 0xcbf29ce484222325;
    for x in b {
        h = (h ^ (*x as u64)).wrapping_mul(0x100000001b3);
    }
    h
}
pub fn full(b: &[u8]) -> String {
    format!("{}:{:016x}", b.len(), fnv(b))
}
pub fn cheap(b: &[u8]) -> String {
    let n = b.len();
    if n <= 64 {
        full(b)
    } else {
        let mut v = b[..32].to_vec();
        v.extend_from_slice(&b[n - 32..]);
        format!("{}:{:016x}", n, fnv(&v))
    }
}
/// payload generator shared with the model driver
pub fn gen_bytes(len: usize, seed: u64) -> Vec<u8> {
    let mut x = seed as u32;
    let mut v = Vec::with_capacity(len);
    for _ in 0..len {
        x = x.wrapping_mul(1103515245).wrapping_add(12345);
        v.push((x >> 16) as u8);
    }
    v
}
pub fn hdr_str(h: &TcpHeader) -> String {
    format!(
        "{}.{}.{}.{}.{}.{}.{}.{}.{}",
        h.src_port,
        h.dst_port,
        h.seq,
        h.ack,
        h.data_offset,
        u8::from(h.ctl),
        h.wnd,
        h.urg,
        h.checksum
    )
}
fn list_str<T>(xs: &[T], f: impl Fn(&T) -> String, w: impl Fn(&T) -> u64) -> String {
    let n = xs.len();
    if n <= 6 {
        format!("[{}]", xs.iter().map(&f).collect::<Vec<_>>().join(","))
    } else {
        let mut agg: u64 = 0;
        for (i, x) in xs.iter().enumerate() {
            agg = (agg + (i as u64 + 1) * w(x)) % 4294967296;
        }
        format!(
            "[n={} agg={} {},..,{}]",
            n,
            agg,
            xs[..3].iter().map(&f).collect::<Vec<_>>().join(","),
            xs[n - 3..].iter().map(&f).collect::<Vec<_>>().join(",")
        )
    }
}
fn seg_weight(h: &TcpHeader, len: usize) -> u64 {
    h.seq as u64 + h.ack as u64 + u8::from(h.ctl) as u64 + len as u64
}
fn emitted_str(segs: &[(TcpHeader, Vec<u8>)]) -> String {
    let mut hx = 0u64;
    for s in segs {
        hx ^= fnv(&s.1);
    }
    format!(
        "{} hx={:016x}",
        list_str(segs, |s| format!("{}/{}", hdr_str(&s.0), full(&s.1)), |s| seg_weight(&s.0, s.1.len())),
        hx
    )
}
pub fn state_str(s: State) -> &'static str {
    match s {
        State::SynSent => "SynSent",
        State::SynReceived => "SynReceived",
        State::Established => "Established",
        State::FinWait1 => "FinWait1",
        State::FinWait2 => "FinWait2",
        State::CloseWait => "CloseWait",
        State::Closing => "Closing",
        State::LastAck => "LastAck",
        State::TimeWait => "TimeWait",
    }
}
fn ms(d: Duration) -> u128 {
    d.as_millis()
}
pub fn tcb_str(s: &VerifTcbSnapshot) -> String {
    let rtx = list_str(
        &s.retransmit,
        |x| format!("{}/{}/{}", hdr_str(&x.0), cheap(&x.1), x.2 as u8),
        |x| seg_weight(&x.0, x.1.len()) + x.2 as u64,
    );
    let one = list_str(&s.oneshot, hdr_str, |h| h.seq as u64 + h.ack as u64 + u8::from(h.ctl) as u64);
    let heap = list_str(
        &s.incoming_segments,
        |x| format!("{}/{}", hdr_str(&x.0), cheap(&x.1)),
        |x| seg_weight(&x.0, x.1.len()),
    );
    let tw = match s.time_wait {
        None => "-".to_string(),
        Some(d) => ms(d).to_string(),
    };
    format!(
        "st={} init={} mtu={} snd={},{},{},{},{},{} rcv={},{},{} ot={} rtx={} one={} heap={} it={} rto={} tw={}",
        state_str(s.state),
        if s.initiation_listen { "L" } else { "O" },
        s.mtu,
        s.snd.0,
        s.snd.1,
        s.snd.2,
        s.snd.3,
        s.snd.4,
        s.snd.5,
        s.rcv.0,
        s.rcv.1,
        s.rcv.2,
        cheap(&s.outgoing_text),
        rtx,
        one,
        heap,
        cheap(&s.incoming_text),
        ms(s.retransmission_timeout),
        tw
    )
}

// ---------------------------------------------------------------------------------------------
// the system
// ---------------------------------------------------------------------------------------------
#[derive(Default)]
pub struct Side {
    pub tcb: Option<Tcb>,
    pub listen: Option<(u32, u16)>,
    pub submitted: Vec<u8>,
    pub delivered: Vec<u8>,
    /// highest end (relative to ISS, in bytes of sequence space) of any data segment emitted
    pub max_rel_end: u64,
    /// the TCB was deleted (reset, final ACK or TIME-WAIT expiry)
    pub released: bool,
    pub aborted: bool,
}

pub struct Oracles {
    /// C01 prefix oracle
    pub prefix: bool,
    /// C17 window / unacceptable-segment oracles
    pub c17: bool,
}

pub struct Exec {
    pub a: Side,
    pub b: Side,
    pub history: Vec<(TcpHeader, Vec<u8>)>,
    /// set after a panic: the TCB's value is undefined, the case ends
    pub dead: bool,
    /// a forged segment that is not provably a no-op was injected: stream oracles are off
    pub tainted: bool,
    pub oracles: Oracles,
    /// result of the last op (for generators)
    pub last: String,
    /// indices of the history elements appended by the last op
    pub last_emitted: Vec<usize>,
    /// snapshot of each side after the last op that addressed it (= before the next one)
    cache: [Option<VerifTcbSnapshot>; 2],
    /// C03: when set, every answer carries the transition log (` | tr from>to ok`) and the C03
    /// per-op oracles run (`c03.rs`)
    pub c03: Option<super::c03::C03State>,
}

thread_local! {
    /// oracle failures already recorded per ident (a run keeps at most 3 replays per ident)
    static SEEN: std::cell::RefCell<std::collections::HashMap<String, u32>> = std::cell::RefCell::new(Default::default());
}
/// record an oracle failure, at most three per ident and run (the rest is only counted)
pub fn fail(out: &mut Out, what: &str, ident: &str) {
    let n = SEEN.with(|s| {
        let mut s = s.borrow_mut();
        let e = s.entry(ident.to_string()).or_insert(0);
        *e += 1;
        *e
    });
    out.count(&format!("fail.{}", ident.chars().take(60).collect::<String>()));
    if n <= 3 {
        out.fail(what, ident);
    } else {
        out.count("oracle_failures");
    }
}

pub fn panic_site(p: &PanicInfo) -> (String, String) {
    // (model string, function) from file + source line text
    let text = source_line_text(&p.file, p.line);
    let in_tcb = p.file.ends_with("tcp/tcb.rs");
    let r = |k: &str, f: &str| (k.to_string(), f.to_string());
    if in_tcb && text.starts_with("let max_bytes = self.snd.wnd as usize - queued_bytes;") {
        r("panic:sub-overflow:segments.max_bytes", "Tcb::segments")
    } else if in_tcb && text.starts_with("let max_segment_length = (self.mtu - SPACE_FOR_HEADERS) as usize;") {
        r("panic:sub-overflow:segments.max_segment_length", "Tcb::segments")
    } else if in_tcb && text.starts_with(".expect(\"Unexpectedly large MTU and message\")") {
        r("panic:expect:segments.build", "Tcb::segments")
    } else if in_tcb && text.starts_with("assert!(") {
        r("panic:assert:process_segment.text_in_window", "Tcb::process_segment")
    } else if in_tcb && text.starts_with("let unreceived = text_len - already_received;") {
        r("panic:sub-overflow:process_segment.unreceived", "Tcb::process_segment")
    } else if in_tcb && text.starts_with("let space_available = self.rcv.wnd as u32 - self.incoming.text.len() as u32;") {
        r("panic:sub-overflow:process_segment.space_available", "Tcb::process_segment")
    } else if in_tcb && text.starts_with("text.slice(already_received as usize..(already_received + accept) as usize);") {
        r("panic:add-overflow:process_segment.slice_end", "Tcb::process_segment")
    } else if p.file.ends_with("message.rs") && text.starts_with("assert!(start + len.unwrap_or(0) <= self.len());") {
        r("panic:assert:process_segment.slice", "Tcb::process_segment")
    } else if in_tcb && text.starts_with("let seg_len = data_len + fin as u32 + syn as u32;") {
        r("panic:add-overflow:is_seq_ok.seg_len", "Tcb::is_seq_ok")
    } else if in_tcb && text.starts_with("let segment = self.incoming.segments.pop().unwrap();") {
        r("panic:unwrap:segment_arrives.pop", "Tcb::segment_arrives")
    } else if in_tcb && text.starts_with(".unwrap();") {
        r("panic:unwrap:enqueue.build", "Tcb::enqueue")
    } else {
        (
            format!("panic:other:{}:{}", p.file.rsplit('/').next().unwrap_or(""), text.replace(' ', "_")),
            "?".to_string(),
        )
    }
}

fn parse_side(s: &str) -> Option<SideId> {
    match s {
        "A" => Some(SideId::A),
        "B" => Some(SideId::B),
        _ => None,
    }
}

/// is the segment one that a conforming receiver must treat as unacceptable?  Written from
/// RFC 9293 3.10.7.3 / 3.10.7.4 (Table 6) with the receive window widened by one on the left
/// (RCV.NXT-1), the acceptance rule this implementation documents for keep-alives
/// (draft-gont-tcpm-tcp-seq-validation); plain 64-bit offset arithmetic.
pub fn unacceptable(state: State, rcv_nxt: u32, rcv_wnd: u16, h: &TcpHeader, len: usize) -> bool {
    if state == State::SynSent {
        return !h.ctl.syn() && !h.ctl.rst();
    }
    let l = len as u64 + h.ctl.syn() as u64 + h.ctl.fin() as u64;
    let first = h.seq.wrapping_sub(rcv_nxt.wrapping_sub(1)) as u64; // distance from RCV.NXT-1
    if rcv_wnd == 0 {
        if l > 0 {
            return true;
        }
        return first > 1;
    }
    let last = first + l.max(1) - 1;
    first > rcv_wnd as u64 && last < (1u64 << 32)
}

impl Exec {
    pub fn new(oracles: Oracles) -> Self {
        Exec {
            a: Side::default(),
            b: Side::default(),
            history: vec![],
            dead: false,
            tainted: false,
            oracles,
            last: String::new(),
            last_emitted: vec![],
            cache: [None, None],
            c03: None,
        }
    }
    pub fn side(&self, x: SideId) -> &Side {
        match x {
            SideId::A => &self.a,
            SideId::B => &self.b,
        }
    }
    pub fn side_mut(&mut self, x: SideId) -> &mut Side {
        match x {
            SideId::A => &mut self.a,
            SideId::B => &mut self.b,
        }
    }
    /// snapshot of side x (cached: only ops addressed to x change it)
    pub fn snap(&self, x: SideId) -> Option<VerifTcbSnapshot> {
        self.cache[x as usize].clone()
    }
    pub fn snap_ref(&self, x: SideId) -> Option<&VerifTcbSnapshot> {
        self.cache[x as usize].as_ref()
    }
    fn side_str(&self, x: SideId) -> String {
        let sd = self.side(x);
        match (self.snap_ref(x), sd.listen) {
            (Some(t), _) => tcb_str(t),
            (None, Some((iss, mtu))) => format!("listen({},{})", iss, mtu),
            (None, None) => "none".into(),
        }
    }

    /// a segment arrives at side x, as `Tcp::demux` would route it
    fn arrive(&mut self, x: SideId, h: TcpHeader, text: Vec<u8>) -> Result<String, PanicInfo> {
        let seg = Segment::new(h, Message::new(text.clone()));
        let hist_len = self.history.len();
        let sd = self.side_mut(x);
        if let Some(tcb) = sd.tcb.as_mut() {
            match catch(|| tcb.segment_arrives(seg))? {
                SegmentArrivesResult::Ok => Ok("ok".into()),
                SegmentArrivesResult::Close => {
                    sd.tcb = None;
                    sd.listen = None;
                    sd.released = true;
                    Ok("close".into())
                }
            }
        } else if let Some((iss, mtu)) = sd.listen {
            match catch(|| segment_arrives_listen(seg, x.addr(), x.peer().addr(), iss, mtu))? {
                None => Ok("none".into()),
                Some(ListenResult::Tcb(t)) => {
                    sd.tcb = Some(t);
                    Ok("tcb".into())
                }
                Some(ListenResult::Response(r)) => {
                    self.history.push((r, vec![]));
                    self.last_emitted.push(hist_len);
                    Ok(format!("response {} {}", hist_len, hdr_str(&r)))
                }
            }
        } else {
            match catch(|| segment_arrives_closed(h, text.len() as u32, x.addr(), x.peer().addr()))? {
                None => Ok("none".into()),
                Some(r) => {
                    self.history.push((r, vec![]));
                    self.last_emitted.push(hist_len);
                    Ok(format!("response {} {}", hist_len, hdr_str(&r)))
                }
            }
        }
    }

    /// execute one op line; emits the (op, answer) pair and evaluates the oracles
    pub fn apply(&mut self, line: &str, out: &mut Out) {
        let w: Vec<&str> = line.split_whitespace().collect();
        self.last_emitted.clear();
        if self.dead {
            self.last = "dead".into();
            return out.line(line, "dead");
        }
        let bad = |me: &mut Self, out: &mut Out| {
            me.last = "bad-op".into();
            out.line(line, "bad-op")
        };
        if w.len() < 2 {
            return bad(self, out);
        }
        let Some(x) = parse_side(w[1]) else { return bad(self, out) };
        let num = |s: &str| s.parse::<u64>().ok();
        let before = self.cache[x as usize].take();
        let before_c03 = if self.c03.is_some() { before.clone() } else { None };
        let mut injected: Option<(TcpHeader, usize)> = None;
        let res: Result<String, PanicInfo> = match w.as_slice() {
            ["open", _, iss, mtu] => {
                let (Some(iss), Some(mtu)) = (num(iss), num(mtu)) else { return bad(self, out) };
                let r = catch(|| Tcb::open(x.ids(), iss as u32, mtu as u16));
                r.map(|t| {
                    let sd = self.side_mut(x);
                    sd.tcb = Some(t);
                    sd.released = false;
                    "ok".to_string()
                })
            }
            ["listen", _, iss, mtu] => {
                let (Some(iss), Some(mtu)) = (num(iss), num(mtu)) else { return bad(self, out) };
                self.side_mut(x).listen = Some((iss as u32, mtu as u16));
                Ok("ok".into())
            }
            ["deliver", _, i] => {
                let Some(i) = num(i) else { return bad(self, out) };
                match self.history.get(i as usize).cloned() {
                    None => Ok("noseg".into()),
                    Some((h, t)) => {
                        injected = Some((h, t.len()));
                        self.arrive(x, h, t)
                    }
                }
            }
            ["inject", _, ctl, seq, ack, wnd, rest @ ..] | ["injecthex", _, ctl, seq, ack, wnd, rest @ ..] => {
                let (Some(ctl), Some(seq), Some(ack), Some(wnd)) = (num(ctl), num(seq), num(ack), num(wnd)) else {
                    return bad(self, out);
                };
                let payload: Vec<u8> = match (w[0], rest) {
                    ("inject", [len, seed]) => {
                        let (Some(len), Some(seed)) = (num(len), num(seed)) else { return bad(self, out) };
                        gen_bytes(len as usize, seed)
                    }
                    ("injecthex", [h]) if *h == "-" || (h.len() % 2 == 0 && h.bytes().all(|c| c.is_ascii_digit() || (b'a'..=b'f').contains(&c))) => unhex(h),
                    _ => return bad(self, out),
                };
                let len = payload.len() as u64;
                let h = TcpHeader {
                    src_port: x.peer().port(),
                    dst_port: x.port(),
                    seq: seq as u32,
                    ack: ack as u32,
                    data_offset: 5,
                    ctl: Control::from((ctl % 64) as u8),
                    wnd: wnd as u16,
                    urg: 0,
                    checksum: 0,
                };
                injected = Some((h, len as usize));
                // forged segments that are not provably no-ops switch the stream oracles off
                let noop = match &before {
                    Some(s) => s.state != State::SynSent && unacceptable(s.state, s.rcv.1, s.rcv.2, &h, len as usize),
                    None => false,
                };
                if !noop {
                    self.tainted = true;
                }
                self.arrive(x, h, payload)
            }
            ["drop", _] => {
                let sd = self.side_mut(x);
                sd.tcb = None;
                sd.listen = None;
                Ok("ok".into())
            }
            _ => {
                if self.side(x).tcb.is_none() {
                    Ok("notcb".into())
                } else {
                    let hist_len = self.history.len();
                    let sd = match x {
                        SideId::A => &mut self.a,
                        SideId::B => &mut self.b,
                    };
                    let history = &mut self.history;
                    let last_emitted = &mut self.last_emitted;
                    let tcb = sd.tcb.as_mut().unwrap();
                    let write = |tcb: &mut Tcb, sd_sub: &mut Vec<u8>, bytes: Vec<u8>| {
                        let accepted = matches!(tcb.status(), State::SynSent | State::SynReceived | State::Established);
                        let b2 = bytes.clone();
                        let r = catch(|| tcb.send(Message::new(b2)));
                        if r.is_ok() && accepted {
                            sd_sub.extend_from_slice(&bytes);
                        }
                        r.map(|_| "ok".to_string())
                    };
                    match w.as_slice() {
                        ["write", _, len, seed] => {
                            let (Some(len), Some(seed)) = (num(len), num(seed)) else { return bad(self, out) };
                            write(tcb, &mut sd.submitted, gen_bytes(len as usize, seed))
                        }
                        ["writehex", _, h] => write(tcb, &mut sd.submitted, unhex(h)),
                        ["read", _] => catch(|| tcb.receive().to_vec()).map(|v| {
                            sd.delivered.extend_from_slice(&v);
                            format!("read {}", full(&v))
                        }),
                        ["tick", _, t] => {
                            let Some(t) = num(t) else { return bad(self, out) };
                            catch(|| tcb.advance_time(Duration::from_millis(t))).map(|r| match r {
                                AdvanceTimeResult::Ignore => "ignore".to_string(),
                                AdvanceTimeResult::CloseConnection => {
                                    sd.tcb = None;
                                    sd.listen = None;
                                    sd.released = true;
                                    "close".to_string()
                                }
                            })
                        }
                        ["emit", _] => match catch(|| tcb.segments()) {
                            Err(p) => Err(p),
                            Ok(segs) => {
                                let v: Vec<(TcpHeader, Vec<u8>)> = segs.iter().map(|s| (s.header, s.text.to_vec())).collect();
                                let s = format!("emit {} {}", hist_len, emitted_str(&v));
                                for (k, e) in v.into_iter().enumerate() {
                                    history.push(e);
                                    last_emitted.push(hist_len + k);
                                }
                                Ok(s)
                            }
                        },
                        ["close", _] => catch(|| tcb.close()).map(|r| {
                            match r {
                                CloseResult::Ok => "ok",
                                CloseResult::ConnectionClosing => "closing",
                                CloseResult::CloseConnection => "closeconn",
                            }
                            .to_string()
                        }),
                        ["abort", _] => catch(|| tcb.abort()).map(|_| {
                            sd.aborted = true;
                            "ok".to_string()
                        }),
                        _ => return bad(self, out),
                    }
                }
            }
        };
        out.count(&format!("op.{}", w[0]));
        self.cache[x as usize] = self.side(x).tcb.as_ref().and_then(|t| catch(|| t.verif_snapshot()).ok());
        match res {
            Ok(r) => {
                out.count(&format!("res.{}.{}", w[0], r.split(' ').next().unwrap_or("")));
                if let Some(s) = self.snap_ref(x) {
                    out.count(&format!("state.{}", state_str(s.state)));
                }
                self.last = r.clone();
                let (suffix, tr_ok) = if self.c03.is_some() {
                    super::c03::transition(&w, before_c03.as_ref(), self.snap_ref(x), injected.as_ref().map(|i| &i.0))
                } else {
                    (String::new(), true)
                };
                out.line(line, &format!("{} | {} {}{}", r, x.name(), self.side_str(x), suffix));
                self.check_oracles(x, &w, before, injected, out);
                if self.c03.is_some() {
                    super::c03::after_op(self, x, &w, before_c03, injected.map(|i| i.0), tr_ok, out);
                }
            }
            Err(p) => {
                let (model, func) = panic_site(&p);
                let text = source_line_text(&p.file, p.line);
                out.count(&format!("err.{}", model));
                self.last = format!("err {}", model);
                out.line(line, &self.last.clone());
                self.dead = true;
                let st = before.as_ref().map(|s| state_str(s.state)).unwrap_or("-");
                fail(out, 
                    &format!("`{}` panicked in state {}: {} ({}:{} `{}`)", line, st, p.msg, p.file, p.line, text),
                    &format!("panic {} {}", func, text),
                );
            }
        }
    }

    fn check_oracles(&mut self, x: SideId, w: &[&str], before: Option<VerifTcbSnapshot>, injected: Option<(TcpHeader, usize)>, out: &mut Out) {
        let after = self.cache[x as usize].take();
        self.check_oracles_inner(x, w, before, injected, out, &after);
        self.cache[x as usize] = after;
    }

    fn check_oracles_inner(&mut self, x: SideId, w: &[&str], before: Option<VerifTcbSnapshot>, injected: Option<(TcpHeader, usize)>, out: &mut Out, after: &Option<VerifTcbSnapshot>) {
        // ---- C01 prefix ----
        if self.oracles.prefix && !self.tainted && w[0] == "read" {
            let got = &self.side(x).delivered;
            let sent = &self.side(x.peer()).submitted;
            if !sent.starts_with(got) {
                let k = got.iter().zip(sent.iter()).take_while(|(a, b)| a == b).count();
                fail(out, 
                    &format!(
                        "bytes delivered to {} are not a prefix of the bytes submitted by {}: {} delivered, {} submitted, first difference at offset {}",
                        x.name(), x.peer().name(), got.len(), sent.len(), k
                    ),
                    "nonprefix",
                );
            }
        }
        // ---- C18 (builds with compute_checksum only): every segment the TCB emits, first
        // transmission or retransmission, verifies under RFC 1071 with its pseudo header ----
        if cfg!(feature = "compute_checksum") && w[0] == "emit" {
            let ids = x.ids();
            for i in self.last_emitted.clone() {
                let mut seg = self.history[i].0.serialize();
                seg.extend_from_slice(&self.history[i].1);
                let with = super::c08_ref::with_pseudo(ids.local.address.to_u32(), ids.remote.address.to_u32(), 6, seg.len() as u16, &seg);
                out.count("emitted_segments_checksummed");
                if !super::c08_ref::verifies(&with) {
                    let h = self.history[i].0;
                    fail(
                        out,
                        &format!("segment emitted by {} (seq={} ack={} wnd={} len={} checksum={:#06x}) does not verify under RFC 1071", x.name(), h.seq, h.ack, h.wnd, self.history[i].1.len(), h.checksum),
                        "emitted-tcp-checksum-invalid",
                    );
                }
            }
        }
        if !self.oracles.c17 {
            return;
        }
        // ---- C17 window: new data only inside [SND.UNA, SND.UNA + SND.WND) (+1 for our SYN) ----
        if w[0] == "emit" && !self.side(x).aborted {
            if let Some(s) = after {
                let (una, wnd, iss) = (s.snd.0, s.snd.2 as u64, s.snd.5);
                let syn_unacked = (una == iss) as u64;
                let emitted: Vec<usize> = self.last_emitted.clone();
                for i in emitted {
                    let (h, tlen) = (self.history[i].0, self.history[i].1.len());
                    if tlen == 0 {
                        continue;
                    }
                    let rel_end = h.seq.wrapping_sub(iss) as u64 + tlen as u64;
                    if rel_end > self.side(x).max_rel_end {
                        self.side_mut(x).max_rel_end = rel_end;
                        let off_end = h.seq.wrapping_sub(una) as u64 + tlen as u64;
                        if off_end > wnd + syn_unacked {
                            fail(out, 
                                &format!(
                                    "new data segment seq={} len={} ends {} past SND.UNA={} but the peer's window is {}",
                                    h.seq, tlen, off_end, una, wnd
                                ),
                                "window-overrun",
                            );
                        }
                    }
                }
            }
        }
        // ---- C17 unacceptable segments are no-ops ----
        if let (Some((h, len)), Some(b)) = (injected, before) {
            if unacceptable(b.state, b.rcv.1, b.rcv.2, &h, len) {
                out.count("unacceptable_segments");
                let st = state_str(b.state);
                match after {
                    None => fail(out, 
                        &format!("unacceptable segment `{}` (seq={} RCV.NXT={} wnd={}) deleted the TCB in state {}", w.join(" "), h.seq, b.rcv.1, b.rcv.2, st),
                        &format!("unacceptable-segment tcb-deleted in {}", st),
                    ),
                    Some(a) => {
                        let mut what = vec![];
                        if a.state != b.state {
                            what.push("state-changed");
                        }
                        if a.rcv != b.rcv || a.incoming_text != b.incoming_text {
                            what.push("data-changed");
                        }
                        // the reorder queue as a multiset (its array order may legitimately change)
                        let key = |v: &Vec<(TcpHeader, Vec<u8>)>| {
                            let mut k: Vec<(u32, u8, usize, u64)> = v.iter().map(|(h, t)| (h.seq, u8::from(h.ctl), t.len(), fnv(t))).collect();
                            k.sort();
                            k
                        };
                        if key(&a.incoming_segments) != key(&b.incoming_segments) {
                            what.push("queued");
                        }
                        if a.snd != b.snd || a.retransmit != b.retransmit || a.outgoing_text != b.outgoing_text {
                            what.push("send-state-changed");
                        }
                        if a.time_wait != b.time_wait {
                            what.push("timer-changed");
                        }
                        for k in what {
                            fail(out, 
                                &format!(
                                    "unacceptable segment `{}` (ctl={} seq={} len={} vs RCV.NXT={} RCV.WND={}) in state {}: {}",
                                    w.join(" "), u8::from(h.ctl), h.seq, len, b.rcv.1, b.rcv.2, st, k
                                ),
                                &format!("unacceptable-segment {} in {}", k, st),
                            );
                        }
                    }
                }
            }
        }
    }

    // -----------------------------------------------------------------------------------------
    // fair, loss-free phase and the convergence oracle (C01)
    // -----------------------------------------------------------------------------------------
    /// deliver everything in FIFO order until quiet, advance one RTO, repeat; then check that
    /// everything submitted was delivered exactly once, queues are empty, both sides silent.
    pub fn fair_phase(&mut self, pending: &mut Vec<(SideId, usize)>, out: &mut Out, max_rtos: u32, check: bool) {
        let mut rtos = 0;
        loop {
            let mut guard = 0;
            loop {
                for x in [SideId::A, SideId::B] {
                    if self.side(x).tcb.is_some() {
                        self.apply(&format!("emit {}", x.name()), out);
                        if self.dead {
                            return;
                        }
                        for i in self.last_emitted.clone() {
                            pending.push((x.peer(), i));
                        }
                    }
                }
                if pending.is_empty() {
                    break;
                }
                for (to, i) in std::mem::take(pending) {
                    self.apply(&format!("deliver {} {}", to.name(), i), out);
                    if self.dead {
                        return;
                    }
                    // responses of LISTEN/CLOSED go back to the sender
                    for j in self.last_emitted.clone() {
                        pending.push((to.peer(), j));
                    }
                }
                for x in [SideId::A, SideId::B] {
                    if self.side(x).tcb.is_some() {
                        self.apply(&format!("read {}", x.name()), out);
                    }
                }
                guard += 1;
                if guard > 20000 {
                    if check {
                        fail(out, "fair delivery never quiesces (segments keep being exchanged)", "no-quiescence");
                    }
                    return;
                }
            }
            for x in [SideId::A, SideId::B] {
                if self.snap_ref(x).map_or(false, |s| !s.incoming_text.is_empty()) {
                    self.apply(&format!("read {}", x.name()), out);
                }
            }
            let data_ok = self.b.delivered == self.a.submitted && self.a.delivered == self.b.submitted;
            let quiet = [SideId::A, SideId::B].iter().all(|x| self.snap_ref(*x).map_or(true, |s| s.retransmit.is_empty() && s.outgoing_text.is_empty()));
            if data_ok && quiet {
                out.count(&format!("converged_after_rtos.{}", rtos.min(9)));
                break;
            }
            rtos += 1;
            if rtos > max_rtos {
                if check && !self.tainted {
                    let d = |x: SideId| self.snap_ref(x).map(|s| format!("{} rtx={} unsent={} heap={}", state_str(s.state), s.retransmit.len(), s.outgoing_text.len(), s.incoming_segments.len())).unwrap_or("no TCB".into());
                    fail(out, 
                        &format!(
                            "after {} loss-free RTO rounds: A submitted {} B delivered {}; B submitted {} A delivered {}; A: {}; B: {}",
                            max_rtos, self.a.submitted.len(), self.b.delivered.len(), self.b.submitted.len(), self.a.delivered.len(), d(SideId::A), d(SideId::B)
                        ),
                        "no-convergence",
                    );
                }
                return;
            }
            for x in [SideId::A, SideId::B] {
                if self.side(x).tcb.is_some() {
                    self.apply(&format!("tick {} 150", x.name()), out);
                }
            }
        }
        // silence: nothing is emitted any more, even after a further RTO
        for x in [SideId::A, SideId::B] {
            if self.side(x).tcb.is_some() {
                self.apply(&format!("tick {} 150", x.name()), out);
                self.apply(&format!("emit {}", x.name()), out);
                if check && !self.tainted && !self.last_emitted.is_empty() {
                    fail(out, &format!("{} still transmits after everything was delivered and acknowledged", x.name()), "not-silent");
                }
            }
        }
    }
}

// ---------------------------------------------------------------------------------------------
// generator: two-endpoint schedules
// ---------------------------------------------------------------------------------------------
pub fn pick_isn(rng: &mut Rng) -> u32 {
    match rng.below(5) {
        0 | 1 => rng.next() as u32,
        2 => (rng.below(140001) as i64 - 70000) as u32,
        3 => (1u32 << 31).wrapping_add((rng.below(140001) as i64 - 70000) as u32),
        _ => u32::MAX.wrapping_sub(rng.below(70000) as u32),
    }
}
pub fn pick_mtu(rng: &mut Rng) -> u16 {
    match rng.below(10) {
        0 => 100,
        1 => 65535,
        2 => rng.range(100, 65535) as u16,
        3 => rng.range(100, 200) as u16,
        _ => rng.range(100, 1600) as u16,
    }
}
fn pick_write(rng: &mut Rng, big: bool) -> usize {
    match rng.below(16) {
        0..=3 => 1,
        4..=7 => rng.below(50) as usize,
        8..=11 => rng.below(3000) as usize,
        12..=13 => rng.below(40000) as usize,
        14 if big => rng.range(65536, 102400) as usize,
        _ => rng.below(9000) as usize,
    }
}

pub struct SchedCfg {
    pub steps: u64,
    pub closes: bool,
}

/// one random schedule followed by the fair phase
pub fn schedule_case(ex: &mut Exec, rng: &mut Rng, out: &mut Out, cfg: &SchedCfg) {
    let mtu_a = pick_mtu(rng);
    let mtu_b = if rng.chance(1, 4) { pick_mtu(rng) } else { mtu_a };
    let (iss_a, iss_b) = (pick_isn(rng), pick_isn(rng));
    let simultaneous = rng.chance(1, 4);
    let early_b = rng.chance(1, 2);
    let eager = rng.chance(1, 2);
    // keep the number of segments per case bounded (every op dumps the whole TCB): at most
    // ~`segs` segments' worth of data per case; the > 64 KiB writes need an MSS that allows them
    let mss = (mtu_a.min(mtu_b) - 50) as u64;
    let segs = if rng.chance(1, 12) { 1500 } else { 60 };
    let budget: u64 = (segs * mss).min(300_000);
    let big_budget = budget >= 110_000;
    out.count(if simultaneous { "open.simultaneous" } else { "open.active_passive" });
    ex.apply(&format!("open A {} {}", iss_a, mtu_a), out);
    if simultaneous {
        ex.apply(&format!("open B {} {}", iss_b, mtu_b), out);
    } else {
        ex.apply(&format!("listen B {} {}", iss_b, mtu_b), out);
    }
    let mut pending: Vec<(SideId, usize)> = vec![];
    let mut seed = rng.next() % 1_000_000;
    let mut written: u64 = 0;
    for _ in 0..cfg.steps {
        if ex.dead {
            return;
        }
        for x in [SideId::A, SideId::B] {
            if ex.side(x).tcb.is_some() && rng.chance(3, 4) {
                ex.apply(&format!("emit {}", x.name()), out);
                for i in ex.last_emitted.clone() {
                    pending.push((x.peer(), i));
                }
                if ex.dead {
                    return;
                }
            }
        }
        match rng.below(16) {
            0..=6 => {
                if !pending.is_empty() {
                    let k = rng.below(pending.len() as u64) as usize;
                    // mostly in order, sometimes any
                    let k = if rng.chance(2, 3) { 0 } else { k };
                    let (to, i) = if rng.chance(1, 6) { pending[k] } else { pending.remove(k) };
                    ex.apply(&format!("deliver {} {}", to.name(), i), out);
                    for j in ex.last_emitted.clone() {
                        pending.push((to.peer(), j));
                    }
                }
            }
            7 => {
                if !pending.is_empty() {
                    let k = rng.below(pending.len() as u64) as usize;
                    pending.remove(k);
                    out.count("net.drop");
                }
            }
            8 | 9 => {
                let d = if rng.chance(1, 3) { 150 } else { 5 };
                for x in [SideId::A, SideId::B] {
                    if ex.side(x).tcb.is_some() {
                        ex.apply(&format!("tick {} {}", x.name(), d), out);
                    }
                }
            }
            10 if cfg.closes && rng.chance(1, 4) => {
                let x = if rng.chance(1, 2) { SideId::A } else { SideId::B };
                ex.apply(&format!("close {}", x.name()), out);
            }
            10..=12 => {
                let x = if rng.chance(1, 2) { SideId::A } else { SideId::B };
                if let Some(s) = ex.snap(x) {
                    let ok = matches!(s.state, State::SynSent | State::SynReceived | State::Established);
                    if ok && (x == SideId::A || early_b || s.state == State::Established) && written < budget {
                        let n = pick_write(rng, big_budget).min((budget - written) as usize);
                        seed += 1;
                        written += n as u64;
                        if n > 65535 {
                            out.count("write.over_64k");
                        }
                        if s.state != State::Established {
                            out.count("write.before_established");
                        }
                        ex.apply(&format!("write {} {} {}", x.name(), n, seed), out);
                    }
                }
            }
            _ => {
                if eager || rng.chance(1, 4) {
                    for x in [SideId::A, SideId::B] {
                        if ex.side(x).tcb.is_some() {
                            ex.apply(&format!("read {}", x.name()), out);
                        }
                    }
                }
            }
        }
    }
    if ex.dead {
        return;
    }
    ex.fair_phase(&mut pending, out, 60, !cfg.closes);
}

pub const RULE: &str = "two real Tcbs (active/passive or simultaneous open, MTU 100..65535, ISNs uniform and dense near 0/2^31/2^32), random interleaving of writes 1 B..100 KB (before and after ESTABLISHED), eager/late reads, 5/150 ms ticks, deliver-any/duplicate/drop, then a loss-free phase (deliver all until quiet, advance one RTO, repeat); every op's result and the full TCB snapshot are compared with the Lean model; a case is non-trivial if it delivered application data in at least one direction; distinct = hash of its op lines";

pub fn replay(args: &Args, out: &mut Out, oracles: Oracles) {
    let mut ex = Exec::new(oracles);
    out.begin_case(0);
    out.mark_nontrivial();
    for l in read_ops(args.replay.as_ref().unwrap()) {
        if l.starts_with("case ") {
            continue;
        }
        ex.apply(&l, out);
    }
    out.end_case();
}

pub fn run(args: &Args) {
    let mut out = Out::new(&args.out);
    out.max_failures = 40;
    if args.replay.is_some() {
        replay(args, &mut out, Oracles { prefix: true, c17: true });
        out.finish(RULE);
        return;
    }
    let steps: u64 = args.extra.get("steps").and_then(|s| s.parse().ok()).unwrap_or(250);
    let closes = args.extra.get("closes").map(|s| s == "1").unwrap_or(false);
    let mut rng = Rng::new(args.seed);
    for c in 0..args.cases {
        let mut r = rng.fork();
        let mut ex = Exec::new(Oracles { prefix: true, c17: true });
        out.begin_case(c);
        schedule_case(&mut ex, &mut r, &mut out, &SchedCfg { steps, closes });
        if !ex.a.delivered.is_empty() || !ex.b.delivered.is_empty() {
            out.mark_nontrivial();
        }
        out.count_n("bytes.submitted", (ex.a.submitted.len() + ex.b.submitted.len()) as u64);
        out.end_case();
    }
    out.finish(RULE);
}
