import ElvisVerif.Lemmas.ShiftBlocks
/-!
# `process_segment` commutes with the shift map (C12)

Composition of the six block lemmas.  The side condition block 4 needs is discharged from one
hypothesis on the TCB the segment meets:

* `SynSentFresh` — in SYN-SENT nothing is acknowledged yet and only the SYN was sent
  (an invariant of every TCB made by `open`, `Lemmas/ShiftInv.lean`).

(Before the repair of F-C12-2 a second hypothesis excluded a FIN processed in SYN-SENT /
SYN-RECEIVED, where `SND.WL2` held an absolute number; see `notes/C12.md`.)

Results are compared up to `psNorm` (`ConnectionReset` ≃ `BlindReset`).
-/
namespace Elvis.Tcp
open Elvis.ModCmp
variable (ka kb : Seq)

/-- a TCB in SYN-SENT is as `open` made it: nothing acknowledged, only the SYN sent, the peer's
    window not yet known -/
def SynSentFresh (s : Tcb) : Prop :=
  s.state = .SynSent → s.snd.una = s.snd.iss ∧ s.snd.nxt = s.snd.iss + 1 ∧ s.snd.wnd = 0

theorem enqueueThen_state (s : Tcb) (hb : Hdr) (r : Option ProcessSegmentResult) (u : Tcb)
    (r' : Option ProcessSegmentResult)
    (h : Tcb.enqueueThen s hb (fun s => .ok (s, r)) = .ok (u, r')) : u.state = s.state ∧ u.snd = s.snd ∧ r' = r := by
  rw [Tcb.enqueueThen_eq] at h
  cases h
  exact ⟨(Tcb.enqueueBuilt_frame _ _).2.2.2.2.1, (Tcb.enqueueBuilt_frame _ _).2.2.1, rfl⟩

theorem seqCheck_none (s u : Tcb) (seg : Hdr) (tl : Seq) (h : Tcb.seqCheck s seg tl = .ok (u, none)) : u = s := by
  unfold Tcb.seqCheck at h
  split at h
  · cases h; rfl
  · split at h
    · cases h
    · cases h; rfl
    · have := enqueueThen_state _ _ _ _ _ h
      cases this.2.2

theorem rstBlock_none (s u : Tcb) (seg : Hdr) (h : Tcb.rstBlock s seg = .ok (u, none)) : u = s := by
  unfold Tcb.rstBlock at h
  split at h
  · cases h; rfl
  · split at h <;> first
      | (cases h; done)
      | (split at h <;> first | (cases h; done) | (split at h <;> cases h))

theorem synBlock_none (s u : Tcb) (seg : Hdr) (h : Tcb.synBlock s seg = .ok (u, none)) :
    u.state ≠ .SynSent ∧ (s.state ≠ .SynSent → u = s) := by
  unfold Tcb.synBlock at h
  split at h
  · split at h
    · cases h
    · cases h; rename_i hs; exact ⟨hs, fun _ => rfl⟩
  · split at h
    · dsimp only at h
      split at h
      · have := enqueueThen_state _ _ _ _ _ h
        rename_i hs _
        exact ⟨(by rw [this.1]; intro hh; cases hh), fun hn => absurd hs hn⟩
      · have := enqueueThen_state _ _ _ _ _ h
        cases this.2.2
    · have := enqueueThen_state _ _ _ _ _ h
      cases this.2.2


theorem textBlock_state (s u : Tcb) (seg : Hdr) (text : List UInt8) (tl : Seq) (r : Option ProcessSegmentResult)
    (h : Tcb.textBlock s seg text tl = .ok (u, r)) : u.state = s.state := by
  unfold Tcb.textBlock at h
  simp only [Tcb.enqueueThen_eq] at h
  repeat' (split at h)
  all_goals first
    | (cases h; done)
    | (cases h; rfl)
    | (cases h; exact (Tcb.enqueueBuilt_frame _ _).2.2.2.2.1)

/-! ### what the ACK block does to the state -/

theorem afterAck_inv (t : Tcb) (seg : Hdr) (k : Tcb → ProcessSegmentResult → Tcb.B) (u : Tcb)
    (r : Option ProcessSegmentResult)
    (h : Tcb.afterAckEstablished (t.ackEstablishedProcessing seg) k = .ok (u, r)) :
    ∃ v r0, v.state = t.state ∧ k v r0 = .ok (u, r) := by
  unfold Tcb.afterAckEstablished at h
  cases hx : t.ackEstablishedProcessing seg with
  | error e => rw [hx] at h; cases h
  | ok q =>
    obtain ⟨v, r0⟩ := q
    rw [hx] at h
    exact ⟨v, r0, ackEstablished_state t seg v r0 hx, h⟩

/-- the only state changes of block 2 -/
theorem ackBlock_state (s u : Tcb) (seg : Hdr) (r : Option ProcessSegmentResult)
    (h : Tcb.ackBlock s seg = .ok (u, r)) :
    u.state = s.state ∨ (s.state = .SynReceived ∧ u.state = .Established) ∨
      (s.state = .FinWait1 ∧ u.state = .FinWait2) ∨ (s.state = .Closing ∧ u.state = .TimeWait) := by
  unfold Tcb.ackBlock at h
  split at h
  · cases h; exact Or.inl rfl
  · obtain ⟨lp, rp, mtu, ini, st, snd, rcv, out, inc, tmo⟩ := s
    cases st
    case SynSent =>
      dsimp only at h
      repeat' (split at h)
      all_goals first
        | (cases h; exact Or.inl rfl)
        | (have := enqueueThen_state _ _ _ _ _ h; exact Or.inl this.1)
    case SynReceived =>
      dsimp only at h
      split at h
      · obtain ⟨v, r0, hv, hk⟩ := afterAck_inv _ _ _ _ _ h
        split at hk <;> (cases hk; exact Or.inr (Or.inl ⟨rfl, hv⟩))
      · have := enqueueThen_state _ _ _ _ _ h; exact Or.inl this.1
    case Established | FinWait2 | CloseWait =>
      obtain ⟨v, r0, hv, hk⟩ := afterAck_inv _ _ _ _ _ h
      split at hk <;> (cases hk; exact Or.inl hv)
    case FinWait1 =>
      obtain ⟨v, r0, hv, hk⟩ := afterAck_inv _ _ _ _ _ h
      dsimp only at hk
      by_cases cf : v.isFinAcked = true
      · rw [if_pos cf] at hk
        split at hk <;> (cases hk; exact Or.inr (Or.inr (Or.inl ⟨rfl, rfl⟩)))
      · rw [if_neg cf] at hk
        split at hk <;> (cases hk; exact Or.inl hv)
    case Closing =>
      obtain ⟨v, r0, hv, hk⟩ := afterAck_inv _ _ _ _ _ h
      dsimp only at hk
      by_cases cf : v.isFinAcked = true
      · rw [if_pos cf] at hk
        split at hk <;> (cases hk; exact Or.inr (Or.inr (Or.inr ⟨rfl, rfl⟩)))
      · rw [if_neg cf] at hk
        split at hk <;> (cases hk; exact Or.inl hv)
    case LastAck =>
      obtain ⟨v, r0, hv, hk⟩ := afterAck_inv _ _ _ _ _ h
      split at hk
      · cases hk; exact Or.inl hv
      · split at hk <;> (cases hk; exact Or.inl hv)
    case TimeWait =>
      cases h
      exact Or.inl rfl

theorem bounded_one (a b : Seq) (h : modBounded a .Lt b .Leq (a + 1) = true) : b = a + 1 := by
  unfold modBounded at h
  rw [cyc_iff] at h
  simp only [Cmp.offset] at h
  have e1 : a - 0 = a := by simp
  have e2 : a + 1 + 1 - a = 2#32 := by bv_omega
  rw [e1, e2] at h
  have h2 : (2#32 : BitVec 32).toNat = 2 := rfl
  rw [h2] at h
  have : b - a = 1#32 := BitVec.eq_of_toNat_eq (by simp only [BitVec.toNat_ofNat]; omega)
  bv_omega

theorem modGt_succ (a : Seq) : modGt (a + 1) a = true := by
  unfold modGt
  rw [modLt_iff]
  have e : a + 1 - a = 1#32 := by bv_omega
  rw [e]; decide

theorem modGt_self (a : Seq) : modGt a a = false := by
  unfold modGt
  rw [Bool.eq_false_iff, Ne, modLt_iff]
  simp

/-- on a fresh SYN-SENT TCB: if block 2 lets a SYN segment through, our SYN is acknowledged
    exactly when the segment carries an ACK -/
theorem ackBlock_fresh (s u : Tcb) (seg : Hdr) (hF : SynSentFresh s)
    (h : Tcb.ackBlock s seg = .ok (u, none)) (hu : u.state = .SynSent) (hsyn : seg.ctl.syn = true) :
    modGt u.snd.una u.snd.iss = seg.ctl.ack := by
  have hs : s.state = .SynSent := by
    rcases ackBlock_state s u seg none h with e | ⟨_, e2⟩ | ⟨_, e2⟩ | ⟨_, e2⟩
    · rw [← e]; exact hu
    all_goals (rw [hu] at e2; cases e2)
  obtain ⟨h1, h2, _⟩ := hF hs
  unfold Tcb.ackBlock at h
  split at h
  · rename_i hack
    cases h
    rw [h1, modGt_self]
    simpa using hack
  · rename_i hack
    have ha : seg.ctl.ack = true := by simpa using hack
    rw [hs] at h
    dsimp only at h
    split at h
    · split at h
      · cases h
      · have := enqueueThen_state _ _ _ _ _ h; cases this.2.2
    · split at h
      · rename_i hb
        rw [h1, h2] at hb
        have hb' := bounded_one _ _ hb
        cases h
        show modGt seg.ack s.snd.iss = seg.ctl.ack
        rw [hb', modGt_succ, ha]
      · have := enqueueThen_state _ _ _ _ _ h; cases this.2.2


/-! ## composition -/

def normM (x : M ProcessSegmentResult) : M ProcessSegmentResult :=
  match x with
  | .error e => .error e
  | .ok (s, r) => .ok (s, psNorm r)

/-- the last lines of `process_segment`: an early `return r`, or `Success` -/
def finish (r : Tcb.B) : M ProcessSegmentResult :=
  match r with
  | .error e => .error e
  | .ok (s, some r) => .ok (s, r)
  | .ok (s, none) => .ok (s, .Success)

theorem andThen_inv (x : Tcb.B) (f : Tcb → Tcb.B) (u : Tcb) (h : x.andThen f = .ok (u, none)) :
    ∃ v, x = .ok (v, none) ∧ f v = .ok (u, none) := by
  unfold Tcb.B.andThen at h
  split at h
  · cases h
  · cases h
  · exact ⟨_, rfl, h⟩

theorem andThen_shift_norm (x x' : Tcb.B) (f f' : Tcb → Tcb.B)
    (hx : normB x' = normB (M.shift ka kb x))
    (hf : ∀ u, x = .ok (u, none) → normB (f' (u.shift ka kb)) = normB (M.shift ka kb (f u))) :
    normB (x'.andThen f') = normB (M.shift ka kb (x.andThen f)) := by
  cases x with
  | error e =>
    cases x' with
    | error e' => exact hx
    | ok q => obtain ⟨t, r⟩ := q; cases hx
  | ok q =>
    obtain ⟨u, r⟩ := q
    cases x' with
    | error e' => cases hx
    | ok q' =>
      obtain ⟨t, r'⟩ := q'
      have ht : t = u.shift ka kb := by
        have := hx; simp only [normB, M.shift] at this
        injection this with this
        exact (Prod.mk.inj this).1
      subst ht
      cases r with
      | none =>
        cases r' with
        | none => exact hf u rfl
        | some r1 => simp [normB, M.shift] at hx
      | some r0 =>
        cases r' with
        | none => simp [normB, M.shift] at hx
        | some r1 => exact hx

theorem finish_norm (x x' : Tcb.B) (hx : normB x' = normB (M.shift ka kb x)) :
    normM (finish x') = normM (M.shift ka kb (finish x)) := by
  cases x with
  | error e =>
    cases x' with
    | error e' => simp only [normB, M.shift] at hx; injection hx with hx; subst hx; rfl
    | ok q => obtain ⟨t, r⟩ := q; cases hx
  | ok q =>
    obtain ⟨u, r⟩ := q
    cases x' with
    | error e' => cases hx
    | ok q' =>
      obtain ⟨t, r'⟩ := q'
      simp only [normB, M.shift] at hx
      injection hx with hx
      obtain ⟨h1, h2⟩ := Prod.mk.inj hx
      subst h1
      cases r <;> cases r' <;> simp [Option.map] at h2
      · rfl
      · simp only [finish, M.shift, normM, h2]

theorem processSegment_eq (s : Tcb) (segment : Segment) :
    Tcb.processSegment s segment =
      finish ((((((Tcb.seqCheck s segment.hdr (BitVec.ofNat 32 segment.text.length)).andThen
        fun s => Tcb.ackBlock s segment.hdr).andThen fun s => Tcb.rstBlock s segment.hdr).andThen
        fun s => Tcb.synBlock s segment.hdr).andThen
        fun s => Tcb.textBlock s segment.hdr segment.text (BitVec.ofNat 32 segment.text.length)).andThen
        fun s => Tcb.finBlock s segment.hdr (BitVec.ofNat 32 segment.text.length)) := rfl

theorem shift_processSegment (s : Tcb) (seg : Segment) (hF : SynSentFresh s) :
    normM (Tcb.processSegment (s.shift ka kb) (seg.shift kb ka)) =
      normM (M.shift ka kb (Tcb.processSegment s seg)) := by
  rw [processSegment_eq, processSegment_eq]
  refine finish_norm ka kb _ _ ?_
  rw [Segment.shift_hdr, Segment.shift_text]
  refine andThen_shift_norm ka kb _ _ _ _ ?_ ?_
  · refine andThen_shift_norm ka kb _ _ _ _ ?_ ?_
    · refine andThen_shift_norm ka kb _ _ _ _ ?_ ?_
      · refine andThen_shift_norm ka kb _ _ _ _ ?_ ?_
        · refine andThen_shift_norm ka kb _ _ _ _ ?_ ?_
          · exact congrArg normB (shift_seqCheck ka kb s seg.hdr _)
          · intro u _; exact congrArg normB (shift_ackBlock ka kb u seg.hdr)
        · intro u _; exact shift_rstBlock_norm ka kb u seg.hdr
      · intro u hu
        obtain ⟨v, hv, hr⟩ := andThen_inv _ _ _ hu
        have e1 := rstBlock_none _ _ _ hr; subst e1
        obtain ⟨w, hw, ha⟩ := andThen_inv _ _ _ hv
        have e2 := seqCheck_none _ _ _ _ hw; subst e2
        exact congrArg normB (shift_synBlock ka kb u seg.hdr
          (fun hs hsyn => ackBlock_fresh w u seg.hdr hF ha hs hsyn))
    · intro u hu
      obtain ⟨v, _, hsy⟩ := andThen_inv _ _ _ hu
      exact congrArg normB (shift_textBlock ka kb u seg.hdr seg.text _ (synBlock_none v u seg.hdr hsy).1)
  · intro u _
    exact congrArg normB (shift_finBlock ka kb u seg.hdr _)

end Elvis.Tcp
