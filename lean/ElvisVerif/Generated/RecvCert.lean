-- GENERATED from protocols/{ipv4,udp,tcp}.rs, pci/pci_session.rs, message.rs by tools/extract.py; do not edit
namespace Elvis.Gen.Recv
/-- `message.remove_front(N)` in `Tcp::demux` -/
def tcpDemuxStrip : Nat := 20
/-- `ProtocolNumber::TCP` -/
def ipv4ProtoTcp : Nat := 6
/-- `header.ihl as u32 * N` (fragment guard) -/
def fragGuardWord : Nat := 4
/-- `header.fragment_offset as u32 * N` (fragment guard) -/
def fragGuardUnit : Nat := 8
end Elvis.Gen.Recv
