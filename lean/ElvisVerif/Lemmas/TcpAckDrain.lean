import ElvisVerif.Lemmas.TcpAckProc
import ElvisVerif.Lemmas.TcpAckEarly
import ElvisVerif.Lemmas.ShiftInv
/-!
# `segment_arrives`: ACK numbers issued and ACK numbers received

The endpoint in both roles at once:

* as **acknowledger** of the peer's data (`base` = peer's ISS, `N` = sequence numbers the peer has
  used): `AStep` of `Lemmas/TcpAckProc.lean`;
* as **receiver of ACKs** for its own data (`own` = its ISS, `R` = what the peer has received,
  `R ≤ SND.NXT − ISS`): `AckRcv own R s` — `SND.UNA ≤ own + R`, and the pre-synchronised states are
  as fresh as `open` / LISTEN made them.  If every ACK field it meets lies in `[own + 1, own + R]`
  (`AckLe own R`), `AckRcv` is kept and the ACK test of block 2 never fails (`goodAck_of`): no RST
  is queued.
-/
namespace Elvis.Tcp
open Elvis.ModCmp
namespace Tcb

/-! ## arithmetic -/

theorem off_eq_one {base x : Seq} (h : off base x = 1) : x = base + 1 := by
  unfold off at h
  have e : x - base = 1 := by
    apply BitVec.eq_of_toNat_eq
    rw [h]; rfl
  bv_omega

/-- `UNA < ACK =< NXT` from the offsets -/
theorem bounded_of_off (base una ack nxt : Seq) (hn : off base nxt < 2147483648)
    (h1 : off base una < off base ack) (h2 : off base ack ≤ off base nxt) :
    modBounded una .Lt ack .Leq nxt = true := by
  unfold modBounded
  rw [cyc_iff]
  simp only [Cmp.offset]
  have e0 : una - 0 = una := by bv_omega
  have e2 : nxt + 1 - una = (nxt - una) + 1 := by bv_omega
  rw [e0, e2]
  have d1 := sub_toNat_off base ack una (by omega)
  have d2 := sub_toNat_off base nxt una (by omega)
  have h1' : ((nxt - una) + 1).toNat = (nxt - una).toNat + 1 := by
    have h1'' : (1 : BitVec 32).toNat = 1 := rfl
    simp only [BitVec.toNat_add, h1'']
    omega
  rw [h1', d1, d2]
  omega

theorem bounded_succ (iss : Seq) : modBounded iss .Lt (iss + 1) .Leq (iss + 1) = true := by
  have o1 : off iss (iss + 1) = 1 := by rw [off_add_one _ _ (by rw [off_self]; omega), off_self]
  exact bounded_of_off iss iss (iss + 1) (iss + 1) (by rw [o1]; omega) (by rw [off_self, o1]; omega) (Nat.le_refl _)

/-! ## the endpoint as receiver of ACKs -/

structure AckRcv (own : Seq) (R : Nat) (s : Tcb) : Prop where
  fresh : SynSentFresh s
  rcvd : s.state = .SynReceived → s.snd.una = s.snd.iss
  iss : s.snd.iss = own
  una : off own s.snd.una ≤ R
  sent : R ≤ s.sent ∧ s.sent < 2147483648

theorem AckRcv.early {own : Seq} {R : Nat} {s : Tcb} (h : AckRcv own R s) : Early s :=
  ⟨fun hs => ⟨(h.fresh hs).2.1, Or.inl (h.fresh hs).1⟩, h.rcvd⟩

/-- `AckRcv` reads the state and SND.* only -/
theorem AckRcv.congr {own : Seq} {R : Nat} {s s' : Tcb} (h : AckRcv own R s) (h1 : s'.state = s.state)
    (h2 : s'.snd = s.snd) : AckRcv own R s' := by
  refine ⟨fun hs => ?_, fun hs => ?_, by rw [h2]; exact h.iss, by rw [h2]; exact h.una, ?_⟩
  · rw [h2]; exact h.fresh (h1 ▸ hs)
  · rw [h2]; exact h.rcvd (h1 ▸ hs)
  · have : s'.sent = s.sent := sent_congr (by rw [h2]) (by rw [h2])
    rw [this]; exact h.sent

/-- **no RST for an unacceptable ACK**: an ACK field in `[own + 1, own + R]` passes the test of
    block 2 in SYN-SENT and SYN-RECEIVED -/
theorem goodAck_of {own : Seq} {R : Nat} {s : Tcb} {seg : Hdr} (hr : AckRcv own R s) (ha : AckLe own R seg) :
    GoodAck s seg := by
  intro hf
  obtain ⟨h1, h2⟩ := ha hf
  have hsent := hr.sent
  refine ⟨fun hst => ?_, fun hst => ?_⟩
  · obtain ⟨hu, hn, _⟩ := hr.fresh hst
    have hs1 : s.sent = 1 := by
      unfold sent; rw [hn, off_add_one _ _ (by rw [off_self]; omega), off_self]
    have h1' : off s.snd.iss seg.ack = 1 := by rw [hr.iss]; omega
    have hack : seg.ack = s.snd.iss + 1 := off_eq_one h1'
    rw [hu, hn, hack]
    exact ⟨not_bounded_self _ _, bounded_succ _⟩
  · have hu := hr.rcvd hst
    rw [hu]
    have hnx : off own s.snd.nxt = s.sent := by unfold Tcb.sent; rw [hr.iss]
    refine bounded_of_off own _ _ _ (by rw [hnx]; exact hsent.2) ?_ ?_
    · have : off own s.snd.iss = 0 := by rw [hr.iss]; exact off_self _
      omega
    · omega

/-- one segment keeps `AckRcv` (given where SND.UNA may have moved to) -/
theorem processSegment_ackRcv {own : Seq} {R : Nat} (s : Tcb) (segment : Segment) (s' : Tcb)
    (r : ProcessSegmentResult) (e : s.processSegment segment = .ok (s', r)) (hd : r.shouldDeleteTcb = false)
    (hr : AckRcv own R s)
    (hu : s'.snd.una = s.snd.una ∨ (1 ≤ off own s'.snd.una ∧ off own s'.snd.una ≤ R)) : AckRcv own R s' := by
  have k := processSegment_snd s segment s' r e
  have hs : s'.sent = s.sent := sent_congr k.iss k.nxt
  have he := processSegment_early s segment s' r e hr.early
  refine ⟨fun hst => ?_, he.synRcvd, by rw [k.iss]; exact hr.iss, ?_, by rw [hs]; exact hr.sent⟩
  · have hst0 : s.state = .SynSent := (trk_processSegment s s' segment r e).synsent hst
    have := processSegment_synSent s s' segment r hst0 e hd hst
    rw [this]; exact hr.fresh hst0
  · rcases hu with hu | hu
    · rw [hu]; exact hr.una
    · exact hu.2

/-! ## the loop of `segment_arrives` -/

theorem drain_ack (fuel : Nat) (s s' : Tcb) (r : SegmentArrivesResult) (e : drain fuel s = .ok (s', r))
    (base : Seq) (N : Nat) (hN : N < 2147483648) (hb : RcvBelow base N s)
    (hpos : s.state ≠ .SynSent → 1 ≤ off base s.rcv.nxt)
    (hh : ∀ σ ∈ s.incoming.segments, SegBelow base N σ)
    (own : Seq) (R : Nat) (hr : AckRcv own R s) (hha : ∀ σ ∈ s.incoming.segments, AckLe own R σ.hdr) :
    r = .Ok → AStep base N False (fun v => 1 ≤ off own v ∧ off own v ≤ R) s s' ∧
      (∀ σ ∈ s'.incoming.segments, SegBelow base N σ) ∧ AckRcv own R s' := by
  induction fuel generalizing s with
  | zero =>
    unfold drain at e; cases e
    exact fun _ => ⟨AStep.refl hb hpos, hh, hr⟩
  | succ n ih =>
    unfold drain at e
    split at e
    · cases e; exact fun _ => ⟨AStep.refl hb hpos, hh, hr⟩
    · rename_i top hpeek
      split at e
      · cases e; exact fun _ => ⟨AStep.refl hb hpos, hh, hr⟩
      · rename_i hgate
        obtain ⟨rest, hpop⟩ := LHeap.pop_of_peek (le := segLe) hpeek
        rw [hpop] at e
        dsimp only at e
        have hmem := LHeap.mem_of_mem_pop hpop
        cases hp : processSegment { s with incoming.segments := rest } top with
        | error err => rw [hp] at e; simp at e
        | ok p1 =>
          obtain ⟨s1, r1⟩ := p1
          rw [hp] at e
          dsimp only at e
          have g : s.state ≠ .SynSent → modGt top.hdr.seq s.rcv.nxt = false := by
            intro hs
            cases hm : modGt top.hdr.seq s.rcv.nxt with
            | false => rfl
            | true => exact absurd (by simp [hs, hm]) hgate
          have hr0 : AckRcv own R ({ s with incoming.segments := rest } : Tcb) := hr.congr rfl rfl
          have a0 := processSegment_ack { s with incoming.segments := rest } top s1 r1 hp base N hN hb hpos
              (hh top hmem.1) g (fun v => 1 ≤ off own v ∧ off own v ≤ R) (hha top hmem.1)
          have a1 : AStep base N False (fun v => 1 ≤ off own v ∧ off own v ≤ R) s s1 :=
            ⟨⟨a0.rcv.below, a0.rcv.mono, a0.rcv.notBack⟩, a0.pos,
              QStep.of_eq_left (t := { s with incoming.segments := rest }) rfl rfl rfl
                (a0.imp (fun hbad => hbad (goodAck_of hr0 (hha top hmem.1)))).q⟩
          split at e
          · cases e; exact fun h => by simp at h
          · rename_i hdel
            have hdel' : r1.shouldDeleteTcb = false := by simpa using hdel
            have hr1 : AckRcv own R s1 := processSegment_ackRcv _ top s1 r1 hp hdel' hr0 a0.q.una
            have heap1 : s1.incoming.segments = rest := processSegment_heap _ _ _ _ hp
            intro hres
            obtain ⟨a2, hh2, hr2⟩ := ih s1 e a1.rcv.below a1.pos
              (fun σ hσ => by rw [heap1] at hσ; exact hh σ (hmem.2 σ hσ)) hr1
              (fun σ hσ => by rw [heap1] at hσ; exact hha σ (hmem.2 σ hσ)) hres
            exact ⟨a1.trans a2, hh2, hr2⟩

/-- **`segment_arrives`**, both roles: with the arriving segment and everything parked below
    `base + N`, all their ACK fields in `[own + 1, own + R]`: every header queued meanwhile
    acknowledges a number in `[base + 1, RCV.NXT']` and is no RST; `SND.UNA` stays `≤ own + R` -/
theorem segmentArrives_ack (s : Tcb) (segment : Segment) (s' : Tcb)
    (e : s.segmentArrives segment = .ok (s', .Ok))
    (base : Seq) (N : Nat) (hN : N < 2147483648) (hb : RcvBelow base N s)
    (hpos : s.state ≠ .SynSent → 1 ≤ off base s.rcv.nxt)
    (hseg : SegBelow base N segment) (hh : ∀ σ ∈ s.incoming.segments, SegBelow base N σ)
    (own : Seq) (R : Nat) (hr : AckRcv own R s) (hsa : AckLe own R segment.hdr)
    (hha : ∀ σ ∈ s.incoming.segments, AckLe own R σ.hdr) :
    AStep base N False (fun v => 1 ≤ off own v ∧ off own v ≤ R) s s' ∧
      (∀ σ ∈ s'.incoming.segments, SegBelow base N σ) ∧ AckRcv own R s' := by
  unfold segmentArrives at e
  dsimp only at e
  split at e
  · simp at e
  · rename_i hacc
    have hst : s.state ≠ .SynSent := by
      intro h; rw [if_pos h] at hacc; cases hacc
    rw [enqueue_eq] at e
    cases e
    have rc : (s.enqueueBuilt s.ackHdr.built).rcv = s.rcv := (enqueueBuilt_frame _ _).2.1
    have pos' : (s.enqueueBuilt s.ackHdr.built).state ≠ .SynSent → 1 ≤ off base (s.enqueueBuilt s.ackHdr.built).rcv.nxt := by
      intro _; rw [rc]; exact hpos hst
    refine ⟨AStep.of_same hb hpos rc (by rw [state_enqueueBuilt]) (qstep_enqueue _ _ (ackP_new
      (newHdr_ackHdr _ _ (by rw [rc]) (by rw [state_enqueueBuilt]; exact hst)) pos')), ?_,
      hr.congr (state_enqueueBuilt _ _) (enqueueBuilt_frame _ _).2.2.1⟩
    rw [(enqueueBuilt_frame _ _).2.2.2.1]; exact hh
  · have t0 := drain_ack _ { s with incoming.segments := LHeap.push segLe s.incoming.segments segment } s' _ e
      base N hN hb hpos (fun σ hσ => by
        rcases LHeap.mem_push.1 hσ with rfl | h
        · exact hseg
        · exact hh σ h) own R (hr.congr rfl rfl) (fun σ hσ => by
        rcases LHeap.mem_push.1 hσ with rfl | h
        · exact hsa
        · exact hha σ h) rfl
    exact ⟨⟨⟨t0.1.rcv.below, t0.1.rcv.mono, t0.1.rcv.notBack⟩, t0.1.pos,
      QStep.of_eq_left (t := { s with incoming.segments := LHeap.push segLe s.incoming.segments segment })
        rfl rfl rfl t0.1.q⟩, t0.2.1, t0.2.2⟩

end Tcb
end Elvis.Tcp
