#!/usr/bin/env python3
"""Source -> Lean extraction (run on every check).

Reads /repo's *current* Rust sources and (re)writes lean/ElvisVerif/Generated/*.lean:
numeric constants, the one-expression arithmetic kernels, and structural certificates.
Fails closed: anything it cannot translate is an error (reported by ./check as a broken tie).
Files are rewritten only when their content changes, so Lean's build cache stays valid.
"""
import os, re, sys

REPO = os.environ.get("ELVIS_REPO") or os.path.normpath(os.path.join(os.path.dirname(os.path.abspath(__file__)), "..", "..", "repo"))
CORE = os.path.join(REPO, "sim", "elvis-core", "src")
ELVIS = os.path.join(REPO, "sim", "elvis", "src")
OUT = os.path.join(os.path.dirname(os.path.abspath(__file__)), "..", "lean", "ElvisVerif", "Generated")


class ExtractError(Exception):
    pass


def read(path):
    with open(path) as f:
        return f.read()


def strip_comments(src):
    src = re.sub(r"/\*.*?\*/", "", src, flags=re.S)
    return re.sub(r"//[^\n]*", "", src)


def write_if_changed(name, text):
    p = os.path.join(OUT, name)
    os.makedirs(OUT, exist_ok=True)
    if os.path.exists(p) and read(p) == text:
        return
    with open(p, "w") as f:
        f.write(text)


def check_message_immutability():
    """C07 structural certificate: message/ holds no unsafe code, no in-place mutation of shared
    chunk storage and no interior mutability."""
    bad = []
    files = [os.path.join(CORE, "message.rs")] + [os.path.join(CORE, "message", f) for f in sorted(os.listdir(os.path.join(CORE, "message")))]
    for p in files:
        src = strip_comments(read(p)).split("#[cfg(test)]")[0]
        for tok in ("unsafe", "get_mut(", "make_mut(", "RefCell", "Cell<", "Mutex", "RwLock", "Atomic", "as_mut_ptr", "get_mut_unchecked"):
            if tok in src:
                bad.append(f"{os.path.relpath(p, REPO)}: `{tok}`")
    if bad:
        raise ExtractError("message/ is no longer evidently immutable-by-construction: " + "; ".join(bad))


def fn_body(src, start):
    """text of the brace-balanced block that starts at the first '{' at or after `start`"""
    j = src.index("{", start)
    d = 0
    for k in range(j, len(src)):
        if src[k] == "{":
            d += 1
        elif src[k] == "}":
            d -= 1
            if d == 0:
                return src[j:k + 1]
    raise ExtractError("unbalanced braces")


SEND_LIKE = ["send(", "send_pci(", ".open(", "open_and_listen(", "open_for_sending(", "connect(", "spawn(", "send_message(", "send_to(", "resolve("]


def gen_sim_cert():
    """C13: per `Protocol::start` implementation: number of barrier waits and whether a
    frame-producing call precedes the wait; barrier sizing; shutdown channel capacity; outer
    timeout slack."""
    import glob
    rows = []
    files = sorted(glob.glob(os.path.join(CORE, "**", "*.rs"), recursive=True) + glob.glob(os.path.join(ELVIS, "**", "*.rs"), recursive=True))
    for p in files:
        src = strip_comments(read(p))
        if "impl Protocol for" not in src:
            continue
        for m in re.finditer(r"impl\s+Protocol\s+for\s+([A-Za-z0-9_<>:, ]+?)\s*\{", src):
            impl = fn_body(src, m.end() - 1)
            sm = re.search(r"async\s+fn\s+start\s*\(", impl)
            if not sm:
                raise ExtractError(f"{p}: impl Protocol for {m.group(1)} has no async fn start")
            sig_end = impl.index(")", sm.end())
            # skip to the body: first '{' after the return type
            body = fn_body(impl, impl.index("StartError", sig_end))
            waits = len(re.findall(r"\.wait\(\)\s*\.await", body))
            pre = re.split(r"\.wait\(\)\s*\.await", body)[0] if waits else body
            send_before = any(t in pre for t in SEND_LIKE)
            name = os.path.relpath(p, os.path.join(REPO, "sim")) + "::" + re.sub(r"\s+", "", m.group(1))
            rows.append((name, waits, send_before))
    if len(rows) < 10:
        raise ExtractError("found suspiciously few Protocol implementations: %d" % len(rows))
    inet = re.sub(r"\s+", " ", strip_comments(read(os.path.join(CORE, "internet.rs"))))
    mach = re.sub(r"\s+", " ", strip_comments(read(os.path.join(CORE, "machine.rs"))))
    shut = re.sub(r"\s+", " ", strip_comments(read(os.path.join(CORE, "shutdown.rs"))))
    sized = bool(re.search(r"let total_protocols: usize = machines \.iter\(\) \.map\(\|machine\| machine\.protocol_count\(\)\) \.sum\(\);", inet)) \
        and "Barrier::new(total_protocols)" in inet \
        and bool(re.search(r"for machine in machines \{.*?handles\.spawn\(machine\.start\(shutdown, initialized\)\);", inet))
    per_proto = bool(re.search(r"for protocol in self\.iter\(\) \{.*?\.start\(shutdown_clone, initialized_clone, self_clone\).*?handles\.spawn\(fut\);", mach)) \
        and bool(re.search(r"pub fn protocol_count\(&self\) -> usize \{ self\.protocols\.len\(\) \}", mach)) \
        and bool(re.search(r"pub fn iter\(&self\).*?\{ self\.protocols\.values\(\)", mach))
    mcap = re.search(r"broadcast::channel\((\d+)\)", shut)
    if not mcap:
        raise ExtractError("shutdown.rs: broadcast::channel(<literal>) not found")
    mslack = re.search(r"tokio::time::timeout\(duration \+ Duration::from_secs\((\d+)\), future\)", inet)
    if not mslack:
        raise ExtractError("internet.rs: outer timeout(duration + Duration::from_secs(<literal>)) not found")
    receiver_first = inet.find("shutdown.clone().receiver()") != -1 and inet.find("shutdown.clone().receiver()") < inet.find("handles.spawn(machine.start")
    cell = ("let _ = self.first.set(ExitStatus::Exited);" in shut and "let _ = self.first.set(status.clone());" in shut
            and inet.count("first_status.get().cloned().unwrap_or(result)") >= 2
            and inet.find("let first_status = shutdown.first_status();") != -1
            and inet.find("let first_status = shutdown.first_status();") < inet.find("handles.spawn(machine.start"))
    lines = ["-- GENERATED from /repo sources by tools/extract.py on every check; do not edit",
             "namespace Elvis.Gen",
             "structure StartCert where", "  name : String", "  waits : Nat", "  sendBeforeWait : Bool", "deriving Repr, DecidableEq", "",
             "/-- one row per `impl Protocol for T`: barrier waits in `start`, frame-producing call before the wait -/",
             "def startRoutines : List StartCert := ["]
    lines.append(",\n".join(f'  ⟨"{n}", {w}, {"true" if sb else "false"}⟩' for n, w, sb in rows))
    lines += ["]", "",
              f"def barrierSizedByProtocolCount : Bool := {'true' if sized else 'false'}",
              f"def machineSpawnsStartPerProtocol : Bool := {'true' if per_proto else 'false'}",
              f"def shutdownReceiverCreatedBeforeStart : Bool := {'true' if receiver_first else 'false'}",
              "/-- run_internet returns the set-once first-request status when one exists -/",
              f"def firstStatusCellUsed : Bool := {'true' if cell else 'false'}",
              f"def shutdownChannelCapacity : Nat := {mcap.group(1)}",
              f"def outerTimeoutSlackMs : Nat := {int(mslack.group(1)) * 1000}",
              "end Elvis.Gen", ""]
    write_if_changed("SimCert.lean", "\n".join(lines))


def norm(s):
    return re.sub(r"\s+", " ", s).strip()


def const_of(src, pat, what):
    m = re.search(pat, src)
    if not m:
        raise ExtractError(f"{what}: pattern `{pat}` not found")
    return int(m.group(1).replace("_", ""), 0)


def gen_arp():
    """C06: retry budget, packet constants, the mask / network-id kernels the gateway decision
    of `Arp::resolve` uses (exact text match, fail closed) -> Generated/Arp.lean."""
    arp = strip_comments(read(os.path.join(CORE, "protocols", "arp.rs")))
    par_full = strip_comments(read(os.path.join(CORE, "protocols", "arp", "arp_parsing.rs")))
    par = par_full.split("#[cfg(test)]")[0]
    sub = strip_comments(read(os.path.join(CORE, "protocols", "arp", "subnetting.rs"))).split("#[cfg(test)]")[0]
    net = strip_comments(read(os.path.join(CORE, "network.rs")))
    tries = const_of(arp, r"pub const RESEND_TRIES: u32 = (\d[\d_]*);", "arp.rs RESEND_TRIES")
    delay_ms = const_of(arp, r"pub const RESEND_DELAY: Duration = Duration::from_millis\((\d[\d_]*)\);", "arp.rs RESEND_DELAY")
    size = const_of(par, r"pub const SIZE: usize = (\d+);", "ArpPacket::SIZE")
    htype = const_of(par, r"const HTYPE: u16 = (0x[0-9a-fA-F_]+|\d+);", "HTYPE")
    ptype = const_of(par, r"const PTYPE: u16 = (0x[0-9a-fA-F_]+|\d+);", "PTYPE")
    hlen = const_of(par, r"const HLEN: u8 = (\d+);", "HLEN")
    plen = const_of(par, r"const PLEN: u8 = (\d+);", "PLEN")
    req = const_of(par_full, r"pub enum Operation \{\s*Request = (\d+),", "Operation::Request")
    rep = const_of(par_full, r"pub enum Operation \{\s*Request = \d+,\s*Reply = (\d+),", "Operation::Reply")
    m = re.search(r"pub fn new_request\(.*?\) -> ArpPacket \{(.*?)\n    \}", par, flags=re.S)
    if not m:
        raise ExtractError("arp_parsing.rs: new_request not found")
    tmac = const_of(m.group(1), r"target_mac: (\d+),", "new_request target_mac placeholder")
    bmac = const_of(net, r"pub const BROADCAST_MAC: Mac = (0x[0-9a-fA-F_]+);", "Network::BROADCAST_MAC")
    # kernels: exact (whitespace-normalised) text, translated by hand once; any edit fails closed
    nsub = norm(sub)
    clamp_txt = "const fn clamp(num: u32, min: u32, max: u32) -> u32 { assert!(min <= max); if num < min { min } else if num > max { max } else { num } }"
    fb_txt = ("pub const fn from_bitcount(size: u32) -> Ipv4Mask { let size = clamp(size, 0, 32); if size == 0 { Ipv4Mask(0) } "
              "else if size == 32 { Ipv4Mask(0xFF_FF_FF_FF) } else { Ipv4Mask(((1 << size) - 1) << (32 - size)) } }")
    new_txt = "pub fn new(ip: Ipv4Address, mask: Ipv4Mask) -> Self { Self { network_id: Ipv4Address::from(ip.to_u32() & mask.to_u32()), mask, } }"
    id_txt = "pub fn id(&self) -> Ipv4Address { self.network_id }"
    for t, w in ((clamp_txt, "clamp"), (fb_txt, "Ipv4Mask::from_bitcount"), (new_txt, "Ipv4Net::new"), (id_txt, "Ipv4Net::id")):
        if t not in nsub:
            raise ExtractError(f"subnetting.rs: `{w}` no longer has the text the Lean kernel was translated from")
    narp = norm(arp)
    gw_txt = ("if let Some(subnet) = subnet { let mask = subnet.mask; if Ipv4Net::new(endpoints.local, mask).id() != "
              "Ipv4Net::new(endpoints.remote, mask).id() { endpoints.remote = subnet.default_gateway; } };")
    if gw_txt not in narp:
        raise ExtractError("arp.rs: the gateway decision of Arp::resolve no longer has the text the model was written from")
    # does a cached failure answer `resolve` / wake a waiter in `get_mac`?  (F-C06-1)
    old_r = "if let Some(status) = self.arp_table.get_clone(dest_ip) { return status; }" in narp
    old_g = "if let Some(value) = self.get_clone(ip) { return value; }" in narp
    new_r = "if let Some(Ok(mac)) = self.arp_table.get_clone(dest_ip) { return Ok(mac); }" in narp
    new_g = "if let Some(Ok(mac)) = self.get_clone(ip) { return Ok(mac); }" in narp
    if old_r and old_g and not (new_r or new_g):
        neg_cache = True
    elif new_r and new_g and not (old_r or old_g):
        neg_cache = False
    else:
        raise ExtractError("arp.rs: table lookups of Arp::resolve / ArpTable::get_mac have neither of the two known forms")
    # the wire layout of a MAC: the low six bytes of the u64
    if par.count(".to_be_bytes()[2..8]") != 2 or "next_u48_be()" not in par:
        raise ExtractError("arp_parsing.rs: MAC wire layout (to_be_bytes()[2..8] / next_u48_be) changed")
    lines = ["-- GENERATED from /repo sources by tools/extract.py on every check; do not edit",
             "namespace Elvis.Gen.Arp",
             "/-- `Arp::RESEND_TRIES` -/",
             f"def resendTries : Nat := {tries}",
             "/-- `Arp::RESEND_DELAY` in microseconds -/",
             f"def resendDelayUs : Nat := {delay_ms * 1000}",
             f"def packetSize : Nat := {size}",
             f"def htype : Nat := {htype}",
             f"def ptype : Nat := {ptype}",
             f"def hlen : Nat := {hlen}",
             f"def plen : Nat := {plen}",
             f"def operRequest : Nat := {req}",
             f"def operReply : Nat := {rep}",
             "/-- `target_mac` placeholder of `ArpPacket::new_request` -/",
             f"def requestTargetMac : Nat := {tmac}",
             f"def broadcastMac : Nat := {bmac}",
             "/-- does an `Err` entry of the ARP table answer `resolve` and wake waiters of `get_mac`? -/",
             f"def cachedFailureIsAnswer : Bool := {'true' if neg_cache else 'false'}",
             "/-- `clamp` of subnetting.rs (u32 arguments) -/",
             "def clamp (num min max : Nat) : Nat := if num < min then min else if num > max then max else num",
             "/-- `Ipv4Mask::from_bitcount` (no u32 overflow possible: `size < 32` in the last branch) -/",
             "def maskFromBitcount (size : Nat) : Nat :=",
             "  let size := clamp size 0 32",
             "  if size == 0 then 0 else if size == 32 then 0xFFFFFFFF else ((1 <<< size) - 1) <<< (32 - size)",
             "/-- `Ipv4Net::new(ip, mask).id()` -/",
             "def netId (ip mask : Nat) : Nat := ip &&& mask",
             "end Elvis.Gen.Arp", ""]
    write_if_changed("Arp.lean", "\n".join(lines))


def main():
    check_message_immutability()
    gen_sim_cert()
    gen_arp()
    consts = ["-- GENERATED from /repo sources by tools/extract.py on every check; do not edit", "namespace Elvis.Gen", "end Elvis.Gen", ""]
    write_if_changed("Consts.lean", "\n".join(consts))


if __name__ == "__main__":
    try:
        main()
    except ExtractError as e:
        print("EXTRACT-ERROR:", e)
        sys.exit(1)
