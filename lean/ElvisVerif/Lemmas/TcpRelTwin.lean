import ElvisVerif.Lemmas.TcpRelAcks
import ElvisVerif.Lemmas.TcpRelEmit
import ElvisVerif.Lemmas.TcpConvFwd
/-!
# The closer in FIN-WAIT-1 with text still queued behaves like its ESTABLISHED twin on pure ACKs

While `fin_pending()` holds (`outgoing.text ≠ []`) `is_fin_acked()` is false, so block 2 of `process_segment` in
FIN-WAIT-1 does exactly what it does in ESTABLISHED.  `aep_fw`: `ack_established_processing` does not read the state;
`arrive_ack_twin`: one pure ACK; `ackList_twin`: a batch.
-/
namespace Elvis.Tcp
open Elvis.ModCmp Elvis.Tcp.Fin
namespace Tcb

theorem aep_fw (t : Tcb) (seg : Hdr) :
    (fw t).ackEstablishedProcessing seg =
      match t.ackEstablishedProcessing seg with
      | .error e => .error e
      | .ok (t1, r) => .ok (fw t1, r) := by
  unfold ackEstablishedProcessing
  show (if modLeq seg.ack t.snd.una = true then _ else _) = _
  by_cases h1 : modLeq seg.ack t.snd.una = true
  · rw [if_pos h1, if_pos h1]
  · rw [if_neg h1, if_neg h1]
    show (if (!modBounded t.snd.una .Lt seg.ack .Leq t.snd.nxt) = true then _ else _) = _
    by_cases h2 : (!modBounded t.snd.una .Lt seg.ack .Leq t.snd.nxt) = true
    · rw [if_pos h2, if_pos h2]
      rw [enqueue_eq, enqueue_eq]
      rfl
    · rw [if_neg h2, if_neg h2]
      unfold removeAckedFromRetransmission fw
      dsimp only
      by_cases hc : (modLt t.snd.wl1 seg.seq || (t.snd.wl1 == seg.seq && modLeq t.snd.wl2 seg.ack)) = true
      · rw [if_pos hc, if_pos hc]
      · rw [if_neg hc, if_neg hc]

theorem arrive_ack_twin (t : Tcb) (g : Segment) (hst : t.state = .Established) (hw : t.rcv.wnd = 65535#16)
    (hheap : t.incoming.segments = []) (ht : t.outgoing.text ≠ []) (hp : PureAck g) (hseq : g.hdr.seq = t.rcv.nxt)
    (hg : modLeq g.hdr.ack t.snd.una = true ∨ modBounded t.snd.una .Lt g.hdr.ack .Leq t.snd.nxt = true) :
    ∃ t1, t.segmentArrives g = .ok (t1, .Ok) ∧ AckFx t g.hdr t1 ∧ (fw t).segmentArrives g = .ok (fw t1, .Ok) := by
  have hns : t.state ≠ .SynSent := by rw [hst]; simp
  have hns' : (fw t).state ≠ .SynSent := by show State.FinWait1 ≠ _; simp
  have hok := isSeqOk_ack_nxt t g hw hp.syn hp.fin hp.text hseq
  have hok' : (fw t).isSeqOk (BitVec.ofNat 32 g.text.length) g.hdr.seq g.hdr.ctl.syn g.hdr.ctl.fin = .ok true := hok
  obtain ⟨t1, e1, fx⟩ := ackEst_fwd t g.hdr hg
  have c2 : ackBlock t g.hdr = .ok (t1, none) := by
    unfold ackBlock
    rw [if_neg (by simp [hp.ackb]), hst]
    dsimp only
    unfold afterAckEstablished
    rw [e1]
    simp
  have hfa : (fw t1).isFinAcked = false := by
    unfold isFinAcked
    rw [finPending_eq]
    show (!(closing3 .FinWait1 && !t1.outgoing.text.isEmpty) && _) = false
    rw [fx.otext]
    cases h : t.outgoing.text with
    | nil => exact (ht h).elim
    | cons a l => rfl
  have c2' : ackBlock (fw t) g.hdr = .ok (fw t1, none) := by
    unfold ackBlock
    rw [if_neg (by simp [hp.ackb])]
    have hs' : (fw t).state = .FinWait1 := rfl
    rw [hs']
    dsimp only
    unfold afterAckEstablished
    rw [aep_fw, e1]
    dsimp only
    rw [hfa]
    simp
  have hps := process_tail t t1 g hns (by rw [fx.st, hst]; simp) hok hp.rst hp.syn hp.text c2
  rw [finBlock_nofin _ _ _ hp.fin] at hps
  have hps' := process_tail (fw t) (fw t1) g hns' (by show State.FinWait1 ≠ _; simp) hok' hp.rst hp.syn hp.text c2'
  rw [finBlock_nofin _ _ _ hp.fin] at hps'
  have hgate : modGt g.hdr.seq t.rcv.nxt = false := by rw [hseq]; exact C01.modGt_self _
  exact ⟨t1, arrive_single t g hns hheap hok hgate _ _ hps rfl, fx,
    arrive_single (fw t) g hns' hheap hok' hgate _ _ hps' rfl⟩

theorem ackList_twin (iss : Seq) (N : Nat) (hN : N < 2147483648) (gs : List Segment) :
    ∀ (t t' : Tcb), t.state = .Established → t.rcv.wnd = 65535#16 → t.incoming.segments = [] →
      t.outgoing.text ≠ [] → t.snd.iss = iss → off iss t.snd.nxt = N → off iss t.snd.una ≤ N →
      (∀ g ∈ gs, PureAck g ∧ g.hdr.seq = t.rcv.nxt ∧ 1 ≤ off iss g.hdr.ack ∧ off iss g.hdr.ack ≤ N) →
      arriveList t gs = .ok t' → arriveList (fw t) gs = .ok (fw t') ∧ t'.outgoing.oneshot = t.outgoing.oneshot := by
  induction gs with
  | nil =>
    intro t t' _ _ _ _ _ _ _ _ h
    simp only [arriveList] at h ⊢
    cases h
    exact ⟨rfl, rfl⟩
  | cons g rest ih =>
    intro t t' hst hw hheap htext hiss hsent hu hall h
    obtain ⟨hp, hseq, ha1, ha2⟩ := hall g List.mem_cons_self
    have hiff := modLeq_iff_off iss g.hdr.ack t.snd.una (by omega) (by omega)
    have hgood : modLeq g.hdr.ack t.snd.una = true ∨ modBounded t.snd.una .Lt g.hdr.ack .Leq t.snd.nxt = true := by
      rcases Nat.lt_or_ge (off iss t.snd.una) (off iss g.hdr.ack) with hlt | hge
      · exact Or.inr (bounded_of_off iss _ _ _ (by omega) hlt (by omega))
      · exact Or.inl (hiff.2 hge)
    obtain ⟨t1, e1, fx, e1'⟩ := arrive_ack_twin t g hst hw hheap htext hp hseq hgood
    have k := segmentArrives_snd t g t1 .Ok e1
    simp only [arriveList, e1] at h
    simp only [arriveList, e1']
    have hu1 : off iss t1.snd.una ≤ N := by
      by_cases hle : modLeq g.hdr.ack t.snd.una = true
      · rw [fx.una, if_pos hle]; exact hu
      · rw [fx.una, if_neg hle]; exact ha2
    have := ih t1 t' (by rw [fx.st]; exact hst) (by rw [fx.rcv]; exact hw) (by rw [fx.inc]; exact hheap)
      (by rw [fx.otext]; exact htext) (by rw [k.iss]; exact hiss) (by rw [fx.nxt]; exact hsent) hu1
      (fun g' hg' => by
        obtain ⟨a, b, c, d⟩ := hall g' (List.mem_cons_of_mem _ hg')
        exact ⟨a, by rw [fx.rcv]; exact b, c, d⟩) h
    exact ⟨this.1, this.2.trans fx.one⟩

end Tcb
end Elvis.Tcp
