#!/usr/bin/env python3
"""Regenerate /verif/MANIFEST.json from tools/propcfg.py (+ tools/not_applicable.json)."""
import json, os, sys
ROOT = os.path.join(os.path.dirname(os.path.abspath(__file__)), "..")
sys.path.insert(0, os.path.dirname(os.path.abspath(__file__)))
from propcfg import PROPS

all_ids = [json.loads(l)["id"] for l in open(os.path.join(ROOT, "properties.jsonl"))]
na_path = os.path.join(ROOT, "tools", "not_applicable.json")
na_reasons = json.load(open(na_path)) if os.path.exists(na_path) else {}
hooks_path = os.path.join(ROOT, "tools", "hook_commits.txt")
hook_commits = [l.split()[0] for l in open(hooks_path) if l.strip() and not l.startswith("#")] if os.path.exists(hooks_path) else []

checks = []
for pid in all_ids:
    if pid not in PROPS:
        continue
    c = PROPS[pid]
    checks.append({
        "property_id": pid,
        "quick_cmd": f"./check {pid} --tier quick",
        "thorough_cmd": f"./check {pid} --tier thorough",
        "evidence_file": f"/verif/evidence/{pid}.json",
        "replay_cmd_template": f"./check {pid} --replay {{path}}",
        "engine": "lean4-proof+correspondence",
        "level_claimed": {"category": "proof", "text": c["text"], "design_ref": c.get("design_ref", "DESIGN.md section 8")},
        "level_note": c["level_note"],
        "technique": c["technique"],
    })
not_applicable = [{"property_id": pid, "reason": na_reasons.get(pid, "not yet built in this session: model, theorems and correspondence harness for this property are still to be written (see DESIGN.md section 8 for the plan); not a claim that the technique cannot apply")}
                  for pid in all_ids if pid not in PROPS]
m = {
    "version": 1,
    "setup_cmd": "./setup",
    "hooks": {
        "guard": "cargo feature `verif` (elvis-core/verif, elvis/verif)",
        "enable": "the harness crates under /verif/harness depend on /repo/sim/elvis-core and /repo/sim/elvis by path with features = [\"verif\"]; cargo rebuilds them from /repo's working tree on every check",
        "baseline_off_cmd": "cd /repo/sim && cargo nextest run --workspace --no-fail-fast --tool-config-file pb:/w/lib/nextest.toml --profile pb --test-threads 8 --offline",
        "source_commits": hook_commits,
        "add_only": False,
    },
    "engines": [{
        "name": "lean4-proof+correspondence",
        "path": "/verif/check",
        "serves_properties": [c["property_id"] for c in checks],
        "kind_free_text": "Lean 4 theorems about hand-written executable models (lean/ElvisVerif), tied to /repo on every run by (a) extraction of constants/kernels from source into Generated/*.lean and (b) a differential correspondence run: Rust harness (harness/) drives the real code and the compiled Lean model (lean/Driver) with the same op lines and diffs the outputs; a native property oracle supplies concrete failing inputs",
    }],
    "checks": checks,
    "notes": "Hooks: eleven `verif hooks:` commits, all behind `#[cfg(feature = \"verif\")]`; they only add code except for two single lines that were re-shaped to carry a gated statement/field (`Ok(_) => Ok(())` in socket_api.rs became a block with a gated observer call; `Arc::new(Self { send })` in tcp_session.rs became a multi-line literal with a gated field) — hence add_only=false; with the feature off the 156 baseline tests pass. Unguarded `fix:` commits (37) repair genuine defects found by the checks; each is recorded in known_findings.json as `fixed`. All checks are `./check <ID> --tier quick|thorough`; VERIF_SEED and VERIF_TIER are honoured. Known findings: /verif/known_findings.json.",
    "not_applicable": not_applicable,
}
json.dump(m, open(os.path.join(ROOT, "MANIFEST.json"), "w"), indent=1)
print("MANIFEST.json:", len(checks), "checks,", len(not_applicable), "not claimed")
