import ElvisVerif.Model.Message
/-! Helper lemmas for C07: each chunk-level loop of `Message` refines `drop`/`take` on bytes. -/
namespace Elvis.Msg

def Chunk.WF (c : Chunk) : Prop := c.start ≤ c.stop ∧ c.stop ≤ c.bytes.length

theorem Chunk.view_length (c : Chunk) (h : c.WF) : c.view.length = c.len := by
  unfold Chunk.view Chunk.len Chunk.WF at *; simp [List.length_take, List.length_drop]; omega

theorem Chunk.new_WF (b : List UInt8) : (Chunk.new b).WF := by simp [Chunk.new, Chunk.WF]
theorem Chunk.new_view (b : List UInt8) : (Chunk.new b).view = b := by simp [Chunk.new, Chunk.view]
theorem Chunk.new_len (b : List UInt8) : (Chunk.new b).len = b.length := by simp [Chunk.new, Chunk.len]

def flat (cs : List Chunk) : List UInt8 := cs.flatMap Chunk.view
def total (cs : List Chunk) : Nat := (cs.map Chunk.len).sum
def AllWF (cs : List Chunk) : Prop := ∀ c ∈ cs, c.WF

@[simp] theorem flat_nil : flat [] = [] := rfl
@[simp] theorem flat_cons (c : Chunk) (cs) : flat (c :: cs) = c.view ++ flat cs := by simp [flat]
@[simp] theorem flat_append (a b : List Chunk) : flat (a ++ b) = flat a ++ flat b := by simp [flat]
@[simp] theorem total_nil : total [] = 0 := rfl
@[simp] theorem total_cons (c : Chunk) (cs) : total (c :: cs) = c.len + total cs := by simp [total]
@[simp] theorem total_append (a b : List Chunk) : total (a ++ b) = total a + total b := by simp [total]

theorem AllWF_cons {c : Chunk} {cs} : AllWF (c :: cs) ↔ c.WF ∧ AllWF cs := by simp [AllWF]
theorem AllWF_append {a b : List Chunk} : AllWF (a ++ b) ↔ AllWF a ∧ AllWF b := by
  simp [AllWF, or_imp, forall_and]
theorem AllWF_nil : AllWF [] := by simp [AllWF]

theorem flat_length (cs : List Chunk) (h : AllWF cs) : (flat cs).length = total cs := by
  induction cs with
  | nil => simp
  | cons c cs ih =>
    have hc : c.WF := h c (by simp)
    have hcs : AllWF cs := fun x hx => h x (by simp [hx])
    simp [Chunk.view_length c hc, ih hcs]

theorem dropLeading_spec (cs : List Chunk) (s : Nat) (h : AllWF cs) (hs : s ≤ total cs) :
    let r := dropLeading cs s
    AllWF r.1 ∧ (flat r.1).drop r.2 = (flat cs).drop s ∧ r.2 ≤ total r.1 ∧
    (∀ c cs', r.1 = c :: cs' → r.2 < c.len) ∧ total r.1 - r.2 = total cs - s := by
  induction cs generalizing s with
  | nil => simp [dropLeading, AllWF] at *; omega
  | cons c cs ih =>
    have hc : c.WF := h c (by simp)
    have hcs : AllWF cs := fun x hx => h x (by simp [hx])
    unfold dropLeading
    split
    · rename_i hle
      have := ih (s - c.len) hcs (by simp at hs; omega)
      simp only at this ⊢
      refine ⟨this.1, ?_, this.2.2.1, this.2.2.2.1, ?_⟩
      · rw [this.2.1, flat_cons, List.drop_append]
        have hl := Chunk.view_length c hc
        have hd : List.drop s c.view = [] := by
          apply List.drop_eq_nil_of_le; omega
        simp [hl, hd]
      · simp; omega
    · rename_i hnle
      refine ⟨h, rfl, by simpa using hs, ?_, rfl⟩
      intro c' cs' heq
      cases heq; omega

theorem bumpHead_spec (cs : List Chunk) (s : Nat) (h : AllWF cs)
    (hlt : ∀ c cs', cs = c :: cs' → s < c.len) (hs : s ≤ total cs) :
    AllWF (bumpHead cs s) ∧ flat (bumpHead cs s) = (flat cs).drop s ∧
    total (bumpHead cs s) = total cs - s := by
  cases cs with
  | nil => simp [bumpHead, AllWF]
  | cons c cs =>
    have hc : c.WF := h c (by simp)
    have hl := hlt c cs rfl
    have hv := Chunk.view_length c hc
    unfold Chunk.len Chunk.WF at *
    refine ⟨?_, ?_, ?_⟩
    · intro x hx
      simp [bumpHead] at hx
      rcases hx with rfl | hx
      · simp [Chunk.WF]; omega
      · exact h x (by simp [hx])
    · simp only [bumpHead, flat_cons]
      rw [List.drop_append_of_le_length (by omega)]
      congr 1
      simp only [Chunk.view]
      rw [List.drop_take, List.drop_drop]
      congr 1
      · omega
    · simp [bumpHead, Chunk.len]; omega

theorem keep_spec (cs : List Chunk) (k : Nat) (h : AllWF cs) (hk : k ≤ total cs) :
    AllWF (keep cs k) ∧ flat (keep cs k) = (flat cs).take k ∧ total (keep cs k) = k := by
  induction cs generalizing k with
  | nil => simp [keep, AllWF] at *; omega
  | cons c cs ih =>
    have hc : c.WF := h c (by simp)
    have hcs : AllWF cs := fun x hx => h x (by simp [hx])
    have hv := Chunk.view_length c hc
    unfold keep
    split
    · rename_i hge
      have := ih (k - c.len) hcs (by simp at hk; omega)
      refine ⟨?_, ?_, ?_⟩
      · intro x hx
        simp at hx
        rcases hx with rfl | hx
        · exact hc
        · exact this.1 x hx
      · simp only [flat_cons, this.2.1]
        rw [List.take_append, hv]
        have : List.take k c.view = c.view := by apply List.take_of_length_le; omega
        rw [this]
      · simp [this.2.2]; omega
    · rename_i hlt
      unfold Chunk.len Chunk.WF at *
      refine ⟨?_, ?_, ?_⟩
      · intro x hx; simp at hx; subst hx; simp [Chunk.WF]; omega
      · simp only [flat_cons, flat_nil, List.append_nil]
        rw [List.take_append_of_le_length (by omega)]
        simp only [Chunk.view]
        rw [List.take_take]
        congr 1
        omega
      · simp [Chunk.len]

theorem slice_refines (cs : List Chunk) (s l : Nat) (h : AllWF cs) (hb : s + l ≤ total cs) :
    AllWF (sliceChunks cs s l) ∧
    flat (sliceChunks cs s l) = ((flat cs).drop s).take l ∧
    total (sliceChunks cs s l) = l := by
  unfold sliceChunks
  have h1 := dropLeading_spec cs s h (by omega)
  simp only at h1
  obtain ⟨w1, e1, le1, lt1, t1⟩ := h1
  generalize dropLeading cs s = r at *
  obtain ⟨cs1, s1⟩ := r
  simp only at *
  have h2 := bumpHead_spec cs1 s1 w1 lt1 le1
  obtain ⟨w2, e2, t2⟩ := h2
  have h3 := keep_spec (bumpHead cs1 s1) l w2 (by omega)
  obtain ⟨w3, e3, t3⟩ := h3
  exact ⟨w3, by rw [e3, e2, e1], t3⟩

/-- split of a well-formed chunk at `n < len` -/
theorem Chunk.split_view (c : Chunk) (n : Nat) (hc : c.WF) (hn : n < c.len) :
    ({ c with stop := c.start + n } : Chunk).view = c.view.take n ∧
    ({ c with start := c.start + n } : Chunk).view = c.view.drop n ∧
    ({ c with stop := c.start + n } : Chunk).WF ∧ ({ c with start := c.start + n } : Chunk).WF ∧
    ({ c with stop := c.start + n } : Chunk).len = n ∧
    ({ c with start := c.start + n } : Chunk).len = c.len - n := by
  unfold Chunk.len Chunk.WF at *
  refine ⟨?_, ?_, ?_, ?_, ?_, ?_⟩
  · simp only [Chunk.view]; rw [List.take_take]; congr 1; omega
  · simp only [Chunk.view]; rw [List.drop_take, List.drop_drop]; congr 1
    · omega
  · simp; omega
  · simp; omega
  · simp
  · simp; omega

theorem cutChunks_spec (cs : List Chunk) (n : Nat) (h : AllWF cs) (hn : n ≤ total cs) :
    let r := cutChunks cs n
    AllWF r.1 ∧ AllWF r.2 ∧ flat r.1 = (flat cs).take n ∧ flat r.2 = (flat cs).drop n ∧
    total r.1 = n ∧ total r.2 = total cs - n := by
  induction cs generalizing n with
  | nil => simp [cutChunks, AllWF] at *; omega
  | cons c cs ih =>
    have hc : c.WF := h c (by simp)
    have hcs : AllWF cs := fun x hx => h x (by simp [hx])
    have hv := Chunk.view_length c hc
    unfold cutChunks
    split
    · rename_i hle
      have := ih (n - c.len) hcs (by simp at hn; omega)
      simp only at this ⊢
      obtain ⟨a1, a2, a3, a4, a5, a6⟩ := this
      refine ⟨AllWF_cons.2 ⟨hc, a1⟩, a2, ?_, ?_, ?_, ?_⟩
      · simp only [flat_cons, a3]
        rw [List.take_append, hv]
        have : List.take n c.view = c.view := by apply List.take_of_length_le; omega
        rw [this]
      · rw [a4, flat_cons, List.drop_append, hv]
        have : List.drop n c.view = [] := by apply List.drop_eq_nil_of_le; omega
        simp [this]
      · simp [a5]; omega
      · simp [a6]; omega
    · rename_i hnle
      have hlt : n < c.len := by omega
      obtain ⟨s1, s2, s3, s4, s5, s6⟩ := Chunk.split_view c n hc hlt
      simp only
      refine ⟨?_, AllWF_cons.2 ⟨s4, hcs⟩, ?_, ?_, ?_, ?_⟩
      · split
        · exact AllWF_cons.2 ⟨s3, AllWF_nil⟩
        · exact AllWF_nil
      · simp only [flat_cons]
        rw [List.take_append_of_le_length (by omega)]
        split
        · simp [s1]
        · have : n = 0 := by omega
          subst this; simp
      · simp only [flat_cons, s2]
        rw [List.drop_append_of_le_length (by omega)]
      · split
        · simp [s5]
        · simp; omega
      · simp [s6]; omega

theorem removeFrontChunks_spec (cs : List Chunk) (n : Nat) (h : AllWF cs) (hn : n ≤ total cs) :
    AllWF (removeFrontChunks cs n) ∧ flat (removeFrontChunks cs n) = (flat cs).drop n ∧
    total (removeFrontChunks cs n) = total cs - n := by
  induction cs generalizing n with
  | nil => simp [removeFrontChunks, AllWF] at *
  | cons c cs ih =>
    have hc : c.WF := h c (by simp)
    have hcs : AllWF cs := fun x hx => h x (by simp [hx])
    have hv := Chunk.view_length c hc
    unfold removeFrontChunks
    split
    · rename_i hle
      obtain ⟨a1, a2, a3⟩ := ih (n - c.len) hcs (by simp at hn; omega)
      refine ⟨a1, ?_, ?_⟩
      · rw [a2, flat_cons, List.drop_append, hv]
        have : List.drop n c.view = [] := by apply List.drop_eq_nil_of_le; omega
        simp [this]
      · simp [a3]; omega
    · rename_i hnle
      have hlt : n < c.len := by omega
      obtain ⟨s1, s2, s3, s4, s5, s6⟩ := Chunk.split_view c n hc hlt
      refine ⟨AllWF_cons.2 ⟨s4, hcs⟩, ?_, ?_⟩
      · simp only [flat_cons, s2]
        rw [List.drop_append_of_le_length (by omega)]
      · simp [s6]; omega

end Elvis.Msg
