import ElvisVerif.Lemmas.ShiftTcb
/-!
# Every block of `process_segment` commutes with the shift map (C12)

Method: each block is first re-read as a composition of NAMED pieces (`setUna`, `setWindow`,
`windowTest`, … — the equation is `rfl`), each piece is shown to commute with `Tcb.shift`
(by `rfl`, or by the shift-invariance of the circular comparisons, `Lemmas/ShiftCmp.lean`),
and the block lemma is the chain of these rewrites, the `if`s of both sides split in lockstep.
No lemma unfolds a circular predicate.
-/
namespace Elvis.Tcp
open Elvis.ModCmp
variable (ka kb : Seq)

/-! ## block 1 -/

theorem shift_seqCheck (s : Tcb) (seg : Hdr) (tl : Seq) :
    Tcb.seqCheck (s.shift ka kb) (seg.shift kb ka) tl = M.shift ka kb (Tcb.seqCheck s seg tl) := by
  unfold Tcb.seqCheck
  rw [Tcb.shift_state]
  cases hst : s.state <;> first
    | rfl
    | (have hne : s.state ≠ .SynSent := by rw [hst]; decide
       simp only [Hdr.shift_seq, Hdr.shift_ctl]
       rw [Tcb.shift_isSeqOk ka kb s hne]
       cases s.isSeqOk tl seg.seq seg.ctl.syn seg.ctl.fin with
       | error e => rfl
       | ok b =>
         cases b with
         | true => rfl
         | false => exact Tcb.shift_enqueueThen ka kb s _ _ (Tcb.shift_ackHdr ka kb s hne) _ _ (fun u => rfl))

/-! ## `ack_established_processing` -/

theorem shift_removeAcked (s : Tcb) (u : Seq) :
    (s.shift ka kb).removeAckedFromRetransmission (u + ka) =
      (s.removeAckedFromRetransmission u).shift ka kb := by
  unfold Tcb.removeAckedFromRetransmission
  have h : ∀ l : List Transmit,
      (l.map (Transmit.shift ka kb)).filter (fun t => modLt (u + ka) (t.segment.hdr.seq + BitVec.ofNat 32 t.segment.segLen)) =
      (l.filter (fun t => modLt u (t.segment.hdr.seq + BitVec.ofNat 32 t.segment.segLen))).map (Transmit.shift ka kb) := by
    intro l
    rw [List.filter_map]
    congr 2
    funext t
    show modLt (u + ka) (t.segment.hdr.seq + ka + BitVec.ofNat 32 t.segment.segLen) = _
    rw [add_right_comm', modLt_shift]
  simp only [Tcb.shift, h]

/-! named pieces -/
def setUna (s : Tcb) (a : Seq) : Tcb := { s with snd.una := a }
def setWindow (s : Tcb) (w : U16) (q a : Seq) : Tcb := { s with snd.wnd := w, snd.wl1 := q, snd.wl2 := a }
def windowTest (s : Tcb) (q a : Seq) : Bool :=
  modLt s.snd.wl1 q || (s.snd.wl1 == q && modLeq s.snd.wl2 a)

theorem ackEstablished_eq (s : Tcb) (seg : Hdr) :
    s.ackEstablishedProcessing seg =
      if modLeq seg.ack s.snd.una then .ok (s, .Success)
      else if !modBounded s.snd.una .Lt seg.ack .Leq s.snd.nxt then
        match s.enqueue s.ackHdr with
        | .error e => .error e
        | .ok s => .ok (s, .InvalidAck)
      else
        let s2 := (setUna s seg.ack).removeAckedFromRetransmission seg.ack
        .ok (if windowTest s2 seg.seq seg.ack then setWindow s2 seg.wnd seg.seq seg.ack else s2, .Success) := rfl

theorem shift_setUna (s : Tcb) (a : Seq) : setUna (s.shift ka kb) (a + ka) = (setUna s a).shift ka kb := rfl

theorem shift_setWindow (s : Tcb) (w : U16) (q a : Seq) (h1 : s.state ≠ .SynSent) :
    setWindow (s.shift ka kb) w (q + kb) (a + ka) = (setWindow s w q a).shift ka kb := by
  obtain ⟨lp, rp, mtu, ini, st, snd, rcv, out, inc, tmo⟩ := s
  cases st <;> first | exact absurd rfl h1 | rfl

theorem shift_windowTest (s : Tcb) (q a : Seq) (h1 : s.state ≠ .SynSent) :
    windowTest (s.shift ka kb) (q + kb) (a + ka) = windowTest s q a := by
  unfold windowTest
  rw [Tcb.shift_wl1 ka kb s h1, Tcb.shift_wl2 ka kb s h1, modLt_shift, beq_shift, modLeq_shift]

theorem shift_ackEstablished (s : Tcb) (seg : Hdr) (ha : seg.ctl.ack = true)
    (h1 : s.state ≠ .SynSent) :
    (s.shift ka kb).ackEstablishedProcessing (seg.shift kb ka) =
      M.shift ka kb (s.ackEstablishedProcessing seg) := by
  rw [ackEstablished_eq, ackEstablished_eq]
  simp only [Hdr.shift_ack_of kb ka seg ha, Hdr.shift_seq, Hdr.shift_wnd, Tcb.shift_una, Tcb.shift_nxt,
    modLeq_shift, modBounded_shift]
  by_cases c1 : modLeq seg.ack s.snd.una = true
  · rw [if_pos c1, if_pos c1]; rfl
  · rw [if_neg c1, if_neg c1]
    by_cases c2 : (!modBounded s.snd.una .Lt seg.ack .Leq s.snd.nxt) = true
    · rw [if_pos c2, if_pos c2, Tcb.shift_enqueue ka kb s _ _ (Tcb.shift_ackHdr ka kb s h1)]
      cases s.enqueue s.ackHdr <;> rfl
    · rw [if_neg c2, if_neg c2, shift_setUna, shift_removeAcked]
      generalize hs2 : (setUna s seg.ack).removeAckedFromRetransmission seg.ack = s2
      have hst : s2.state = s.state := by rw [← hs2]; rfl
      have g1 : s2.state ≠ .SynSent := by rw [hst]; exact h1
      rw [shift_windowTest ka kb s2 _ _ g1, shift_setWindow ka kb s2 _ _ _ g1]
      split <;> rfl


/-- `ack_established_processing` leaves the state alone -/
theorem ackEstablished_state (s : Tcb) (seg : Hdr) (u : Tcb) (r : ProcessSegmentResult)
    (h : s.ackEstablishedProcessing seg = .ok (u, r)) : u.state = s.state := by
  rw [ackEstablished_eq] at h
  split at h
  · cases h; rfl
  · split at h
    · rw [Tcb.enqueue_eq] at h
      cases h
      exact (Tcb.enqueueBuilt_frame s _).2.2.2.2.1
    · dsimp only at h
      cases h
      split <;> rfl

/-- `afterAckEstablished` commutes when the continuation does on TCBs in the same state -/
theorem shift_afterAck (s : Tcb) (seg : Hdr) (ha : seg.ctl.ack = true)
    (h1 : s.state ≠ .SynSent)
    (k k' : Tcb → ProcessSegmentResult → Tcb.B)
    (hk : ∀ u r, u.state = s.state → k' (u.shift ka kb) r = M.shift ka kb (k u r)) :
    Tcb.afterAckEstablished ((s.shift ka kb).ackEstablishedProcessing (seg.shift kb ka)) k' =
      M.shift ka kb (Tcb.afterAckEstablished (s.ackEstablishedProcessing seg) k) := by
  rw [shift_ackEstablished ka kb s seg ha h1]
  unfold Tcb.afterAckEstablished
  cases h : s.ackEstablishedProcessing seg with
  | error e => rfl
  | ok q =>
    obtain ⟨u, r⟩ := q
    exact hk u r (ackEstablished_state s seg u r h)

/-! ## block 2: the ACK field -/

def toEstablished (s : Tcb) (w : U16) (q a : Seq) : Tcb :=
  { s with state := .Established, snd.wnd := w, snd.wl1 := q, snd.wl2 := a }

theorem toEstablished_state (s : Tcb) (w : U16) (q a : Seq) :
    (toEstablished s w q a).state = .Established := rfl

theorem shift_toEstablished (s : Tcb) (w : U16) (q a : Seq) (h : s.state = .SynReceived) :
    toEstablished (s.shift ka kb) w (q + kb) (a + ka) = (toEstablished s w q a).shift ka kb := by
  obtain ⟨lp, rp, mtu, ini, st, snd, rcv, out, inc, tmo⟩ := s
  cases h
  rfl

theorem shift_bcond (s : Tcb) (seg : Hdr) (ha : seg.ctl.ack = true) :
    modBounded (s.shift ka kb).snd.una .Lt (seg.shift kb ka).ack .Leq (s.shift ka kb).snd.nxt =
      modBounded s.snd.una .Lt seg.ack .Leq s.snd.nxt := by
  rw [Tcb.shift_una, Tcb.shift_nxt, Hdr.shift_ack_of kb ka seg ha, modBounded_shift]

theorem shift_bcond0 (s : Tcb) (seg : Hdr) (ha : seg.ctl.ack = true) :
    modBounded (s.shift ka kb).snd.nxt .Lt (seg.shift kb ka).ack .Leq (s.shift ka kb).snd.iss =
      modBounded s.snd.nxt .Lt seg.ack .Leq s.snd.iss := by
  rw [Tcb.shift_iss, Tcb.shift_nxt, Hdr.shift_ack_of kb ka seg ha, modBounded_shift]

theorem shift_setState_late (s : Tcb) (st : State) (h1 : s.state ≠ .SynSent) (g1 : st ≠ .SynSent) :
    ({ s.shift ka kb with state := st } : Tcb) = ({ s with state := st } : Tcb).shift ka kb := by
  obtain ⟨lp, rp, mtu, ini, st0, snd, rcv, out, inc, tmo⟩ := s
  cases st0 <;> first | exact absurd rfl h1 | skip
  all_goals (cases st <;> first | exact absurd rfl g1 | rfl)

theorem shift_ackBlock (s : Tcb) (seg : Hdr) :
    Tcb.ackBlock (s.shift ka kb) (seg.shift kb ka) = M.shift ka kb (Tcb.ackBlock s seg) := by
  unfold Tcb.ackBlock
  rw [Hdr.shift_ctl]
  by_cases hack : (!seg.ctl.ack) = true
  · rw [if_pos hack, if_pos hack]; rfl
  · rw [if_neg hack, if_neg hack]
    have ha : seg.ctl.ack = true := by simpa using hack
    rw [shift_bcond0 ka kb s seg ha, shift_bcond ka kb s seg ha, Hdr.shift_ack_of kb ka seg ha, Tcb.shift_state]
    obtain ⟨lp, rp, mtu, ini, st, snd, rcv, out, inc, tmo⟩ := s
    cases st with
    | SynSent =>
      dsimp only
      split
      · split
        · rfl
        · exact Tcb.shift_enqueueThen ka kb _ _ _ (Tcb.shift_rstForAck ka kb _ seg ha) _ _ (fun u => rfl)
      · split
        · split
          · exact congrArg (fun t => (Except.ok (t, none) : Tcb.B)) (shift_removeAcked ka kb (setUna _ seg.ack) seg.ack)
          · rfl
        · exact Tcb.shift_enqueueThen ka kb _ _ _ (Tcb.shift_rstForAck ka kb _ seg ha) _ _ (fun u => rfl)
    | SynReceived =>
      dsimp only
      split
      · have e := shift_toEstablished ka kb ⟨lp, rp, mtu, ini, .SynReceived, snd, rcv, out, inc, tmo⟩
          seg.wnd seg.seq seg.ack rfl
        have := shift_afterAck ka kb
          (toEstablished ⟨lp, rp, mtu, ini, .SynReceived, snd, rcv, out, inc, tmo⟩ seg.wnd seg.seq seg.ack) seg ha
          (by rw [toEstablished_state]; decide)
          (fun s r => if r = .Success then .ok (s, none) else .ok (s, some r))
          (fun s r => if r = .Success then .ok (s, none) else .ok (s, some r))
          (fun u r _ => by split <;> rfl)
        rw [← e] at this
        exact this
      · exact Tcb.shift_enqueueThen ka kb _ _ _ (Tcb.shift_rstForAck ka kb _ seg ha) _ _ (fun u => rfl)
    | Established | FinWait2 | CloseWait =>
      exact shift_afterAck ka kb _ seg ha (by intro h; cases h) _ _ (fun u r _ => by split <;> rfl)
    | FinWait1 =>
      refine shift_afterAck ka kb _ seg ha (by intro h; cases h) _ _ (fun u r hu => ?_)
      dsimp only at hu ⊢
      rw [Tcb.shift_isFinAcked]
      have e := shift_setState_late ka kb u .FinWait2 (by rw [hu]; decide) (by decide)
      by_cases cf : u.isFinAcked = true
      · rw [if_pos cf, if_pos cf, e]; split <;> rfl
      · rw [if_neg cf, if_neg cf]; split <;> rfl
    | Closing =>
      refine shift_afterAck ka kb _ seg ha (by intro h; cases h) _ _ (fun u r hu => ?_)
      dsimp only at hu ⊢
      rw [Tcb.shift_isFinAcked]
      have e : ({ u.shift ka kb with state := .TimeWait, timeouts.timeWait := some TIME_WAIT } : Tcb) =
          ({ u with state := .TimeWait, timeouts.timeWait := some TIME_WAIT } : Tcb).shift ka kb := by
        obtain ⟨lp, rp, mtu, ini, st0, snd, rcv, out, inc, tmo⟩ := u
        cases hu; rfl
      by_cases cf : u.isFinAcked = true
      · rw [if_pos cf, if_pos cf, e]; split <;> rfl
      · rw [if_neg cf, if_neg cf]; split <;> rfl
    | LastAck =>
      refine shift_afterAck ka kb _ seg ha (by intro h; cases h) _ _ (fun u r hu => ?_)
      dsimp only at hu ⊢
      rw [Tcb.shift_isFinAcked]
      by_cases cf : u.isFinAcked = true
      · rw [if_pos cf, if_pos cf]; rfl
      · rw [if_neg cf, if_neg cf]; split <;> rfl
    | TimeWait => rfl


/-! ## block 3: RST -/

/-- forget the distinction between the two "delete the TCB" results (see `psNorm`) -/
def normB (x : Tcb.B) : Tcb.B :=
  match x with
  | .error e => .error e
  | .ok (s, r) => .ok (s, r.map psNorm)

theorem shift_rstBlock (s : Tcb) (seg : Hdr) (h : s.state ≠ .SynSent) :
    Tcb.rstBlock (s.shift ka kb) (seg.shift kb ka) = M.shift ka kb (Tcb.rstBlock s seg) := by
  unfold Tcb.rstBlock
  rw [Hdr.shift_ctl, Tcb.shift_state, Tcb.shift_initiation]
  split
  · rfl
  · obtain ⟨lp, rp, mtu, ini, st, snd, rcv, out, inc, tmo⟩ := s
    cases st <;> first | exact absurd rfl h | rfl | (cases ini <;> rfl)

/-- in SYN-SENT the result (not the TCB) depends on whether `SEG.SEQ` equals the unset
    `RCV.NXT`; both results make `segment_arrives` delete the TCB -/
theorem shift_rstBlock_norm (s : Tcb) (seg : Hdr) :
    normB (Tcb.rstBlock (s.shift ka kb) (seg.shift kb ka)) = normB (M.shift ka kb (Tcb.rstBlock s seg)) := by
  by_cases h : s.state = .SynSent
  · unfold Tcb.rstBlock
    rw [Hdr.shift_ctl, Tcb.shift_state, h]
    split
    · rfl
    · dsimp only
      split
      · rfl
      · split <;> split <;> rfl
  · rw [shift_rstBlock ka kb s seg h]

/-! ## block 4: SYN -/

/-- SYN-SENT, SYN received, our SYN acknowledged: ESTABLISHED -/
def synEstablished (s : Tcb) (q : Seq) (w : U16) (a : Seq) : Tcb :=
  { s with rcv.irs := q, rcv.nxt := q + 1, snd.wnd := w, snd.wl1 := q, snd.wl2 := a, state := .Established }

/-- SYN-SENT, SYN received, our SYN not acknowledged (simultaneous open): SYN-RECEIVED -/
def synReceived (s : Tcb) (q : Seq) (w : U16) (a : Seq) : Tcb :=
  { s with rcv.irs := q, rcv.nxt := q + 1, snd.wnd := w, snd.wl1 := q, snd.wl2 := a, state := .SynReceived }

theorem shift_synEstablished (s : Tcb) (q : Seq) (w : U16) (a : Seq) (h : s.state = .SynSent) :
    synEstablished (s.shift ka kb) (q + kb) w (a + ka) = (synEstablished s q w a).shift ka kb := by
  obtain ⟨lp, rp, mtu, ini, st, snd, rcv, out, inc, tmo⟩ := s
  cases h
  unfold synEstablished
  rw [add_right_comm' q kb 1]
  rfl

theorem shift_synReceived (s : Tcb) (q : Seq) (w : U16) (a : Seq) (h : s.state = .SynSent) :
    synReceived (s.shift ka kb) (q + kb) w (a + ka) = (synReceived s q w a).shift ka kb := by
  obtain ⟨lp, rp, mtu, ini, st, snd, rcv, out, inc, tmo⟩ := s
  cases h
  unfold synReceived
  rw [add_right_comm' q kb 1]
  rfl

/-- the SYN-ACK of a simultaneous open -/
def Tcb.synAckHdr (s : Tcb) : Hdr :=
  (((s.headerBuilder s.snd.iss).withSyn).withAck s.rcv.nxt).withWnd s.rcv.wnd

theorem Tcb.shift_synAckHdr (s : Tcb) (h : s.state ≠ .SynSent) :
    (s.shift ka kb).synAckHdr = s.synAckHdr.shift ka kb := by
  unfold Tcb.synAckHdr
  rw [Tcb.shift_headerBuilder, Tcb.shift_iss, Tcb.shift_rcvnxt ka kb s h, Tcb.shift_rcvwnd]
  rfl

theorem shift_synBlock (s : Tcb) (seg : Hdr)
    (H : s.state = .SynSent → seg.ctl.syn = true → modGt s.snd.una s.snd.iss = seg.ctl.ack) :
    Tcb.synBlock (s.shift ka kb) (seg.shift kb ka) = M.shift ka kb (Tcb.synBlock s seg) := by
  unfold Tcb.synBlock
  rw [Hdr.shift_ctl, Tcb.shift_state]
  by_cases hsyn : (!seg.ctl.syn) = true
  · rw [if_pos hsyn, if_pos hsyn]
    split <;> rfl
  · rw [if_neg hsyn, if_neg hsyn]
    have hs : seg.ctl.syn = true := by simpa using hsyn
    obtain ⟨lp, rp, mtu, ini, st, snd, rcv, out, inc, tmo⟩ := s
    cases st with
    | SynSent =>
      have H' := H rfl hs
      dsimp only at H' ⊢
      rw [Tcb.shift_una, Tcb.shift_iss, modGt_shift]
      dsimp only
      by_cases c : modGt snd.una snd.iss = true
      · rw [if_pos c, if_pos c]
        have ha : seg.ctl.ack = true := by rw [← H']; exact c
        have e := shift_synEstablished ka kb ⟨lp, rp, mtu, ini, .SynSent, snd, rcv, out, inc, tmo⟩
          seg.seq seg.wnd seg.ack rfl
        rw [Hdr.shift_ack_of kb ka seg ha]
        simp only [if_pos ha]
        refine (congrArg (fun t => Tcb.enqueueThen t t.ackHdr (fun s => (.ok (s, none) : Tcb.B))) e).trans ?_
        exact Tcb.shift_enqueueThen ka kb _ _ _ (Tcb.shift_ackHdr ka kb _ (by intro h; cases h)) _ _ (fun u => rfl)
      · rw [if_neg c, if_neg c]
        have ha : seg.ctl.ack = false := by rw [← H']; simpa using c
        have hna : ¬ seg.ctl.ack = true := by rw [ha]; exact Bool.false_ne_true
        have e := shift_synReceived ka kb ⟨lp, rp, mtu, ini, .SynSent, snd, rcv, out, inc, tmo⟩
          seg.seq seg.wnd snd.iss rfl
        simp only [if_neg hna]
        refine (congrArg (fun t => Tcb.enqueueThen t t.synAckHdr (fun s => (.ok (s, some .Success) : Tcb.B))) e).trans ?_
        exact Tcb.shift_enqueueThen ka kb _ _ _ (Tcb.shift_synAckHdr ka kb _ (by intro h; cases h)) _ _ (fun u => rfl)
    | _ =>
      exact Tcb.shift_enqueueThen ka kb _ _ _ (Tcb.shift_ackHdr ka kb _ (by intro h; cases h)) _ _ (fun u => rfl)

/-! ## block 5: segment text -/

/-- advance RCV.NXT over the accepted bytes and buffer them -/
def acceptText (s : Tcb) (n : Seq) (t : List UInt8) : Tcb :=
  { { s with rcv.nxt := s.rcv.nxt + n } with incoming.text := s.incoming.text ++ t }

theorem shift_acceptText (s : Tcb) (n : Seq) (t : List UInt8) (h : s.state ≠ .SynSent) :
    acceptText (s.shift ka kb) n t = (acceptText s n t).shift ka kb := by
  unfold acceptText
  rw [Tcb.shift_rcvnxt ka kb s h, add_right_comm']
  obtain ⟨lp, rp, mtu, ini, st, snd, rcv, out, inc, tmo⟩ := s
  cases st <;> first | exact absurd rfl h | rfl

theorem acceptText_state (s : Tcb) (n : Seq) (t : List UInt8) : (acceptText s n t).state = s.state := rfl

theorem shift_textBlock (s : Tcb) (seg : Hdr) (text : List UInt8) (tl : Seq) (h : s.state ≠ .SynSent) :
    Tcb.textBlock (s.shift ka kb) (seg.shift kb ka) text tl = M.shift ka kb (Tcb.textBlock s seg text tl) := by
  unfold Tcb.textBlock
  by_cases he : text.isEmpty = true
  · rw [if_pos he, if_pos he]; rfl
  · rw [if_neg he, if_neg he, Tcb.shift_state]
    have hw1 := Tcb.shift_isInRcvWindow ka kb s h seg.seq
    have hw2 := Tcb.shift_isInRcvWindow ka kb s h (seg.seq + tl)
    rw [← add_right_comm'] at hw2
    simp only [Hdr.shift_seq, Hdr.shift_ctl, hw1, hw2, Tcb.shift_rcvnxt ka kb s h, add_sub_add_right',
      Tcb.shift_rcvwnd, Tcb.shift_itext]
    generalize (if s.rcv.nxt - seg.seq - BitVec.ofNat 32 seg.ctl.syn.toNat ≤ tl
      then s.rcv.nxt - seg.seq - BitVec.ofNat 32 seg.ctl.syn.toNat else tl) = a
    have key : ∀ n t, Tcb.enqueueThen (acceptText (s.shift ka kb) n t) (acceptText (s.shift ka kb) n t).ackHdr
          (fun s => (.ok (s, none) : Tcb.B)) =
        M.shift ka kb (Tcb.enqueueThen (acceptText s n t) (acceptText s n t).ackHdr (fun s => .ok (s, none))) := by
      intro n t
      rw [shift_acceptText ka kb s n t h]
      exact Tcb.shift_enqueueThen ka kb _ _ _ (Tcb.shift_ackHdr ka kb _ (by rw [acceptText_state]; exact h)) _ _
        (fun u => rfl)
    obtain ⟨lp, rp, mtu, ini, st, snd, rcv, out, inc, tmo⟩ := s
    cases st <;> first
      | exact absurd rfl h
      | rfl
      | (dsimp only at key ⊢
         split
         · rfl
         · split
           · rfl
           · split
             · rfl
             · split
               · rfl
               · split
                 · rfl
                 · exact key _ _)

/-! ## block 6: FIN -/

/-- "advance over the FIN and acknowledge it" -/
def finAdvance (s : Tcb) (seq tl : Seq) : Except String Tcb :=
  if s.state ≠ .SynSent then
    let lastTextByte := seq + tl
    if s.rcv.nxt = lastTextByte || s.rcv.nxt = lastTextByte + 1 then
      let s := { s with rcv.nxt := lastTextByte + 1 }
      s.enqueue s.ackHdr
    else .ok s
  else .ok s

/-- the state transition a FIN causes -/
def finState (s : Tcb) : Tcb.B :=
  match s.state with
  | .SynReceived | .Established => .ok ({ s with state := .CloseWait }, none)
  | .FinWait1 =>
    if s.isFinAcked then
      .ok ({ s with state := .TimeWait, timeouts.timeWait := some TIME_WAIT }, none)
    else .ok ({ s with state := .Closing }, none)
  | .FinWait2 =>
    .ok ({ s with state := .TimeWait, timeouts.timeWait := some TIME_WAIT,
                  timeouts.retransmission := RTO }, none)
  | .TimeWait => .ok ({ s with timeouts.timeWait := some TIME_WAIT }, none)
  | _ => .ok (s, none)

theorem finBlock_eq (s : Tcb) (seg : Hdr) (tl : Seq) :
    Tcb.finBlock s seg tl =
      if !seg.ctl.fin then .ok (s, none) else
      match finAdvance s seg.seq tl with
      | .error e => .error e
      | .ok s => finState s := rfl

def setRcvNxt (s : Tcb) (n : Seq) : Tcb := { s with rcv.nxt := n }

theorem shift_setRcvNxt (s : Tcb) (n : Seq) (h : s.state ≠ .SynSent) :
    setRcvNxt (s.shift ka kb) (n + kb) = (setRcvNxt s n).shift ka kb := by
  obtain ⟨lp, rp, mtu, ini, st, snd, rcv, out, inc, tmo⟩ := s
  cases st <;> first | exact absurd rfl h | rfl

theorem finCond_shift (n q tl : Seq) :
    (decide (n + kb = q + kb + tl) || decide (n + kb = q + kb + tl + 1)) =
      (decide (n = q + tl) || decide (n = q + tl + 1)) := by
  rw [add_right_comm' q kb tl, add_right_comm' (q + tl) kb 1]
  simp only [eq_add_right_iff]

theorem shift_finAdvance (s : Tcb) (seq tl : Seq) :
    finAdvance (s.shift ka kb) (seq + kb) tl = shiftE ka kb (finAdvance s seq tl) := by
  unfold finAdvance
  rw [Tcb.shift_state]
  by_cases h : s.state ≠ .SynSent
  · rw [if_pos h, if_pos h]
    dsimp only
    rw [Tcb.shift_rcvnxt ka kb s h, finCond_shift]
    split
    · have e := shift_setRcvNxt ka kb s (seq + tl + 1) h
      rw [← add_right_comm' (seq + tl) kb 1, ← add_right_comm' seq kb tl] at e
      have e2 := Tcb.shift_enqueue ka kb (setRcvNxt s (seq + tl + 1)) _ _
        (Tcb.shift_ackHdr ka kb (setRcvNxt s (seq + tl + 1)) h)
      rw [← e] at e2
      exact e2
    · rfl
  · rw [if_neg h, if_neg h]; rfl

theorem shift_finState (s : Tcb) :
    finState (s.shift ka kb) = M.shift ka kb (finState s) := by
  unfold finState
  rw [Tcb.shift_state, Tcb.shift_isFinAcked]
  obtain ⟨lp, rp, mtu, ini, st, snd, rcv, out, inc, tmo⟩ := s
  cases st <;> first
    | rfl
    | (dsimp only; split <;> rfl)

theorem finAdvance_state (s u : Tcb) (seq tl : Seq) (h : finAdvance s seq tl = .ok u) : u.state = s.state := by
  unfold finAdvance at h
  split at h
  · dsimp only at h
    split at h
    · rw [Tcb.enqueue_eq] at h
      cases h
      exact (Tcb.enqueueBuilt_frame _ _).2.2.2.2.1
    · cases h; rfl
  · cases h; rfl

theorem shift_finBlock (s : Tcb) (seg : Hdr) (tl : Seq) :
    Tcb.finBlock (s.shift ka kb) (seg.shift kb ka) tl = M.shift ka kb (Tcb.finBlock s seg tl) := by
  rw [finBlock_eq, finBlock_eq, Hdr.shift_ctl, Hdr.shift_seq]
  by_cases hf : (!seg.ctl.fin) = true
  · rw [if_pos hf, if_pos hf]; rfl
  · rw [if_neg hf, if_neg hf, shift_finAdvance]
    cases hx : finAdvance s seg.seq tl with
    | error e => rfl
    | ok u => exact shift_finState ka kb u

end Elvis.Tcp
