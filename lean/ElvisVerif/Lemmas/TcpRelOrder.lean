import ElvisVerif.Lemmas.TcpRelSys2
/-!
# The two `close()` calls of a simultaneous close commute

`releaseRoundBA` is `releaseRound` (`Lemmas/TcpRelSys.lean`) with the closes issued in the other order
(`close B`, `close A`).  `close` on one side reads and writes that side only, so whenever `releaseRound` is
defined, `releaseRoundBA` is defined and ends in the same state.
-/
namespace Elvis.Tcp
open Tcb

/-- `close A` then `close B` = `close B` then `close A` (as far as the state goes) -/
theorem close_comm (s s1 s2 : Sys) (r1 r2 : Res) (h1 : s.step (.close .A) = .ok (s1, r1))
    (h2 : s1.step (.close .B) = .ok (s2, r2)) :
    ∃ s1' r1' r2', s.step (.close .B) = .ok (s1', r1') ∧ s1'.step (.close .A) = .ok (s2, r2') := by
  cases ha : s.a.tcb with
  | none =>
    have e1 : s.step (.close .A) = .ok (s, .noTcb) := by simp only [Sys.step, Op.side, Sys.side, ha]
    rw [e1] at h1
    cases h1
    refine ⟨s2, r2, .noTcb, h2, ?_⟩
    have hb2 : s2.a.tcb = none := by
      cases hb : s.b.tcb with
      | none =>
        have e2 : s.step (.close .B) = .ok (s, .noTcb) := by simp only [Sys.step, Op.side, Sys.side, hb]
        rw [e2] at h2; cases h2; exact ha
      | some tb =>
        cases hc : tb.close with
        | error e => simp only [Sys.step, Op.side, Sys.side, hb, hc] at h2; cases h2
        | ok v =>
          obtain ⟨tb', r⟩ := v
          simp only [Sys.step, Op.side, Sys.side, hb, hc] at h2
          cases h2
          exact ha
    simp only [Sys.step, Op.side, Sys.side, hb2]
  | some ta =>
    cases hca : ta.close with
    | error e => simp only [Sys.step, Op.side, Sys.side, ha, hca] at h1; cases h1
    | ok va =>
      obtain ⟨ta', ra⟩ := va
      have e1 : s.step (.close .A) = .ok (s.setSide .A { s.a with tcb := some ta' }, .closed ra) := by
        simp only [Sys.step, Op.side, Sys.side, ha, hca]
      rw [e1] at h1
      cases h1
      cases hb : s.b.tcb with
      | none =>
        have e2 : (s.setSide .A { s.a with tcb := some ta' }).step (.close .B) =
            .ok (s.setSide .A { s.a with tcb := some ta' }, .noTcb) := by
          simp only [Sys.step, Op.side, Sys.side, Sys.setSide, hb]
        rw [e2] at h2
        cases h2
        refine ⟨s, .noTcb, .closed ra, ?_, e1⟩
        simp only [Sys.step, Op.side, Sys.side, hb]
      | some tb =>
        cases hcb : tb.close with
        | error e =>
          simp only [Sys.step, Op.side, Sys.side, Sys.setSide, hb, hcb] at h2
          cases h2
        | ok vb =>
          obtain ⟨tb', rb⟩ := vb
          simp only [Sys.step, Op.side, Sys.side, Sys.setSide, hb, hcb] at h2
          cases h2
          refine ⟨s.setSide .B { s.b with tcb := some tb' }, .closed rb, .closed ra, ?_, ?_⟩
          · simp only [Sys.step, Op.side, Sys.side, hb, hcb]
          · simp only [Sys.step, Op.side, Sys.side, Sys.setSide, ha, hca]

/-- `releaseRound` with the closes in the other order -/
def releaseRoundBA (s : Sys) : Except String Sys :=
  match s.step (.close .B) with
  | .error e => .error e
  | .ok (s1, _) =>
  match s1.step (.close .A) with
  | .error e => .error e
  | .ok (s2, _) =>
  match phase s2 with
  | .error e => .error e
  | .ok s3 =>
  match phase s3 with
  | .error e => .error e
  | .ok s4 =>
  match s4.step (.tick .A (TIME_WAIT + 1)) with
  | .error e => .error e
  | .ok (s5, _) =>
  match s5.step (.tick .B (TIME_WAIT + 1)) with
  | .error e => .error e
  | .ok (s6, _) => .ok s6

/-- the order of the two closes does not matter -/
theorem releaseRoundBA_of_releaseRound (s s' : Sys) (h : releaseRound s = .ok s') : releaseRoundBA s = .ok s' := by
  unfold releaseRound at h
  split at h
  · cases h
  · rename_i s1 r1 st1
    split at h
    · cases h
    · rename_i s2 r2 st2
      obtain ⟨s1', r1', r2', e1, e2⟩ := close_comm s s1 s2 r1 r2 st1 st2
      unfold releaseRoundBA
      rw [e1]
      dsimp only
      rw [e2]
      exact h

end Elvis.Tcp
