//! C15: address generator + DHCP.
//!   `c15`          op histories on the real `IpGenerator` (diffed against the Lean model) + oracle
//!   `c15-dhcp`     real `DhcpServer::demux` / `DhcpClient::demux` driven message by message under an
//!                  arbitrary delivery order with duplication (diffed against the Lean model) + oracle
//!   `c15-sim`      1..16 DHCP clients started together in a real simulation (child processes,
//!                  because `run_internet` installs a panic hook that exits the process) + oracle
//!   `c15-simchild` hidden: one batch of simulations, one result line per simulation on stdout
use hcommon::*;

mod gen;
mod dhcp;
mod sim;

pub fn run(args: &Args) {
    match args.prop.as_str() {
        "c15" => gen::run(args),
        "c15-dhcp" => dhcp::run(args),
        "c15-sim" => sim::run(args),
        "c15-simchild" => sim::child(args),
        other => {
            eprintln!("hfull: unknown c15 variant {}", other);
            std::process::exit(2);
        }
    }
}
