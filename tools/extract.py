#!/usr/bin/env python3
"""Source -> Lean extraction (run on every check).

Reads /repo's *current* Rust sources and (re)writes lean/ElvisVerif/Generated/*.lean:
numeric constants, the one-expression arithmetic kernels, and structural certificates.
Fails closed: anything it cannot translate is an error (reported by ./check as a broken tie).
Files are rewritten only when their content changes, so Lean's build cache stays valid.
"""
import os, re, sys

REPO = os.environ.get("ELVIS_REPO") or os.path.normpath(os.path.join(os.path.dirname(os.path.abspath(__file__)), "..", "..", "repo"))
CORE = os.path.join(REPO, "sim", "elvis-core", "src")
ELVIS = os.path.join(REPO, "sim", "elvis", "src")
OUT = os.path.join(os.path.dirname(os.path.abspath(__file__)), "..", "lean", "ElvisVerif", "Generated")


class ExtractError(Exception):
    pass


def read(path):
    with open(path) as f:
        return f.read()


def strip_comments(src):
    src = re.sub(r"/\*.*?\*/", "", src, flags=re.S)
    return re.sub(r"//[^\n]*", "", src)


def write_if_changed(name, text):
    p = os.path.join(OUT, name)
    os.makedirs(OUT, exist_ok=True)
    if os.path.exists(p) and read(p) == text:
        return
    with open(p, "w") as f:
        f.write(text)


def check_message_immutability():
    """C07 structural certificate: message/ holds no unsafe code, no in-place mutation of shared
    chunk storage and no interior mutability."""
    bad = []
    files = [os.path.join(CORE, "message.rs")] + [os.path.join(CORE, "message", f) for f in sorted(os.listdir(os.path.join(CORE, "message")))]
    for p in files:
        src = strip_comments(read(p)).split("#[cfg(test)]")[0]
        for tok in ("unsafe", "get_mut(", "make_mut(", "RefCell", "Cell<", "Mutex", "RwLock", "Atomic", "as_mut_ptr", "get_mut_unchecked"):
            if tok in src:
                bad.append(f"{os.path.relpath(p, REPO)}: `{tok}`")
    if bad:
        raise ExtractError("message/ is no longer evidently immutable-by-construction: " + "; ".join(bad))


# ---------------------------------------------------------------------------------------------
# TCB constants (C01 C03 C12 C17) -> Generated/TcbConsts.lean
# ---------------------------------------------------------------------------------------------
def duration_ms(expr, what):
    m = re.fullmatch(r"Duration::from_(secs|millis)\((\d[\d_]*)\)", expr.strip())
    if not m:
        raise ExtractError(f"{what}: cannot read duration `{expr.strip()}`")
    n = int(m.group(2).replace("_", ""))
    return n * 1000 if m.group(1) == "secs" else n


def const_expr(src, name, what):
    m = re.search(r"const\s+" + name + r"\s*:\s*[\w:]+\s*=\s*([^;]+);", src)
    if not m:
        raise ExtractError(f"{what}: `const {name}` not found")
    return m.group(1).strip()


def extract_tcb_consts():
    tcb = strip_comments(read(os.path.join(CORE, "protocols", "tcp", "tcb.rs")))
    rss = strip_comments(read(os.path.join(CORE, "protocols", "tcp", "tcb", "receive_sequence_space.rs")))
    par = strip_comments(read(os.path.join(CORE, "protocols", "tcp", "tcp_parsing.rs")))
    msl = duration_ms(const_expr(tcb, "MSL", "tcb.rs"), "MSL")
    rto = duration_ms(const_expr(tcb, "RETRANSMISSION_TIMEOUT", "tcb.rs"), "RETRANSMISSION_TIMEOUT")
    sfh = const_expr(tcb, "SPACE_FOR_HEADERS", "tcb.rs")
    if not re.fullmatch(r"\d+", sfh):
        raise ExtractError(f"SPACE_FOR_HEADERS is not a literal: {sfh}")
    # every TIME-WAIT assignment must be 2*MSL
    tws = re.findall(r"time_wait\s*=\s*Some\(([^)]*)\)", tcb)
    tws = [t.strip() for t in tws if "delta_time" not in t]
    if not tws or any(t not in ("MSL * 2", "2 * MSL") for t in tws):
        raise ExtractError(f"TIME-WAIT timer is not uniformly 2*MSL: {tws}")
    m = re.search(r"impl Default for ReceiveSequenceSpace\s*\{.*?Self\s*\{\s*irs:\s*(\d+),\s*nxt:\s*(\d+),\s*wnd:\s*([\w:]+),?\s*\}", rss, re.S)
    if not m or m.group(1) != "0" or m.group(2) != "0":
        raise ExtractError("ReceiveSequenceSpace::default is not {irs: 0, nxt: 0, wnd: <const>}")
    wnd = {"u16::MAX": 65535}.get(m.group(3))
    if wnd is None:
        if not re.fullmatch(r"\d+", m.group(3)):
            raise ExtractError(f"default receive window not a literal: {m.group(3)}")
        wnd = int(m.group(3))
    words = const_expr(par, "BASE_HEADER_WORDS", "tcp_parsing.rs")
    octets = const_expr(par, "BASE_HEADER_OCTETS", "tcp_parsing.rs")
    if not re.fullmatch(r"\d+", words) or octets != "BASE_HEADER_WORDS * 4":
        raise ExtractError(f"TCP base header constants changed shape: {words} / {octets}")
    # without the compute_checksum feature the checksum field is the constant 0
    util = strip_comments(read(os.path.join(CORE, "protocols", "utility.rs")))
    if not re.search(r'#\[cfg\(not\(feature = "compute_checksum"\)\)\]\s*pub fn as_u16\(&self\) -> u16 \{\s*0\s*\}', util):
        raise ExtractError("Checksum::as_u16 without compute_checksum is no longer the constant 0")
    lines = ["-- GENERATED from tcp/tcb.rs, tcb/receive_sequence_space.rs, tcp_parsing.rs by tools/extract.py; do not edit",
             "namespace Elvis.Gen.Tcb",
             f"/-- `MSL` in milliseconds -/\ndef mslMs : Nat := {msl}",
             f"/-- `RETRANSMISSION_TIMEOUT` in milliseconds -/\ndef rtoMs : Nat := {rto}",
             "/-- every `time_wait = Some(..)` in tcb.rs is `2 * MSL` -/\ndef timeWaitMs : Nat := 2 * mslMs",
             f"/-- `SPACE_FOR_HEADERS` in `Tcb::segments` -/\ndef spaceForHeaders : Nat := {sfh}",
             f"/-- `ReceiveSequenceSpace::default().wnd` -/\ndef defaultRcvWnd : Nat := {wnd}",
             f"/-- `BASE_HEADER_WORDS` -/\ndef baseHeaderWords : Nat := {words}",
             "/-- `BASE_HEADER_OCTETS = BASE_HEADER_WORDS * 4` -/\ndef baseHeaderOctets : Nat := baseHeaderWords * 4",
             "/-- `Checksum::as_u16` without the `compute_checksum` feature -/\ndef checksumWithoutFeature : Nat := 0",
             "end Elvis.Gen.Tcb", ""]
    write_if_changed("TcbConsts.lean", "\n".join(lines))


# ---------------------------------------------------------------------------------------------
# modular_cmp.rs one-expression kernels -> Generated/ModCmpKernels.lean
# ---------------------------------------------------------------------------------------------
KTOK = re.compile(r"\s*(?:(\d[\d_]*)|([A-Za-z_][A-Za-z0-9_]*)|(<<|>>|<=|>=|==|&&|\|\||[-+<>()!,.&|]))")


def ktokens(s):
    out, i = [], 0
    while i < len(s):
        m = KTOK.match(s, i)
        if not m:
            if s[i:].strip() == "":
                break
            raise ExtractError("modular_cmp.rs: cannot tokenise `" + s[i:i + 20] + "`")
        i = m.end()
        out.append(("num", m.group(1).replace("_", "")) if m.group(1) else ("id", m.group(2)) if m.group(2) else ("op", m.group(3)))
    return out


class KParser:
    """|| < && < comparison < shift < postfix method calls; checked + - are refused"""

    def __init__(s, toks, fns):
        s.t, s.i, s.fns = toks, 0, fns

    def peek(s):
        return s.t[s.i] if s.i < len(s.t) else ("eof", "")

    def eat(s, v=None):
        k = s.peek()
        if v is not None and k[1] != v:
            raise ExtractError(f"modular_cmp.rs: expected {v} got {k}")
        s.i += 1
        return k

    def expr(s):
        l = s.and_()
        while s.peek() == ("op", "||"):
            s.eat()
            l = f"({l} || {s.and_()})"
        return l

    def and_(s):
        l = s.cmp()
        while s.peek() == ("op", "&&"):
            s.eat()
            l = f"({l} && {s.cmp()})"
        return l

    def cmp(s):
        l = s.add()
        if s.peek()[0] == "op" and s.peek()[1] in ("<", ">", "<=", ">=", "=="):
            op = s.eat()[1]
            r = s.add()
            return {"<": f"decide ({l} < {r})", ">": f"decide ({l} > {r})", "<=": f"decide ({l} ≤ {r})",
                    ">=": f"decide ({l} ≥ {r})", "==": f"({l} == {r})"}[op]
        return l

    def add(s):
        l = s.shift()
        if s.peek()[0] == "op" and s.peek()[1] in "+-":
            raise ExtractError("modular_cmp.rs: checked +/- is outside the kernel grammar")
        return l

    def shift(s):
        l = s.post()
        while s.peek() == ("op", "<<"):
            s.eat()
            l = f"({l} <<< {s.post()})"
        return l

    def args(s):
        s.eat("(")
        a = []
        while s.peek() != ("op", ")"):
            a.append(s.expr())
            if s.peek() == ("op", ","):
                s.eat()
        s.eat(")")
        return a

    def post(s):
        a = s.atom()
        while s.peek() == ("op", "."):
            s.eat()
            name = s.eat()[1]
            args = s.args()
            if name == "wrapping_sub" and len(args) == 1:
                a = f"({a} - {args[0]})"
            elif name == "wrapping_add" and len(args) == 1:
                a = f"({a} + {args[0]})"
            elif name == "offset" and not args:
                a = f"(Cmp.offset {a})"
            else:
                raise ExtractError("modular_cmp.rs: method " + name)
        return a

    def atom(s):
        k = s.eat()
        if k[0] == "num":
            return f"({k[1]} : BitVec 32)"
        if k == ("op", "("):
            e = s.expr()
            s.eat(")")
            return e
        if k[0] == "id":
            if s.peek() == ("op", "("):
                if k[1] not in s.fns:
                    raise ExtractError("modular_cmp.rs: call of " + k[1])
                return "(" + " ".join([k[1]] + s.args()) + ")"
            return k[1]
        raise ExtractError("modular_cmp.rs: unexpected " + str(k))


def extract_modcmp_kernels():
    src = strip_comments(read(os.path.join(CORE, "protocols", "tcp", "tcb", "modular_cmp.rs"))).split("#[cfg(test)]")[0]
    fn_re = re.compile(r"pub fn (\w+)\(([^)]*)\)\s*->\s*bool\s*\{(.*?)\n\}", re.S)
    fns = list(fn_re.finditer(src))
    names = [m.group(1) for m in fns]
    want = ["mod_lt", "mod_leq", "mod_gt", "mod_geq", "mod_bounded"]
    if names != want:
        raise ExtractError(f"modular_cmp.rs: expected functions {want}, found {names}")
    m = re.search(r"fn offset\(self\) -> u32 \{\s*match self \{\s*Lt => (\d+),\s*Leq => (\d+),\s*\}\s*\}", src)
    if not m:
        raise ExtractError("modular_cmp.rs: ModCmp::offset changed shape")
    if not re.search(r"pub enum ModCmp \{\s*Lt,\s*Leq,\s*\}", src):
        raise ExtractError("modular_cmp.rs: enum ModCmp changed")
    out = ["-- GENERATED from tcp/tcb/modular_cmp.rs by tools/extract.py; do not edit",
           "namespace Elvis.Gen.ModCmp",
           "inductive Cmp | Lt | Leq deriving DecidableEq, Repr",
           f"def Cmp.offset : Cmp → BitVec 32 | .Lt => {m.group(1)} | .Leq => {m.group(2)}"]
    for f in fns:
        name, params, body = f.group(1), f.group(2), f.group(3)
        ps = []
        for p in params.split(","):
            n, t = [x.strip() for x in p.split(":")]
            if t not in ("u32", "ModCmp"):
                raise ExtractError(f"modular_cmp.rs: parameter type {t}")
            ps.append(f"({n} : {'BitVec 32' if t == 'u32' else 'Cmp'})")
        stmts = [x.strip() for x in body.strip().split(";") if x.strip()]
        lines = []
        for st in stmts[:-1]:
            mm = re.match(r"let (\w+) = (.*)$", st, re.S)
            if not mm:
                raise ExtractError("modular_cmp.rs: statement `" + st + "`")
            p = KParser(ktokens(mm.group(2)), names)
            lines.append(f"  let {mm.group(1)} := {p.expr()}")
            if p.peek()[0] != "eof":
                raise ExtractError("modular_cmp.rs: trailing tokens in `" + st + "`")
        p = KParser(ktokens(stmts[-1]), names)
        lines.append("  " + p.expr())
        if p.peek()[0] != "eof":
            raise ExtractError("modular_cmp.rs: trailing tokens in `" + stmts[-1] + "`")
        out.append(f"def {name} {' '.join(ps)} : Bool :=\n" + "\n".join(lines))
    out += ["end Elvis.Gen.ModCmp", ""]
    write_if_changed("ModCmpKernels.lean", "\n".join(out))


def main():
    check_message_immutability()
    extract_tcb_consts()
    extract_modcmp_kernels()
    consts = ["-- GENERATED from /repo sources by tools/extract.py on every check; do not edit", "namespace Elvis.Gen", "end Elvis.Gen", ""]
    write_if_changed("Consts.lean", "\n".join(consts))


if __name__ == "__main__":
    try:
        main()
    except ExtractError as e:
        print("EXTRACT-ERROR:", e)
        sys.exit(1)
