import ElvisVerif.Lemmas.TcpRelFwd2
import ElvisVerif.Lemmas.TcpConvBatch
/-!
# FIN-WAIT-1 / FIN-WAIT-2 take a batch of pure ACKs

The closer has segmentized all its text and numbered its FIN (`outgoing.text = []`); the peer's pure ACKs — of the
data, then of the FIN — arrive in order.  `arrive_ack_fwx`: one pure ACK at `RCV.NXT` whose ACK field is old or
acceptable: only `SND.UNA` and the retransmission queue move, and the state is FIN-WAIT-2 as soon as
`SND.UNA = SND.NXT`.  `ackList_fwx`: a list of them (induction).
-/
namespace Elvis.Tcp
open Elvis.ModCmp Elvis.Tcp.Fin
namespace Tcb

/-- a pure ACK: no RST, SYN, FIN, text; the ACK bit -/
structure PureAck (g : Segment) : Prop where
  rst : g.hdr.ctl.rst = false
  syn : g.hdr.ctl.syn = false
  fin : g.hdr.ctl.fin = false
  ackb : g.hdr.ctl.ack = true
  text : g.text = []

/-- the effect of one pure ACK on a closer in FIN-WAIT-1 / FIN-WAIT-2 -/
structure FwFx (t : Tcb) (seg : Hdr) (t2 : Tcb) : Prop where
  una : t2.snd.una = if modLeq seg.ack t.snd.una then t.snd.una else seg.ack
  rtx : t2.outgoing.retransmit = if modLeq seg.ack t.snd.una then t.outgoing.retransmit
    else t.outgoing.retransmit.filter (keepFor seg.ack)
  rcv : t2.rcv = t.rcv
  inc : t2.incoming = t.incoming
  otext : t2.outgoing.text = t.outgoing.text
  one : t2.outgoing.oneshot = t.outgoing.oneshot
  nxt : t2.snd.nxt = t.snd.nxt
  mtu : t2.mtu = t.mtu
  iss : t2.snd.iss = t.snd.iss
  lp : t2.localPort = t.localPort
  rp : t2.remotePort = t.remotePort
  st : t2.state = .FinWait1 ∨ t2.state = .FinWait2
  done : t2.snd.una = t2.snd.nxt → t2.state = .FinWait2
  keep2 : t.state = .FinWait2 → t2.state = .FinWait2

theorem arrive_ack_fwx (t : Tcb) (g : Segment) (hst : t.state = .FinWait1 ∨ t.state = .FinWait2)
    (hw : t.rcv.wnd = 65535#16) (hheap : t.incoming.segments = []) (ht : t.outgoing.text = [])
    (hp : PureAck g) (hseq : g.hdr.seq = t.rcv.nxt)
    (hg : modLeq g.hdr.ack t.snd.una = true ∨ modBounded t.snd.una .Lt g.hdr.ack .Leq t.snd.nxt = true) :
    ∃ t2, t.segmentArrives g = .ok (t2, .Ok) ∧ FwFx t g.hdr t2 := by
  have hns : t.state ≠ .SynSent := by rcases hst with h | h <;> rw [h] <;> simp
  have hok := isSeqOk_ack_nxt t g hw hp.syn hp.fin hp.text hseq
  obtain ⟨t1, e1, fx⟩ := ackEst_fwd t g.hdr hg
  have hfa : t1.isFinAcked = (t1.snd.nxt == t1.snd.una) := by
    unfold isFinAcked
    rw [finPending_eq, fx.otext, ht]
    simp
  have fin : ∀ t2 : Tcb, ackBlock t g.hdr = .ok (t2, none) → t2.state ≠ .SynSent →
      t.segmentArrives g = .ok (t2, .Ok) := by
    intro t2 c2 hns2
    have hps := process_tail t t2 g hns hns2 hok hp.rst hp.syn hp.text c2
    rw [finBlock_nofin _ _ _ hp.fin] at hps
    exact arrive_single t g hns hheap hok (by rw [hseq]; exact C01.modGt_self _) _ _ hps rfl
  rcases hst with h1 | h2
  · -- FIN-WAIT-1
    cases hb : t1.isFinAcked with
    | false =>
      have c2 : ackBlock t g.hdr = .ok (t1, none) := by
        unfold ackBlock
        rw [if_neg (by simp [hp.ackb]), h1]
        dsimp only
        unfold afterAckEstablished
        rw [e1]
        dsimp only
        rw [hb]
        simp
      have e := fin t1 c2 (by rw [fx.st, h1]; simp)
      have k := segmentArrives_snd t g t1 .Ok e
      refine ⟨t1, e, fx.una, fx.rtx, fx.rcv, fx.inc, fx.otext, fx.one, fx.nxt, fx.mtu, k.iss, k.lp, k.rp,
        Or.inl (by rw [fx.st, h1]), ?_, fun h => by rw [h1] at h; cases h⟩
      intro hu
      rw [hfa, hu] at hb
      simp at hb
    | true =>
      have c2 : ackBlock t g.hdr = .ok (({ t1 with state := .FinWait2 } : Tcb), none) := by
        unfold ackBlock
        rw [if_neg (by simp [hp.ackb]), h1]
        dsimp only
        unfold afterAckEstablished
        rw [e1]
        dsimp only
        rw [hb]
        simp
      have e := fin _ c2 (by simp)
      have k := segmentArrives_snd t g _ .Ok e
      exact ⟨_, e, fx.una, fx.rtx, fx.rcv, fx.inc, fx.otext, fx.one, fx.nxt, fx.mtu, k.iss, k.lp, k.rp,
        Or.inr rfl, fun _ => rfl, fun _ => rfl⟩
  · -- FIN-WAIT-2
    have c2 : ackBlock t g.hdr = .ok (t1, none) := by
      unfold ackBlock
      rw [if_neg (by simp [hp.ackb]), h2]
      dsimp only
      unfold afterAckEstablished
      rw [e1]
      simp
    have e := fin t1 c2 (by rw [fx.st, h2]; simp)
    have k := segmentArrives_snd t g t1 .Ok e
    exact ⟨t1, e, fx.una, fx.rtx, fx.rcv, fx.inc, fx.otext, fx.one, fx.nxt, fx.mtu, k.iss, k.lp, k.rp,
      Or.inr (by rw [fx.st, h2]), fun _ => by rw [fx.st, h2], fun _ => by rw [fx.st, h2]⟩

/-- the effect of a batch of pure ACKs -/
structure FwListFx (iss : Seq) (t : Tcb) (gs : List Segment) (t' : Tcb) : Prop where
  una : off iss t'.snd.una = max (off iss t.snd.una) (maxAck iss gs)
  rtx : ∀ tr ∈ t'.outgoing.retransmit, tr ∈ t.outgoing.retransmit ∧ keepFor t'.snd.una tr = true
  rcv : t'.rcv = t.rcv
  inc : t'.incoming = t.incoming
  otext : t'.outgoing.text = t.outgoing.text
  one : t'.outgoing.oneshot = t.outgoing.oneshot
  nxt : t'.snd.nxt = t.snd.nxt
  mtu : t'.mtu = t.mtu
  iss : t'.snd.iss = t.snd.iss
  lp : t'.localPort = t.localPort
  rp : t'.remotePort = t.remotePort
  st : t'.state = .FinWait1 ∨ t'.state = .FinWait2
  done : gs ≠ [] → t'.snd.una = t'.snd.nxt → t'.state = .FinWait2

theorem ackList_fwx (iss : Seq) (N : Nat) (hN : N < 2147483648) (gs : List Segment) :
    ∀ (t : Tcb), (t.state = .FinWait1 ∨ t.state = .FinWait2) → t.rcv.wnd = 65535#16 → t.incoming.segments = [] →
      t.outgoing.text = [] → t.snd.iss = iss → off iss t.snd.nxt = N → off iss t.snd.una ≤ N →
      (∀ g ∈ gs, PureAck g ∧ g.hdr.seq = t.rcv.nxt ∧ 1 ≤ off iss g.hdr.ack ∧ off iss g.hdr.ack ≤ N) →
      (∀ tr ∈ t.outgoing.retransmit, keepFor t.snd.una tr = true) →
      ∃ t', arriveList t gs = .ok t' ∧ FwListFx iss t gs t' := by
  induction gs with
  | nil =>
    intro t hst hw hheap htext hiss hsent hu hall hq
    exact ⟨t, rfl, by simp [maxAck], fun tr htr => ⟨htr, hq tr htr⟩, rfl, rfl, rfl, rfl, rfl, rfl, rfl, rfl, rfl, hst,
      fun h => (h rfl).elim⟩
  | cons g rest ih =>
    intro t hst hw hheap htext hiss hsent hu hall hq
    obtain ⟨hp, hseq, ha1, ha2⟩ := hall g List.mem_cons_self
    have hiff := modLeq_iff_off iss g.hdr.ack t.snd.una (by omega) (by omega)
    have hgood : modLeq g.hdr.ack t.snd.una = true ∨ modBounded t.snd.una .Lt g.hdr.ack .Leq t.snd.nxt = true := by
      rcases Nat.lt_or_ge (off iss t.snd.una) (off iss g.hdr.ack) with hlt | hge
      · exact Or.inr (bounded_of_off iss _ _ _ (by omega) hlt (by omega))
      · exact Or.inl (hiff.2 hge)
    obtain ⟨t2, e2, fx⟩ := arrive_ack_fwx t g hst hw hheap htext hp hseq hgood
    -- the effect in offsets
    have hu2 : off iss t2.snd.una = max (off iss t.snd.una) (off iss g.hdr.ack) := by
      by_cases hle : modLeq g.hdr.ack t.snd.una = true
      · rw [fx.una, if_pos hle]
        have := hiff.1 hle; omega
      · rw [fx.una, if_neg hle]
        have : ¬ off iss g.hdr.ack ≤ off iss t.snd.una := fun h => hle (hiff.2 h)
        omega
    have hq2 : ∀ tr ∈ t2.outgoing.retransmit, tr ∈ t.outgoing.retransmit ∧ keepFor t2.snd.una tr = true := by
      intro tr htr
      by_cases hle : modLeq g.hdr.ack t.snd.una = true
      · rw [fx.rtx, if_pos hle] at htr
        rw [fx.una, if_pos hle]
        exact ⟨htr, hq tr htr⟩
      · rw [fx.rtx, if_neg hle] at htr
        rw [fx.una, if_neg hle]
        exact ⟨(List.mem_filter.1 htr).1, (List.mem_filter.1 htr).2⟩
    obtain ⟨t', e', lf⟩ := ih t2 fx.st (by rw [fx.rcv]; exact hw) (by rw [fx.inc]; exact hheap)
      (by rw [fx.otext]; exact htext) (by rw [fx.iss]; exact hiss) (by rw [fx.nxt]; exact hsent)
      (by rw [hu2]; omega)
      (fun g' hg' => by
        obtain ⟨a, b, c, d⟩ := hall g' (List.mem_cons_of_mem _ hg')
        exact ⟨a, by rw [fx.rcv]; exact b, c, d⟩)
      (fun tr htr => (hq2 tr htr).2)
    refine ⟨t', by simp only [arriveList, e2]; exact e', ?_, fun tr htr => ?_, by rw [lf.rcv, fx.rcv],
      by rw [lf.inc, fx.inc], by rw [lf.otext, fx.otext], by rw [lf.one, fx.one], by rw [lf.nxt, fx.nxt],
      by rw [lf.mtu, fx.mtu], by rw [lf.iss, fx.iss], by rw [lf.lp, fx.lp], by rw [lf.rp, fx.rp], lf.st, fun _ hd => ?_⟩
    · rw [lf.una, hu2]
      simp only [maxAck]
      omega
    · obtain ⟨h1, h2⟩ := lf.rtx tr htr
      exact ⟨(hq2 tr h1).1, h2⟩
    · cases rest with
      | nil =>
        simp only [arriveList] at e'
        cases e'
        exact fx.done hd
      | cons g' rest' => exact lf.done (by simp) hd

end Tcb
end Elvis.Tcp
