//! Worker side of `c14-stack` / `c17-demux`: builds the scenario from the op lines, runs it on the
//! paused-clock runtime, observes the victim around every injection and evaluates the oracles.
use super::wire::*;
use super::{addr, parse_cfg, parse_op, Cfg, Op, UDP_EXACT, UDP_SRC, UDP_WILD};
use crate::scaffold::*;
use elvis_core::{
    machine::Machine,
    network::Mac,
    protocol::{DemuxError, NotifyType, StartError},
    protocols::{
        ipv4::Ipv4Address,
        tcp::verif::{publish_session_views, SessionView},
        Arp, Endpoint, Endpoints, Ipv4, Pci, Tcp, Udp,
    },
    Control, ExitStatus, Message, Protocol, Session, Shutdown,
};
use hcommon::hex;
use std::collections::{BTreeMap, HashMap};
use std::sync::{Arc, Mutex};
use std::time::Duration;
use tokio::sync::Barrier;

type Ep2 = (u32, u16);
type Key = (Ep2, Ep2);

fn ep_of(e: Endpoint) -> Ep2 {
    (e.address.to_u32(), e.port)
}
fn endpoint(e: Ep2) -> Endpoint {
    Endpoint::new(Ipv4Address::from(e.0), e.1)
}
fn fmt_ep(e: Ep2) -> String {
    format!("{}:{}", fmt_addr(e.0), e.1)
}

/// legitimate stream byte `off` written by `side` on connection `conn` (values < 251; forged
/// payloads use 0xfb..0xff so a forged octet never equals the expected one)
fn pat(conn: usize, side: char, off: u64) -> u8 {
    ((off * 7 + off / 251 + conn as u64 * 31 + if side == 'c' { 3 } else { 101 }) % 251) as u8
}
fn forged(len: usize) -> Vec<u8> {
    (0..len).map(|i| 0xfb + (i % 5) as u8).collect()
}
fn legit_datagram(j: usize, len: usize) -> Vec<u8> {
    let mut p = b"LEGIT".to_vec();
    p.push(j as u8);
    while p.len() < len.max(6) {
        p.push((p.len() * 3 + j) as u8);
    }
    p
}

/// everything about the victim that a rejected frame must leave alone
#[derive(Clone, Debug, PartialEq, Default)]
struct Obs {
    sessions: Vec<Key>,
    listens: Vec<(Ep2, String)>,
    udp: Vec<(Ep2, String)>,
    ipv4: Vec<(u32, u8, String)>,
    arp: String,
    /// per session of the table: canonical description of its TCB (timers excluded)
    views: Vec<(Key, String)>,
    /// raw view per session (state, RCV.NXT, ...) for the classification
    raw: Vec<(Key, SessionView)>,
    /// bytes the victim's application has been handed per connection
    delivered: Vec<(Key, usize)>,
}

fn fnv(b: &[u8]) -> u32 {
    let mut h: u32 = 2166136261;
    for x in b {
        h = (h ^ *x as u32).wrapping_mul(16777619);
    }
    h
}

fn describe(v: &SessionView) -> String {
    match &v.tcb {
        None => format!("unpublished ended={}", v.task_ended),
        Some(t) => {
            let mut heap: Vec<(u32, usize, u32)> = t.incoming_segments.iter().map(|(h, x)| (h.seq, x.len(), fnv(x))).collect();
            heap.sort();
            let rtx: Vec<(u32, u8, usize, u32)> = t.retransmit.iter().map(|(h, x, _)| (h.seq, u8::from(h.ctl), x.len(), fnv(x))).collect();
            format!(
                "state={:?} listen={} mtu={} snd={:?} rcv={:?} out_text={}/{:08x} rtx={:?} heap={:?} in_text={}/{:08x} time_wait={} ended={}",
                t.state,
                t.initiation_listen,
                t.mtu,
                t.snd,
                t.rcv,
                t.outgoing_text.len(),
                fnv(&t.outgoing_text),
                rtx,
                heap,
                t.incoming_text.len(),
                fnv(&t.incoming_text),
                t.time_wait.is_some(),
                v.task_ended
            )
        }
    }
}

#[derive(Clone, Debug)]
enum DEv {
    Opened { op: usize, result: String },
    Conn { machine: usize, key: Key },
    Wrote { op: usize, conn: usize, side: char, off: u64, len: usize, result: String },
    Data { machine: usize, key: Key, bytes: Vec<u8>, t_us: u64 },
    Inj { op: usize, t_us: u64, a: usize, inj: usize, b: usize, pre: Box<Obs>, post: Box<Obs>, result: String, tgt: String, bytes: Vec<u8>, smac: u64, calls: Vec<&'static str>, mid_sessions: Vec<Key>, protos: Vec<String> },
    Fin { op: usize },
}

struct Shared {
    cfg: Cfg,
    devs: Mutex<Vec<DEv>>,
}

#[derive(Clone)]
enum DAct {
    Open { op: usize, conn: usize },
    Write { op: usize, conn: usize, side: char, len: usize },
    Inject { op: usize, what: Op },
    Fin { op: usize },
}

struct Driver {
    idx: usize,
    script: Vec<(u64, DAct)>,
    sh: Arc<Shared>,
    log: Arc<Log>,
    sessions: Mutex<HashMap<Key, Arc<dyn Session>>>,
    written: Mutex<HashMap<(usize, char), u64>>,
}

impl Driver {
    /// this machine's (local, remote) endpoints of connection `k` when it plays `side`
    fn key_of(&self, k: usize, side: char) -> Key {
        let c = self.sh.cfg.conn(k);
        let srv = (addr(0), c.sport);
        let cli = (addr(c.client), c.cport);
        if side == 's' {
            (srv, cli)
        } else {
            (cli, srv)
        }
    }

    fn delivered(&self) -> Vec<(Key, usize)> {
        let mut m: BTreeMap<Key, usize> = BTreeMap::new();
        for e in self.sh.devs.lock().unwrap().iter() {
            if let DEv::Data { machine, key, bytes, .. } = e {
                if *machine == self.idx {
                    *m.entry(*key).or_insert(0) += bytes.len();
                }
            }
        }
        m.into_iter().collect()
    }

    fn observe(&self, machine: &Arc<Machine>) -> Obs {
        let mut o = Obs::default();
        if let Some(tcp) = machine.protocol::<Tcp>() {
            let (s, l) = tcp.verif_tables();
            o.sessions = s.iter().map(|e| (ep_of(e.local), ep_of(e.remote))).collect();
            o.sessions.sort();
            o.listens = l.iter().map(|(e, id)| (ep_of(*e), Target::of(*id).name())).collect();
            o.listens.sort();
            for k in &o.sessions {
                if let Some(v) = tcp.verif_session_view(Endpoints::new(endpoint(k.0), endpoint(k.1))) {
                    o.views.push((*k, describe(&v)));
                    o.raw.push((*k, v));
                }
            }
        }
        if let Some(udp) = machine.protocol::<Udp>() {
            o.udp = udp.verif_bindings().iter().map(|(e, id)| (ep_of(*e), Target::of(*id).name())).collect();
            o.udp.sort();
        }
        if let Some(ip) = machine.protocol::<Ipv4>() {
            o.ipv4 = ip.verif_bindings().iter().map(|(a, p, id)| (a.to_u32(), *p as u8, Target::of(*id).name())).collect();
            o.ipv4.sort();
        }
        if let Some(arp) = machine.protocol::<Arp>() {
            o.arp = format!("{:?}", arp.verif_snapshot());
        }
        o.delivered = self.delivered();
        o
    }

    /// resolve a `seg` line against the victim's TCB as it is right now
    fn build_seg(&self, what: &Op, pre: &Obs) -> Option<(String, u64, Vec<u8>)> {
        let Op::Seg { conn, fl, seqb, seqo, ackb, acko, wnd, len, doff, cut, sp, dp, .. } = what else { return None };
        let cfg = &self.sh.cfg;
        let (local, remote, remote_machine) = cfg.at_victim(*conn)?;
        let view = pre.raw.iter().find(|(k, _)| *k == (local, remote)).and_then(|(_, v)| v.tcb.clone());
        let (rcv_nxt, snd_una, snd_nxt) = match &view {
            Some(t) => (t.rcv.1, t.snd.0, t.snd.1),
            None => (0, 0, 0),
        };
        let seq = match seqb {
            'n' => rcv_nxt.wrapping_add(*seqo as u32),
            _ => *seqo as u32,
        };
        let ack = match ackb {
            'u' => snd_una.wrapping_add(*acko as u32),
            'x' => snd_nxt.wrapping_add(*acko as u32),
            _ => *acko as u32,
        };
        let f = TcpF { sp: sp.unwrap_or(remote.1), dp: dp.unwrap_or(local.1), seq, ack, doff: *doff, flags: *fl, wnd: *wnd, urg: if fl & URG != 0 { 1 } else { 0 }, opts: vec![] };
        let mut seg = tcp_pack(remote.0, local.0, &f, &forged(*len));
        if let Some(c) = cut {
            seg.truncate(*c);
            tcp_fix_checksum(remote.0, local.0, &mut seg);
        }
        Some(("ipv4".to_string(), remote_machine as u64, ip_pack(&IpF::new(remote.0, local.0, 6), &seg)))
    }

    async fn inject(&self, op: usize, what: &Op, machine: &Arc<Machine>) {
        // let everything that became runnable at this instant finish first
        for _ in 0..6 {
            tokio::task::yield_now().await;
        }
        let a = self.log.push(Ev::Note(format!("inject-window-begin {}", op)));
        let t_us = self.log.now_us();
        let pre = self.observe(machine);
        let (tgt, smac, dst, bytes) = match what {
            Op::Raw { tgt, smac, dst, bytes, .. } => (tgt.clone(), *smac, *dst, bytes.clone()),
            seg => match self.build_seg(seg, &pre) {
                Some((tgt, smac, bytes)) => (tgt, smac, Some(self.idx as u64), bytes),
                None => return,
            },
        };
        let target = Target::parse(&tgt).unwrap_or(Target::Unknown);
        let pci = machine.protocol::<Pci>().expect("machine has Pci");
        let inj = self.log.push(Ev::Inject { machine: self.idx, app: 9, act: op, slot: 0, smac, dst, target, bytes: bytes.clone() });
        set_cause(Some(inj));
        elvis_core::protocols::verif_trace::begin();
        let r = pci.open(0).verif_receive(Message::new(bytes.clone()), smac as Mac, dst, target.type_id());
        let calls = elvis_core::protocols::verif_trace::end();
        set_cause(None);
        // the session table right after the synchronous call (nothing else has run yet)
        let mut mid_sessions: Vec<Key> = machine.protocol::<Tcp>().map(|t| t.verif_tables().0.iter().map(|e| (ep_of(e.local), ep_of(e.remote))).collect()).unwrap_or_default();
        mid_sessions.sort();
        let mut protos: Vec<String> = [Target::Ipv4, Target::Udp, Target::Tcp, Target::Arp, Target::Pci, Target::Sockets, Target::Rec(0), Target::Rec(1), Target::Rec(2), Target::Rec(3)]
            .iter()
            .filter(|t| machine.get(t.type_id()).is_some())
            .map(|t| t.name())
            .collect();
        protos.push("drv".into());
        let result = match r {
            Ok(()) => "ok".to_string(),
            Err(elvis_core::protocols::pci::pci_session::ReceiveError::Protocol(_)) => "err:Protocol".to_string(),
            Err(elvis_core::protocols::pci::pci_session::ReceiveError::Demux(e)) => format!("err:Demux:{}", fmt_err(&Err::<(), _>(e)).trim_start_matches("err:")),
        };
        self.log.push(Ev::InjectResult { cause: inj, result: result.clone() });
        tokio::time::sleep(Duration::from_millis(1)).await;
        for _ in 0..6 {
            tokio::task::yield_now().await;
        }
        let post = self.observe(machine);
        let b = self.log.push(Ev::Note(format!("inject-window-end {}", op)));
        self.sh.devs.lock().unwrap().push(DEv::Inj { op, t_us, a, inj, b, pre: Box::new(pre), post: Box::new(post), result, tgt, bytes, smac, calls, mid_sessions, protos });
    }
}

#[async_trait::async_trait]
impl Protocol for Driver {
    async fn start(&self, shutdown: Shutdown, initialized: Arc<Barrier>, machine: Arc<Machine>) -> Result<(), StartError> {
        let cfg = self.sh.cfg.clone();
        if self.idx == 0 {
            let tcp = machine.protocol::<Tcp>().expect("tcp");
            for k in 0..cfg.conns {
                // `c14-path`: the second listener is a wildcard one, so that the `(0.0.0.0, port)` lookup of
                // `Tcp::demux` carries legitimate traffic as well
                let a = if cfg.mix == "c14p" && k == 1 { 0 } else { addr(0) };
                let _ = tcp.listen(self.id(), endpoint((a, cfg.conn(k).sport)), machine.clone());
            }
        }
        initialized.wait().await;
        let t0 = tokio::time::Instant::now();
        for (t, act) in self.script.iter() {
            tokio::time::sleep_until(t0 + Duration::from_millis(*t)).await;
            match act {
                DAct::Open { op, conn } => {
                    let key = self.key_of(*conn, 'c');
                    let tcp = machine.protocol::<Tcp>().expect("tcp");
                    let r = tcp.open(self.id(), Endpoints::new(endpoint(key.0), endpoint(key.1)), machine.clone()).await;
                    let result = match r {
                        Ok(s) => {
                            self.sessions.lock().unwrap().insert(key, s);
                            "ok".to_string()
                        }
                        Err(e) => fmt_err(&Err::<(), _>(e)),
                    };
                    self.sh.devs.lock().unwrap().push(DEv::Opened { op: *op, result });
                }
                DAct::Write { op, conn, side, len } => {
                    let key = self.key_of(*conn, *side);
                    let s = self.sessions.lock().unwrap().get(&key).cloned();
                    let off = *self.written.lock().unwrap().get(&(*conn, *side)).unwrap_or(&0);
                    let result = match s {
                        None => "noconn".to_string(),
                        Some(s) => {
                            let bytes: Vec<u8> = (0..*len as u64).map(|i| pat(*conn, *side, off + i)).collect();
                            set_cause(None);
                            let r = s.send(Message::new(bytes), machine.clone());
                            if r.is_ok() {
                                *self.written.lock().unwrap().entry((*conn, *side)).or_insert(0) += *len as u64;
                            }
                            fmt_err(&r)
                        }
                    };
                    self.sh.devs.lock().unwrap().push(DEv::Wrote { op: *op, conn: *conn, side: *side, off, len: *len, result });
                }
                DAct::Inject { op, what } => self.inject(*op, what, &machine).await,
                DAct::Fin { op } => {
                    self.sh.devs.lock().unwrap().push(DEv::Fin { op: *op });
                    shutdown.shut_down_with_status(ExitStatus::Status(7));
                }
            }
        }
        Ok(())
    }

    fn demux(&self, message: Message, caller: Arc<dyn Session>, control: Control, _machine: Arc<Machine>) -> Result<(), DemuxError> {
        let key = control.get::<Endpoints>().map(|e| (ep_of(e.local), ep_of(e.remote))).unwrap_or(((0, 0), (0, 0)));
        self.sessions.lock().unwrap().entry(key).or_insert(caller);
        self.sh.devs.lock().unwrap().push(DEv::Data { machine: self.idx, key, bytes: message.to_vec(), t_us: self.log.now_us() });
        Ok(())
    }

    fn notify(&self, n: NotifyType, caller: Arc<dyn Session>, control: Control) {
        if n == NotifyType::NewConnection {
            if let Some(e) = control.get::<Endpoints>() {
                let key = (ep_of(e.local), ep_of(e.remote));
                self.sessions.lock().unwrap().entry(key).or_insert(caller);
                self.sh.devs.lock().unwrap().push(DEv::Conn { machine: self.idx, key });
            }
        }
    }
}

fn link_name(t: &str) -> &str {
    match t {
        "ipv4" | "arp" | "udp" | "tcp" => t,
        _ => "other",
    }
}

/// `legit` = the socket pairs of the scenario's own connections on the victim: only their TCBs
/// are compared (a half-open session created by a forged SYN winds down on its own timers)
fn diff_obs(pre: &Obs, post: &Obs, with_views: bool, legit: &[Key]) -> Vec<String> {
    let mut d = vec![];
    if pre.sessions != post.sessions {
        d.push(format!("tcp sessions {:?} -> {:?}", pre.sessions.iter().map(|k| format!("{}<-{}", fmt_ep(k.0), fmt_ep(k.1))).collect::<Vec<_>>(), post.sessions.iter().map(|k| format!("{}<-{}", fmt_ep(k.0), fmt_ep(k.1))).collect::<Vec<_>>()));
    }
    if pre.listens != post.listens {
        d.push("tcp listen bindings changed".into());
    }
    if pre.udp != post.udp {
        d.push(format!("udp bindings {:?} -> {:?}", pre.udp, post.udp));
    }
    if pre.ipv4 != post.ipv4 {
        d.push(format!("ipv4 bindings {:?} -> {:?}", pre.ipv4, post.ipv4));
    }
    if pre.arp != post.arp {
        d.push(format!("arp table {} -> {}", pre.arp, post.arp));
    }
    if with_views {
        for (k, v) in pre.views.iter().filter(|(k, _)| legit.contains(k)) {
            match post.views.iter().find(|(k2, _)| k2 == k) {
                Some((_, v2)) if v2 != v => d.push(format!("tcb of {}<-{}: {} -> {}", fmt_ep(k.0), fmt_ep(k.1), v, v2)),
                _ => {}
            }
        }
        if pre.delivered != post.delivered {
            d.push(format!("bytes handed to the application {:?} -> {:?}", pre.delivered, post.delivered));
        }
    }
    d
}

fn pname(n: &str) -> String {
    // the TCP application of this run is the harness protocol `Driver` (a `TypeId` the scaffold has no name for)
    if n == "unknown" {
        "drv".to_string()
    } else {
        n.to_string()
    }
}

fn list_or_dash(v: Vec<String>) -> String {
    if v.is_empty() {
        "-".into()
    } else {
        v.join(";")
    }
}

/// `c14-path`: the op line of one injected frame (what the machine looked like right before, the
/// frame) and what was OBSERVED: the value `PciSession::receive` returned, the `demux` functions
/// entered (verif hook `verif_trace`), the recorder demuxed into by this very call chain, TCP
/// headers the victim put on the wire for socket pairs that have no session (the resets of
/// `Tcp::demux`; sessions speak through their own tasks), the session that appeared in the table.
#[allow(clippy::too_many_arguments)]
fn path_line(cfg: &Cfg, res: &RunResult, vmac: u64, inj: usize, b: usize, interleaved: bool, pre: &Obs, mid: &[Key], protos: &[String], result: &str, calls: &[&'static str], tgt: &str, smac: u64, bytes: &[u8]) -> (String, String) {
    let ip = list_or_dash(pre.ipv4.iter().map(|(a, p, u)| format!("{}/{}/{}", a, p, pname(u))).collect());
    let udp = list_or_dash(pre.udp.iter().map(|(e, u)| format!("{}:{}/{}", e.0, e.1, pname(u))).collect());
    let lis = list_or_dash(pre.listens.iter().map(|(e, u)| format!("{}:{}/{}", e.0, e.1, pname(u))).collect());
    let sess = list_or_dash(pre.sessions.iter().map(|k| format!("{}:{}:{}:{}", k.0 .0, k.0 .1, k.1 .0, k.1 .1)).collect());
    let op = format!(
        "frame il={} ck={} tgt={} mtu={} smac={} protos={} ip={} udp={} lis={} sess={} bytes={}",
        interleaved as u8,
        CHECKSUMS.load(std::sync::atomic::Ordering::SeqCst) as u8,
        tgt,
        cfg.mtu,
        smac,
        protos.join(","),
        ip,
        udp,
        lis,
        sess,
        hex(bytes)
    );
    let ret = result.trim_start_matches("err:Demux:").trim_start_matches("err:").to_string();
    let calls_s = if calls.is_empty() { "-".to_string() } else { calls.join("+") };
    let app: Vec<String> = res
        .events
        .iter()
        .filter_map(|x| match &x.ev {
            Ev::Demux { app, cause: Some(c), payload, local, remote, .. } if *c == inj => {
                let ep = |e: &Option<Ep>| e.map(|e| format!("{}:{}", e.addr, e.port)).unwrap_or("?".into());
                Some(format!("rec{}/{}/{}/{}", app, hex(payload), ep(local), ep(remote)))
            }
            _ => None,
        })
        .collect();
    // TCP headers sent by the victim inside the window for socket pairs without session
    let mut replies: Vec<String> = vec![];
    for x in res.events.iter().filter(|x| x.id > inj && x.id < b) {
        if let Ev::Wire { to: None, smac: s, target: Target::Ipv4, bytes: w, .. } = &x.ev {
            if *s == vmac && w.len() >= 40 && w[0] == 0x45 && w[9] == 6 {
                let src = u32::from_be_bytes([w[12], w[13], w[14], w[15]]);
                let dst = u32::from_be_bytes([w[16], w[17], w[18], w[19]]);
                let sp = u16::from_be_bytes([w[20], w[21]]);
                let dp = u16::from_be_bytes([w[22], w[23]]);
                let key: Key = ((src, sp), (dst, dp));
                if !pre.sessions.contains(&key) && !mid.contains(&key) {
                    let mut h = w[20..40].to_vec();
                    h[16] = 0;
                    h[17] = 0;
                    replies.push(format!("{}/{}/{}", hex(&h), src, dst));
                }
            }
        }
    }
    let reply = if interleaved { "~".to_string() } else if replies.is_empty() { "-".to_string() } else { replies.join(",") };
    let new: Vec<String> = mid.iter().filter(|k| !pre.sessions.contains(k)).map(|k| format!("{}:{}:{}:{}", k.0 .0, k.0 .1, k.1 .0, k.1 .1)).collect();
    let out = format!(
        "ret={} calls={} app={} reply={} new={}",
        ret,
        calls_s,
        if app.is_empty() { "-".to_string() } else { app.join(",") },
        reply,
        if new.is_empty() { "-".to_string() } else { new.join(",") }
    );
    (op, out)
}

pub fn execute(lines: &[String]) -> CaseReport {
    // `run_internet` wraps the current hook (calls it, then captures a backtrace and exits): name the
    // panic site for the parent and end the process at once
    std::panic::set_hook(Box::new(|info| {
        let (file, line) = info.location().map(|l| (l.file().to_string(), l.line())).unwrap_or(("?".into(), 0));
        let msg = if let Some(s) = info.payload().downcast_ref::<&str>() {
            s.to_string()
        } else if let Some(s) = info.payload().downcast_ref::<String>() {
            s.clone()
        } else {
            "?".into()
        };
        eprintln!("@@PANIC {}:{}: {}", file, line, msg.replace('\n', " "));
        std::process::exit(101);
    }));
    let mut rep = CaseReport::default();
    let Some(cfg) = lines.first().and_then(|l| parse_cfg(l)) else {
        rep.line(lines.first().cloned().unwrap_or_default(), "bad-cfg");
        return rep;
    };
    let ops: Vec<Option<Op>> = lines.iter().map(|l| parse_op(l)).collect();
    let n = cfg.machines();
    let v = cfg.victim;
    let p = cfg.peer();
    publish_session_views(true);

    // ---- scenario: real machines, recorders for UDP, drivers for TCP + injection
    let mut machines: Vec<MachineSpec> = (0..n)
        .map(|i| MachineSpec {
            nets: vec![0],
            arp: cfg.arp,
            udp: true,
            tcp: true,
            sockets: false,
            routes: vec![Route { addr: 0, mask_len: 0, slot: 0, mac: if cfg.arp { None } else { Some(if i == 0 { 1 } else { 0 }) } }],
            apps: vec![],
        })
        .collect();
    machines[v].apps.push(AppSpec { n: 0, script: vec![Action { at: None, kind: ActionKind::Listen(Ep::new(addr(v), UDP_EXACT)) }], echo: false });
    machines[v].apps.push(AppSpec { n: 1, script: vec![Action { at: None, kind: ActionKind::Listen(Ep::new(0, UDP_WILD)) }], echo: false });
    let mut legit: Vec<(usize, Vec<u8>)> = vec![]; // (op index, payload)
    let mut udp_script = vec![];
    for (i, op) in ops.iter().enumerate() {
        if let Some(Op::Udp { t, len }) = op {
            let payload = legit_datagram(legit.len(), *len);
            udp_script.push(Action { at: Some(*t * 1000), kind: ActionKind::Open { local: Ep::new(addr(p), UDP_SRC), remote: Ep::new(addr(v), UDP_EXACT), listen: false, payloads: vec![payload.clone()] } });
            legit.push((i, payload));
        }
    }
    machines[p].apps.push(AppSpec { n: 2, script: udp_script, echo: false });
    let sc = Scenario { nets: vec![NetSpec { mtu: Some(cfg.mtu), lat_us: (cfg.lat * 1000, 0), thr: (0, 0) }], machines, mode: RtMode::Paused, duration_us: (cfg.end + 500) * 1000 };

    let mut scripts: Vec<Vec<(u64, DAct)>> = vec![vec![]; n];
    for (i, op) in ops.iter().enumerate() {
        match op {
            Some(Op::Open { t, conn }) if *conn < cfg.conns => scripts[cfg.conn(*conn).client].push((*t, DAct::Open { op: i, conn: *conn })),
            Some(Op::Write { t, conn, side, len }) if *conn < cfg.conns => {
                let m = if *side == 's' { 0 } else { cfg.conn(*conn).client };
                scripts[m].push((*t, DAct::Write { op: i, conn: *conn, side: *side, len: *len }));
            }
            Some(w @ Op::Raw { t, .. }) => scripts[v].push((*t, DAct::Inject { op: i, what: w.clone() })),
            Some(w @ Op::Seg { t, conn, .. }) if cfg.at_victim(*conn).is_some() && *conn < cfg.conns => scripts[v].push((*t, DAct::Inject { op: i, what: w.clone() })),
            Some(Op::Fin { t }) => scripts[0].push((*t, DAct::Fin { op: i })),
            _ => {}
        }
    }
    for s in scripts.iter_mut() {
        s.sort_by_key(|x| x.0);
    }
    let sh = Arc::new(Shared { cfg: cfg.clone(), devs: Mutex::new(vec![]) });
    let sh2 = sh.clone();
    // Watchdog: a deadlock inside the stack blocks the (single) runtime thread for good.  After
    // HANG_SECS of real time without the scenario finishing, say what the stack was doing (the
    // last frame handed to a tap, from the shared log) and end the process.
    let done = Arc::new(std::sync::atomic::AtomicBool::new(false));
    let log_slot: Arc<Mutex<Option<Arc<Log>>>> = Arc::new(Mutex::new(None));
    {
        let (done, log_slot) = (done.clone(), log_slot.clone());
        let secs: u64 = std::env::var("C14S_HANG_SECS").ok().and_then(|x| x.parse().ok()).unwrap_or(20);
        std::thread::spawn(move || {
            let t0 = std::time::Instant::now();
            while t0.elapsed().as_secs() < secs {
                std::thread::sleep(Duration::from_millis(50));
                if done.load(std::sync::atomic::Ordering::SeqCst) {
                    return;
                }
            }
            let mut desc = "before the first frame".to_string();
            if let Some(log) = log_slot.lock().unwrap().clone() {
                let evs = log.snapshot();
                for e in evs.iter().rev() {
                    let (how, target, bytes) = match &e.ev {
                        Ev::Wire { to: Some(_), target, bytes, .. } => ("delivered by the network", *target, bytes),
                        Ev::Inject { target, bytes, .. } => ("injected", *target, bytes),
                        Ev::InjectResult { .. } => continue,
                        _ => continue,
                    };
                    let kind = match reference(link_name(&target.name()), bytes) {
                        Verdict::Tcp(s) => format!("well-formed TCP segment{}", if s.flags & RST != 0 { " (RST)" } else if s.flags & SYN != 0 { " (SYN)" } else { "" }),
                        Verdict::Udp { .. } => "well-formed UDP datagram".to_string(),
                        Verdict::UdpMay { why, .. } => format!("UDP datagram in a frame with {}", why),
                        Verdict::Arp { .. } => "well-formed ARP packet".to_string(),
                        Verdict::Reject { layer, why } => format!("frame to be rejected at {} ({})", layer, why),
                        Verdict::Lenient { why } => format!("frame with {}", why),
                    };
                    desc = format!("while demultiplexing a {} {}", kind, how);
                    break;
                }
            }
            eprintln!("@@HANG the simulation made no progress for {} s of real time {}", secs, desc);
            std::process::exit(3);
        });
    }
    let res = run_scenario_with(&sc, None, &move |idx, m: Machine, log: &Arc<Log>| {
        *log_slot.lock().unwrap() = Some(log.clone());
        m.with(Driver { idx, script: scripts[idx].clone(), sh: sh2.clone(), log: log.clone(), sessions: Mutex::new(HashMap::new()), written: Mutex::new(HashMap::new()) })
    });
    done.store(true, std::sync::atomic::Ordering::SeqCst);
    let devs = sh.devs.lock().unwrap().clone();
    let vmac = res.macs[v][0];

    // ---- per-op answers
    let mut ans: Vec<String> = lines.iter().map(|_| "-".to_string()).collect();
    ans[0] = "cfg".into();
    // `c14-path`: per injected frame one self-contained line (state before + frame) and the observed outcome class
    let path_mode = cfg.mix == "c14p";
    let mut path: Vec<Option<(String, String)>> = lines.iter().map(|_| None).collect();
    // taints: (conn, writer side) -> time from which the prefix oracle is off; conn -> completion not required
    let mut taint_data: HashMap<(usize, char), u64> = HashMap::new();
    let mut no_complete: HashMap<(usize, char), String> = HashMap::new();
    let mut injected = 0u64;
    let mut strict_before: Vec<String> = vec![];
    // injections whose frame may legitimately reach a UDP application
    let mut udp_ok_causes: Vec<usize> = vec![];

    let conn_of_key = |key: Key| -> Option<usize> { (0..cfg.conns).find(|k| cfg.at_victim(*k).map(|(l, r, _)| (l, r)) == Some(key)) };
    let legit_keys: Vec<Key> = (0..cfg.conns).filter_map(|k| cfg.at_victim(k).map(|(l, r, _)| (l, r))).collect();
    let rx_side = if v == 0 { 'c' } else { 's' };
    let tx_side = if v == 0 { 's' } else { 'c' };

    for e in &devs {
        match e {
            DEv::Opened { op, result } => ans[*op] = format!("open {}", result),
            DEv::Wrote { op, off, len, result, .. } => ans[*op] = format!("w {} off={} len={}", result, off, len),
            DEv::Fin { op } => ans[*op] = format!("fin {}", res.status),
            DEv::Inj { op, t_us, a, inj, b, pre, post, result, tgt, bytes, smac, calls, mid_sessions, protos } => {
                injected += 1;
                let label = lines[*op].split_whitespace().nth(2).unwrap_or("?").to_string();
                rep.count(format!("frame.{}", label));
                let interleaved = res.events.iter().any(|x| x.id > *a && x.id < *b && matches!(&x.ev, Ev::Wire { to: Some(m), .. } if *m == vmac));
                let reached: Vec<String> = res
                    .events
                    .iter()
                    .filter_map(|x| match &x.ev {
                        Ev::Demux { machine, app, cause: Some(c), payload, .. } if *c == *inj => Some(format!("m{}.rec{} {} bytes", machine, app, payload.len())),
                        _ => None,
                    })
                    .collect();
                let resp: Vec<String> = res
                    .events
                    .iter()
                    .filter_map(|x| match &x.ev {
                        Ev::Wire { to: None, smac, target, bytes, .. } if x.id > *inj && x.id < *b && *smac == vmac => Some(match (target, reference(link_name(&target.name()), bytes)) {
                            (Target::Ipv4, Verdict::Tcp(s)) => {
                                if s.flags & RST != 0 {
                                    "rst".to_string()
                                } else if s.payload.is_empty() {
                                    "ack".to_string()
                                } else {
                                    "data".to_string()
                                }
                            }
                            (Target::Arp, _) => "arp".to_string(),
                            _ => "other".to_string(),
                        }),
                        _ => None,
                    })
                    .collect();
                let verdict = reference(link_name(tgt), bytes);
                // what the property demands of this frame
                let mut strict: Option<String> = None; // Some(kind) = must be a no-op
                let mut refs = String::new();
                let mut state = "-".to_string();
                match &verdict {
                    Verdict::Reject { layer, why } => {
                        refs = format!("reject:{}:{}", layer, why);
                        strict = Some("rejected-frame".into());
                    }
                    Verdict::Lenient { why } => {
                        refs = format!("lenient:{}", why);
                        // if it had any effect on a connection, that connection is no longer judged
                        if !diff_obs(pre, post, true, &legit_keys).is_empty() || interleaved {
                            if bytes.len() > 9 && bytes[9] == 6 {
                                for k in 0..cfg.conns {
                                    taint_data.entry((k, rx_side)).or_insert(*t_us);
                                    no_complete.entry((k, 'c')).or_insert(format!("lenient frame {}", why));
                                    no_complete.entry((k, 's')).or_insert(format!("lenient frame {}", why));
                                }
                            }
                        }
                        udp_ok_causes.push(*inj);
                    }
                    Verdict::Arp { oper } => {
                        refs = format!("arp-valid:{}", oper);
                    }
                    Verdict::Udp { src, dst, payload } => {
                        let bound = if dst.0 == addr(v) && dst.1 == UDP_EXACT {
                            Some(0usize)
                        } else if dst.1 == UDP_WILD {
                            Some(1)
                        } else {
                            None
                        };
                        match bound {
                            None => {
                                refs = "udp:unbound".into();
                                strict = Some("unbound-datagram".into());
                            }
                            Some(app) => {
                                refs = format!("udp:deliver:rec{}", app);
                                udp_ok_causes.push(*inj);
                                let got: Vec<&Event> = res.events.iter().filter(|x| matches!(&x.ev, Ev::Demux { cause: Some(c), .. } if *c == *inj)).collect();
                                let good = got.len() == 1
                                    && matches!(&got[0].ev, Ev::Demux { machine, app: a2, payload: pl, local, remote, .. }
                                        if *machine == v && *a2 == app && pl == payload && *local == Some(Ep::new(dst.0, dst.1)) && *remote == Some(Ep::new(src.0, src.1)));
                                if !good {
                                    rep.fail(
                                        format!("a well-formed datagram for {} injected into machine {} was not delivered exactly once, unchanged, to its listener rec{}: got {:?} (op `{}`)", fmt_ep(*dst), v, app, reached, &lines[*op][..lines[*op].len().min(200)]),
                                        "stack valid-datagram not-delivered-to-its-listener",
                                    );
                                }
                                let d = diff_obs(pre, post, !interleaved, &legit_keys);
                                if !d.is_empty() {
                                    rep.fail(format!("a well-formed datagram changed tables or connections: {}", d.join("; ")), "stack valid-datagram changed-state");
                                }
                            }
                        }
                    }
                    Verdict::UdpMay { src, dst, payload, why } => {
                        // the frame's octet count and its IPv4 total length disagree, the UDP datagram in it is
                        // consistent: dropping is fine; a delivery must be THE datagram (not the padded / cut octets)
                        let bound = if dst.0 == addr(v) && dst.1 == UDP_EXACT {
                            Some(0usize)
                        } else if dst.1 == UDP_WILD {
                            Some(1)
                        } else {
                            None
                        };
                        match bound {
                            None => {
                                refs = format!("udp-may:{}:unbound", why);
                                strict = Some("unbound-datagram".into());
                            }
                            Some(app) => {
                                refs = format!("udp-may:{}:rec{}", why, app);
                                udp_ok_causes.push(*inj);
                                let got: Vec<&Event> = res.events.iter().filter(|x| matches!(&x.ev, Ev::Demux { cause: Some(c), .. } if *c == *inj)).collect();
                                if got.is_empty() {
                                    rep.count(format!("may.{}.dropped", why));
                                } else {
                                    let good = got.len() == 1
                                        && matches!(&got[0].ev, Ev::Demux { machine, app: a2, payload: pl, local, remote, .. }
                                            if *machine == v && *a2 == app && pl == payload && *local == Some(Ep::new(dst.0, dst.1)) && *remote == Some(Ep::new(src.0, src.1)));
                                    if good {
                                        rep.count(format!("may.{}.delivered", why));
                                    } else {
                                        let lens: Vec<usize> = got.iter().filter_map(|x| match &x.ev { Ev::Demux { payload, .. } => Some(payload.len()), _ => None }).collect();
                                        rep.fail(
                                            format!("a frame whose octet count differs from its IPv4 total length ({}; frame {} octets, total length {}) carried a UDP datagram of {} payload octets for {}; the application was handed {:?} (payload lengths {:?}): not the datagram that was sent -- op `{}`", why, bytes.len(), u16::from_be_bytes([bytes[2], bytes[3]]), payload.len(), fmt_ep(*dst), reached, lens, &lines[*op][..lines[*op].len().min(200)]),
                                            "stack inconsistent-length-frame delivered-altered-payload",
                                        );
                                    }
                                }
                                let d = diff_obs(pre, post, !interleaved, &legit_keys);
                                if !d.is_empty() {
                                    rep.fail(format!("a UDP datagram in a frame with {} changed tables or connections: {}", why, d.join("; ")), "stack inconsistent-length-frame changed-state");
                                }
                            }
                        }
                    }
                    Verdict::Tcp(seg) => {
                        let key: Key = (seg.dst, seg.src);
                        let has_session = pre.sessions.contains(&key);
                        if seg.dst.0 != addr(v) {
                            refs = "tcp:foreign-address".into();
                        } else if has_session {
                            let view = pre.raw.iter().find(|(k, _)| *k == key).map(|(_, x)| x.clone());
                            let tcb = view.as_ref().and_then(|x| x.tcb.clone());
                            let ended = view.as_ref().map(|x| x.task_ended).unwrap_or(true);
                            match tcb {
                                Some(t) if !ended => {
                                    state = format!("{:?}", t.state);
                                    let un = rfc_unacceptable(&state, t.rcv.1, t.rcv.2, seg);
                                    let off = seg.seq.wrapping_sub(t.rcv.1) as i32;
                                    if un == Some(true) {
                                        refs = format!("tcp:unacceptable off={} seglen={} fl={}", off, seg.seg_len(), seg.flags);
                                        strict = Some("unacceptable-segment".into());
                                    } else {
                                        refs = format!("tcp:acceptable off={} seglen={} fl={}", off, seg.seg_len(), seg.flags);
                                        if let Some(k) = conn_of_key(key) {
                                            let heavy = !seg.payload.is_empty() || seg.flags & (SYN | RST | FIN) != 0 || state == "SynSent" || state == "SynReceived";
                                            if heavy {
                                                taint_data.entry((k, rx_side)).or_insert(*t_us);
                                                no_complete.entry((k, 'c')).or_insert(format!("acceptable forged segment ({})", label));
                                                no_complete.entry((k, 's')).or_insert(format!("acceptable forged segment ({})", label));
                                            } else {
                                                no_complete.entry((k, tx_side)).or_insert(format!("acceptable forged ACK/window ({})", label));
                                            }
                                        }
                                    }
                                }
                                _ => refs = "tcp:dead-session".into(),
                            }
                        } else {
                            let listening = pre.listens.iter().any(|(e, _)| *e == seg.dst || *e == (0, seg.dst.1));
                            if listening && seg.flags & SYN != 0 && seg.flags & (RST | ACK) == 0 {
                                refs = "tcp:listen:syn".into();
                                // a forged SYN that beats the genuine one takes the socket pair over
                                if let Some(k) = conn_of_key(key) {
                                    taint_data.entry((k, rx_side)).or_insert(*t_us);
                                    no_complete.entry((k, 'c')).or_insert("forged SYN accepted in LISTEN for this socket pair".to_string());
                                    no_complete.entry((k, 's')).or_insert("forged SYN accepted in LISTEN for this socket pair".to_string());
                                }
                            } else {
                                refs = format!("tcp:no-session:{} fl={}", if listening { "listen" } else { "closed" }, seg.flags);
                                strict = Some("no-session-segment".into());
                            }
                        }
                    }
                }
                rep.count(format!("ref.{}", refs.split(' ').next().unwrap_or("")));
                let mut verdict_s = "ok".to_string();
                if let Some(kind) = &strict {
                    let mut bad: Vec<(String, String)> = vec![];
                    if !reached.is_empty() {
                        bad.push(("reached-application".into(), format!("delivered to {:?}", reached)));
                    }
                    let lost: Vec<&Key> = pre.sessions.iter().filter(|k| !post.sessions.contains(k)).collect();
                    if !lost.is_empty() {
                        bad.push(("session-lost".into(), format!("sessions {:?} left the TCP table", lost.iter().map(|k| format!("{}<-{}", fmt_ep(k.0), fmt_ep(k.1))).collect::<Vec<_>>())));
                    }
                    for (k, x) in post.raw.iter().filter(|(k, _)| conn_of_key(*k).is_some()) {
                        let was = pre.raw.iter().find(|(k2, _)| k2 == k).map(|(_, y)| y.task_ended).unwrap_or(false);
                        if x.task_ended && !was {
                            bad.push(("connection-ended".into(), format!("the session task of {}<-{} ended", fmt_ep(k.0), fmt_ep(k.1))));
                        }
                    }
                    if !interleaved {
                        let d = diff_obs(pre, post, true, &legit_keys);
                        let d: Vec<String> = d.into_iter().filter(|x| !(x.starts_with("tcp sessions") && !lost.is_empty())).collect();
                        if !d.is_empty() {
                            let what = if d.iter().any(|x| x.starts_with("tcb of") || x.starts_with("bytes handed")) { "connection-changed" } else { "tables-changed" };
                            bad.push((what.into(), d.join("; ")));
                        }
                    }
                    // the length-consistency classes carry their reason in the identity (a UDP length field
                    // judged against the octets that arrived / against the IPv4 payload is its own finding class)
                    let class = match &verdict {
                        Verdict::Reject { why, .. } if why.starts_with("udp-length-vs-") || *why == "udp-short-of-ip-payload" => format!(" {}", why),
                        _ => String::new(),
                    };
                    for (what, detail) in &bad {
                        rep.fail(
                            format!("{} ({}; victim state {}) {}: {} -- op `{}` frame {}", kind, refs, state, what, detail, &lines[*op][..lines[*op].len().min(220)], hex(&bytes[..bytes.len().min(80)])),
                            format!("stack {} {}{}", kind, what, class),
                        );
                    }
                    if !bad.is_empty() {
                        verdict_s = format!("FAIL:{}", bad.iter().map(|x| x.0.clone()).collect::<Vec<_>>().join(","));
                    } else {
                        strict_before.push(label.clone());
                        rep.count(format!("strict.{}{}", kind, if interleaved { ".interleaved" } else { ".quiet" }));
                    }
                }
                if path_mode {
                    path[*op] = Some(path_line(&cfg, &res, vmac, *inj, *b, interleaved, pre, mid_sessions, protos, result, calls, tgt, *smac, bytes));
                }
                ans[*op] = format!("inj ref={} state={} res={} resp={} reached={} il={} {}", refs.replace(' ', ","), state, result, if resp.is_empty() { "-".to_string() } else { resp.join("+") }, reached.len(), interleaved as u8, verdict_s);
            }
            _ => {}
        }
    }

    // ---- UDP: nothing reaches a recorder except legitimate datagrams and permitted injections
    let mut legit_seen = vec![0usize; legit.len()];
    for x in &res.events {
        if let Ev::Demux { machine, app, cause, payload, .. } = &x.ev {
            let by_injection = cause.map(|c| matches!(res.events.get(c).map(|e| &e.ev), Some(Ev::Inject { .. }))).unwrap_or(false);
            if by_injection {
                if !udp_ok_causes.contains(&cause.unwrap()) {
                    // already reported per injection when strict; anything else is a frame the reference had no delivery for
                    rep.count("udp.delivery-by-unexpected-injection");
                }
                continue;
            }
            match legit.iter().position(|(_, pl)| pl == payload) {
                Some(j) if *machine == v && *app == 0 => legit_seen[j] += 1,
                _ => rep.fail(format!("recorder rec{} on machine {} received {} bytes that no legitimate sender sent: {}", app, machine, payload.len(), hex(&payload[..payload.len().min(40)])), "stack udp unexpected-delivery"),
            }
        }
    }
    for (j, (op, _)) in legit.iter().enumerate() {
        ans[*op] = format!("u delivered={}", legit_seen[j]);
        if legit_seen[j] != 1 {
            rep.fail(format!("legitimate datagram #{} (op `{}`) was delivered {} times to the listener on {}:{} (injected before it: {:?})", j, lines[*op], legit_seen[j], fmt_addr(addr(v)), UDP_EXACT, strict_before.iter().rev().take(5).collect::<Vec<_>>()), "stack udp legitimate-datagram-not-delivered-once");
        }
    }

    // ---- TCP streams: prefix at all times, completion, usable afterwards
    let mut completed = 0;
    for k in 0..cfg.conns {
        let c = cfg.conn(k);
        for side in ['c', 's'] {
            // the stream written by `side` is read on the other machine
            let (reader, key): (usize, Key) = if side == 'c' { (0, ((addr(0), c.sport), (addr(c.client), c.cport))) } else { (c.client, ((addr(c.client), c.cport), (addr(0), c.sport))) };
            let written: u64 = devs.iter().filter_map(|e| match e { DEv::Wrote { conn, side: s, len, result, .. } if *conn == k && *s == side && result == "ok" => Some(*len as u64), _ => None }).sum();
            let taint_t = if reader == v { taint_data.get(&(k, side)).copied() } else { None };
            let mut off = 0u64;
            let mut corrupted = false;
            for e in &devs {
                if let DEv::Data { machine, key: k2, bytes, t_us } = e {
                    if *machine == reader && *k2 == key {
                        if taint_t.map(|t| *t_us >= t).unwrap_or(false) {
                            break;
                        }
                        for (i, b) in bytes.iter().enumerate() {
                            if off + i as u64 >= written || *b != pat(k, side, off + i as u64) {
                                corrupted = true;
                                rep.fail(
                                    format!("connection {} stream written by `{}`: the application on machine {} was handed {} bytes at stream offset {} that are not the next bytes its peer wrote (first bad octet +{}: {:02x}); frames injected before: {:?}", k, side, reader, bytes.len(), off, i, b, strict_before.iter().rev().take(6).collect::<Vec<_>>()),
                                    "stack stream not-a-prefix-of-what-the-peer-wrote",
                                );
                                break;
                            }
                        }
                        if corrupted {
                            break;
                        }
                        off += bytes.len() as u64;
                    }
                }
            }
            let excused = no_complete.get(&(k, side)).cloned().or_else(|| if taint_t.is_some() { Some("stream polluted by an acceptable forged segment".to_string()) } else { None });
            if !corrupted && taint_t.is_none() {
                if off == written && written > 0 {
                    completed += 1;
                    rep.count("stream.completed");
                } else if excused.is_none() {
                    rep.fail(
                        format!("connection {} stream written by `{}`: {} of {} bytes reached the application on machine {} by the end of the run although every forged frame was one the receiver must ignore (victim machine {}, {} frames injected, the last ones: {:?})", k, side, off, written, reader, v, injected, strict_before.iter().rev().take(6).collect::<Vec<_>>()),
                        "stack transfer-incomplete-after-frames-that-must-be-ignored",
                    );
                } else {
                    rep.count("stream.excused");
                }
            } else if !corrupted {
                rep.count("stream.excused");
            }
        }
    }
    if res.status != "status:7" {
        rep.fail(format!("the simulation ended with {} instead of the status the harness requested", res.status), "stack unexpected-exit-status");
    }
    for (i, l) in lines.iter().enumerate() {
        if path_mode {
            // the scenario lines are kept (they are what `--replay` re-executes); the model answers `-` to them
            rep.line(l.clone(), "-");
            if let Some((op, out)) = path[i].take() {
                rep.count(format!("path.{}", out.split(' ').next().unwrap_or("")));
                rep.line(op, out);
            }
        } else {
            rep.line(l.clone(), ans[i].clone());
        }
    }
    rep.count_n("frames.injected", injected);
    rep.nontrivial = injected >= 10 && completed > 0;
    rep
}
