/-
Wire formats of RFC 791 (IPv4, figure 4), RFC 768 (UDP) and RFC 9293 (TCP, figure 1), written
from the RFC diagrams — NOT from the code: each header is the list of its fields in diagram
order as `(width in bits, value)`, and ONE generic big-endian bit packer turns any such list
into bytes.  This is the independent implementation C08 compares the codecs with.
Core only, no imports.
-/
namespace Elvis.Rfc

/-- a field of a header diagram: width in bits and value -/
abbrev Field := Nat × Nat

/-- the top `k` bytes of an `n`-bit accumulator, most significant first -/
def emit (acc n : Nat) : Nat → List UInt8
  | 0 => []
  | k + 1 => UInt8.ofNat (acc / 2 ^ (n - 8) % 256) :: emit (acc % 2 ^ (n - 8)) (n - 8) k

/-- Generic big-endian bit packer.  Fields are appended most-significant-bit first to a bit
    accumulator (`acc` holds `n < 8` pending bits); whole bytes are emitted as soon as they are
    complete.  Values are truncated to their field width.  Bits left over at the end (when the
    total width is not a multiple of 8) are dropped; `totalWidth` lets theorems state that none
    are. -/
def packFrom (acc n : Nat) : List Field → List UInt8
  | [] => []
  | (w, v) :: fs =>
    let acc' := acc * 2 ^ w + v % 2 ^ w
    let n' := n + w
    emit acc' n' (n' / 8) ++ packFrom (acc' % 2 ^ (n' % 8)) (n' % 8) fs

def pack (fs : List Field) : List UInt8 := packFrom 0 0 fs

def totalWidth (fs : List Field) : Nat := (fs.map (·.1)).sum

/-- RFC 791 section 3.1, figure 4 (without options) -/
structure Ipv4 where
  version : Nat
  ihl : Nat
  precedence : Nat
  delay : Nat
  throughput : Nat
  reliability : Nat
  tosReserved : Nat
  totalLength : Nat
  identification : Nat
  flagReserved : Nat
  dontFragment : Nat
  moreFragments : Nat
  fragmentOffset : Nat
  timeToLive : Nat
  protocol : Nat
  headerChecksum : Nat
  source : Nat
  destination : Nat
deriving DecidableEq, Repr

def Ipv4.fields (h : Ipv4) : List Field :=
  [(4, h.version), (4, h.ihl),
   (3, h.precedence), (1, h.delay), (1, h.throughput), (1, h.reliability), (2, h.tosReserved),
   (16, h.totalLength),
   (16, h.identification),
   (1, h.flagReserved), (1, h.dontFragment), (1, h.moreFragments), (13, h.fragmentOffset),
   (8, h.timeToLive), (8, h.protocol), (16, h.headerChecksum),
   (32, h.source),
   (32, h.destination)]

/-- RFC 768 -/
structure Udp where
  sourcePort : Nat
  destinationPort : Nat
  length : Nat
  checksum : Nat
deriving DecidableEq, Repr

def Udp.fields (h : Udp) : List Field :=
  [(16, h.sourcePort), (16, h.destinationPort), (16, h.length), (16, h.checksum)]

/-- RFC 9293 section 3.1, figure 1 (without options) -/
structure Tcp where
  sourcePort : Nat
  destinationPort : Nat
  sequenceNumber : Nat
  acknowledgmentNumber : Nat
  dataOffset : Nat
  reserved : Nat
  cwr : Nat
  ece : Nat
  urg : Nat
  ack : Nat
  psh : Nat
  rst : Nat
  syn : Nat
  fin : Nat
  window : Nat
  checksum : Nat
  urgentPointer : Nat
deriving DecidableEq, Repr

def Tcp.fields (h : Tcp) : List Field :=
  [(16, h.sourcePort), (16, h.destinationPort),
   (32, h.sequenceNumber),
   (32, h.acknowledgmentNumber),
   (4, h.dataOffset), (4, h.reserved),
   (1, h.cwr), (1, h.ece), (1, h.urg), (1, h.ack), (1, h.psh), (1, h.rst), (1, h.syn), (1, h.fin),
   (16, h.window),
   (16, h.checksum), (16, h.urgentPointer)]

end Elvis.Rfc
