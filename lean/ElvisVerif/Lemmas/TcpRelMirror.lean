import ElvisVerif.Lemmas.TcpRelSys2
/-!
# The sequential close with B first (mirror image of `release_sequential`)

`phase_eval_closeA`: the exchange phase in which a delivery deletes A's TCB (B emits one segment, A nothing).
`release_sequential_BA`: from a quiet pair, `releaseRoundSeqBA` = `close B`, phase, phase (B FIN-WAIT-2, A CLOSE-WAIT),
`close A` (LAST-ACK), phase, phase (B TIME-WAIT; A's TCB deleted by B's ACK of its FIN), `tick B (2·MSL + 1)`.
The one-endpoint lemmas of `Lemmas/TcpRelChain2.lean` (`act_*`, `pas_*`) are stated for either side.
-/
namespace Elvis.Tcp
open Tcb Elvis.ModCmp Elvis.Tcp.Fin

/-- an exchange phase in which B emits one segment, A emits nothing, and the segment makes A's TCB tell its caller to
    delete it -/
theorem phase_eval_closeA (s : Sys) (ta tb ta1 tb1 : Tcb) (g : Segment)
    (ha : (s.side .A).tcb = some ta) (hb : (s.side .B).tcb = some tb)
    (eA : ta.segments = .ok (ta1, [])) (eB : tb.segments = .ok (tb1, [g]))
    (cA : ∃ t', ta1.segmentArrives g = .ok (t', .Close))
    (pB : g.hdr.srcPort = SideId.B.port ∧ g.hdr.dstPort = SideId.A.port) :
    ∃ s6, phase s = .ok s6 ∧ FinRun s s6 ∧
      (s6.side .A).tcb = none ∧ (s6.side .B).tcb = some tb1.receive.1 ∧
      (s6.side .A).submitted = (s.side .A).submitted ∧ (s6.side .B).submitted = (s.side .B).submitted ∧
      (s6.side .A).delivered = (s.side .A).delivered ∧
      (s6.side .B).delivered = (s.side .B).delivered ++ tb1.receive.2 ∧
      s6.historyLen = s.historyLen + 1 := by
  obtain ⟨t', cA⟩ := cA
  obtain ⟨s1, r1, st1, h1a, h1p, h1sub, h1del, h1len, h1new, h1old⟩ := emit_facts s .A ta ta1 [] ha eA
  have h1pb : s1.side .B = s.side .B := h1p
  have h1b : (s1.side .B).tcb = some tb := by rw [h1pb]; exact hb
  obtain ⟨s2, r2, st2, h2b, h2p, h2sub, h2del, h2len, h2new, h2old⟩ := emit_facts s1 .B tb tb1 [g] h1b eB
  have h2pa : s2.side .A = s1.side .A := h2p
  have h2a : (s2.side .A).tcb = some ta1 := by rw [h2pa]; exact h1a
  have hn : s2.nth s1.historyLen = some g := by
    have := h2new 0 (by simp)
    simpa using this
  have d3 : deliverRange s2 .B s.historyLen 0 = .ok s2 := rfl
  -- the delivery that deletes A's TCB
  have st4 : s2.step (.deliver .A s1.historyLen) =
      .ok (s2.setSide .A { s2.side .A with tcb := none, listen := none }, .arrived .Close) := by
    simp only [Sys.step, Op.side, hn, Sys.arrive, h2a, cA]
  have d4 : deliverRange s2 .A s1.historyLen 1 = .ok (s2.setSide .A { s2.side .A with tcb := none, listen := none }) := by
    simp only [deliverRange, st4]
  generalize hs3 : s2.setSide .A { s2.side .A with tcb := none, listen := none } = s3 at st4 d4
  have h3a : (s3.side .A).tcb = none := by rw [← hs3]; rfl
  have h3b : (s3.side .B).tcb = some tb1 := by rw [← hs3]; exact h2b
  have h3sa : (s3.side .A).submitted = (s2.side .A).submitted := by rw [← hs3]; rfl
  have h3sb : (s3.side .B).submitted = (s2.side .B).submitted := by rw [← hs3]; rfl
  have h3da : (s3.side .A).delivered = (s2.side .A).delivered := by rw [← hs3]; rfl
  have h3db : (s3.side .B).delivered = (s2.side .B).delivered := by rw [← hs3]; rfl
  have h3len : s3.historyLen = s2.historyLen := by rw [← hs3]; rfl
  have st5 : s3.step (.read .A) = .ok (s3, .noTcb) := by
    simp only [Sys.step, Op.side, h3a]
  obtain ⟨s6, r6, st6, h6b, h6p, h6sub, h6del, h6len⟩ := read_facts_gen s3 .B tb1 h3b
  have h6pa : s6.side .A = s3.side .A := h6p
  refine ⟨s6, ?_, ?_, by rw [h6pa]; exact h3a, h6b, ?_, ?_, ?_, ?_, ?_⟩
  · unfold phase
    rw [st1]
    dsimp only
    rw [st2]
    dsimp only
    have l1 : s1.historyLen - s.historyLen = 0 := by rw [h1len]; simp
    have l2 : s2.historyLen - s1.historyLen = 1 := by rw [h2len]; simp
    rw [l1, d3]
    dsimp only
    rw [l2, d4]
    dsimp only
    rw [st5]
    dsimp only
    rw [st6]
  · have hop : OpOkF s2 (.deliver .A s1.historyLen) := by
      intro g' hg'
      rw [hn] at hg'
      cases hg'
      exact pB
    exact ((((FinRun.step (op := .emit .A) (.refl _) trivial st1).trans
      (.step (op := .emit .B) (.refl _) trivial st2)).trans (.step (.refl _) hop st4)).trans
      (.step (op := .read .A) (.refl _) trivial st5)).trans (.step (op := .read .B) (.refl _) trivial st6)
  · rw [h6pa, h3sa, h2pa, h1sub]
  · rw [h6sub, h3sb, h2sub, h1pb]
  · rw [h6pa, h3da, h2pa, h1del]
  · rw [h6del, h3db, h2del, h1pb]
  · rw [h6len, h3len, h2len, h1len]; simp

/-- B's application closes first, A's after it has seen the end of the stream; `2·MSL + 1` ms on B's side -/
def releaseRoundSeqBA (s : Sys) : Except String Sys :=
  match s.step (.close .B) with
  | .error e => .error e
  | .ok (s1, _) =>
  match phase s1 with
  | .error e => .error e
  | .ok s2 =>
  match phase s2 with
  | .error e => .error e
  | .ok s3 =>
  match s3.step (.close .A) with
  | .error e => .error e
  | .ok (s4, _) =>
  match phase s4 with
  | .error e => .error e
  | .ok s5 =>
  match phase s5 with
  | .error e => .error e
  | .ok s6 =>
  match s6.step (.tick .B (TIME_WAIT + 1)) with
  | .error e => .error e
  | .ok (s7, _) => .ok s7

/-- **release after a sequential close, B first** from a quiet state -/
theorem release_sequential_BA (s : Sys) (ta tb : Tcb) (ha : (s.side .A).tcb = some ta) (hb : (s.side .B).tcb = some tb)
    (qa : QuietX .A ta tb) (qb : QuietX .B tb ta) :
    ∃ s', releaseRoundSeqBA s = .ok s' ∧ FinRun s s' ∧ (s'.side .A).tcb = none ∧ (s'.side .B).tcb = none ∧
      (s'.side .A).submitted = (s.side .A).submitted ∧ (s'.side .B).submitted = (s.side .B).submitted ∧
      (s'.side .A).delivered = (s.side .A).delivered ∧ (s'.side .B).delivered = (s.side .B).delivered ∧
      s'.historyLen = s.historyLen + 4 := by
  -- the segments
  have hF1 : IsFin (finSeg tb) ta.rcv.nxt ta.snd.nxt := by rw [qb.sync, ← qa.sync]; exact isFin_finSeg tb
  obtain ⟨a1, a2, a3, a4⟩ := act_close .B tb ta qb
  obtain ⟨b1, b2, b3, b4, b5, b6, b7, b8⟩ := pas_fin .A ta tb qa (finSeg tb) hF1
  have hA1 : IsAck ⟨(pasB1 ta).finAckHdr, []⟩ tb.rcv.nxt (tb.snd.nxt + 1) := by
    rw [qa.sync, ← qb.sync]; exact b5
  obtain ⟨a5, a6, a7⟩ := act_ack .B tb ta qb _ hA1
  -- close B
  have st1 : s.step (.close .B) = .ok (s.setSide .B { s.side .B with tcb := some (closedT tb) }, .closed .Ok) := by
    simp only [Sys.step, Op.side, hb, a1]
  generalize hs1 : s.setSide .B { s.side .B with tcb := some (closedT tb) } = s1 at st1
  have h1a : (s1.side .A).tcb = some ta := by rw [← hs1]; exact ha
  have h1b : (s1.side .B).tcb = some (closedT tb) := by rw [← hs1]; rfl
  have h1sa : (s1.side .A).submitted = (s.side .A).submitted := by rw [← hs1]; rfl
  have h1sb : (s1.side .B).submitted = (s.side .B).submitted := by rw [← hs1]; rfl
  have h1da : (s1.side .A).delivered = (s.side .A).delivered := by rw [← hs1]; rfl
  have h1db : (s1.side .B).delivered = (s.side .B).delivered := by rw [← hs1]; rfl
  have h1len : s1.historyLen = s.historyLen := by rw [← hs1]; rfl
  -- phase 1: B's FIN
  obtain ⟨s2, ph1, r12, h2a, h2b, h2sa, h2sb, h2da, h2db, h2len⟩ :=
    phase_eval s1 ta (closedT tb) (pasB1 ta) (actA1 tb) (pasB2 ta) (actA1 tb) [] [finSeg tb]
      h1a h1b b1 a2 rfl b2
      (fun g hg => by cases hg)
      (fun g hg => by
        simp only [List.mem_singleton] at hg; subst hg
        exact ⟨qb.lp, qb.rp⟩)
  rw [b3] at h2a h2da
  rw [a3] at h2b h2db
  -- phase 2: A's ACK
  obtain ⟨s3, ph2, r23, h3a, h3b, h3sa, h3sb, h3da, h3db, h3len⟩ :=
    phase_eval s2 (pasB2 ta) (actA1 tb) (pasB3 ta) (actA2 tb) (pasB3 ta) (actA3 tb ⟨(pasB1 ta).finAckHdr, []⟩)
      [⟨(pasB1 ta).finAckHdr, []⟩] [] h2a h2b b4 a4 a5 rfl
      (fun g hg => by
        simp only [List.mem_singleton] at hg; subst hg
        exact ⟨b6.trans qa.lp, b7.trans qa.rp⟩)
      (fun g hg => by cases hg)
  rw [b8] at h3a h3da
  rw [a6] at h3b h3db
  -- close A
  have hF2 : IsFin (pasFin ta) tb.rcv.nxt (tb.snd.nxt + 1) := by
    have : IsFin (pasFin ta) ta.snd.nxt (ta.rcv.nxt + 1) := ⟨rfl, rfl, rfl, rfl, rfl, rfl, rfl⟩
    rw [qa.sync, ← qb.sync]; exact this
  obtain ⟨a8, a9, a10, a11, a12, a13, a14, a15⟩ := act_fin .B tb ta qb _ (pasFin ta) hA1 hF2
  have hA3 : IsAck ⟨(actA4 tb ⟨(pasB1 ta).finAckHdr, []⟩).finAckHdr, []⟩ (ta.rcv.nxt + 1) (ta.snd.nxt + 1) := by
    rw [qb.sync, ← qa.sync]; exact a11
  obtain ⟨c1, c2, c3, c4, c5, c6, c7, c8⟩ := pas_close .A ta tb qa _ hA3
  have st4 : s3.step (.close .A) = .ok (s3.setSide .A { s3.side .A with tcb := some (pasB4 ta) }, .closed .Ok) := by
    simp only [Sys.step, Op.side, h3a, c1]
  generalize hs4 : s3.setSide .A { s3.side .A with tcb := some (pasB4 ta) } = s4 at st4
  have h4a : (s4.side .A).tcb = some (pasB4 ta) := by rw [← hs4]; rfl
  have h4b : (s4.side .B).tcb = some (actA3 tb ⟨(pasB1 ta).finAckHdr, []⟩) := by rw [← hs4]; exact h3b
  have h4sa : (s4.side .A).submitted = (s3.side .A).submitted := by rw [← hs4]; rfl
  have h4sb : (s4.side .B).submitted = (s3.side .B).submitted := by rw [← hs4]; rfl
  have h4da : (s4.side .A).delivered = (s3.side .A).delivered := by rw [← hs4]; rfl
  have h4db : (s4.side .B).delivered = (s3.side .B).delivered := by rw [← hs4]; rfl
  have h4len : s4.historyLen = s3.historyLen := by rw [← hs4]; rfl
  -- phase 3: A's FIN
  obtain ⟨s5, ph3, r45, h5a, h5b, h5sa, h5sb, h5da, h5db, h5len⟩ :=
    phase_eval s4 (pasB4 ta) (actA3 tb ⟨(pasB1 ta).finAckHdr, []⟩) (pasB5 ta) (actA4 tb ⟨(pasB1 ta).finAckHdr, []⟩)
      (pasB5 ta) (actA5 tb ⟨(pasB1 ta).finAckHdr, []⟩) [pasFin ta] [] h4a h4b c2 a7 a8 rfl
      (fun g hg => by
        simp only [List.mem_singleton] at hg; subst hg
        exact ⟨c4.trans qa.lp, c5.trans qa.rp⟩)
      (fun g hg => by cases hg)
  rw [c6] at h5a h5da
  rw [a9] at h5b h5db
  -- phase 4: B's ACK deletes A's TCB
  obtain ⟨s6, ph4, r56, h6a, h6b, h6sa, h6sb, h6da, h6db, h6len⟩ :=
    phase_eval_closeA s5 (pasB5 ta) (actA5 tb ⟨(pasB1 ta).finAckHdr, []⟩) (pasB6 ta) (actA6 tb ⟨(pasB1 ta).finAckHdr, []⟩)
      ⟨(actA4 tb ⟨(pasB1 ta).finAckHdr, []⟩).finAckHdr, []⟩ h5a h5b c7 a10 c8 ⟨a12.trans qb.lp, a13.trans qb.rp⟩
  rw [a14] at h6b h6db
  -- 2·MSL pass on B's side
  obtain ⟨tb7, tB⟩ := (advanceTime_timeWait (actA6 tb ⟨(pasB1 ta).finAckHdr, []⟩) (TIME_WAIT + 1) TIME_WAIT a15).1 (by omega)
  have st7 : s6.step (.tick .B (TIME_WAIT + 1)) =
      .ok (s6.setSide .B { s6.side .B with tcb := none, listen := none }, .tick .CloseConnection) := by
    simp only [Sys.step, Op.side, h6b, tB]
  refine ⟨s6.setSide .B { s6.side .B with tcb := none, listen := none }, ?_, ?_, h6a, rfl, ?_, ?_, ?_, ?_, ?_⟩
  · unfold releaseRoundSeqBA
    rw [st1]
    dsimp only
    rw [ph1]
    dsimp only
    rw [ph2]
    dsimp only
    rw [st4]
    dsimp only
    rw [ph3]
    dsimp only
    rw [ph4]
    dsimp only
    rw [st7]
  · exact ((((((FinRun.step (op := .close .B) (.refl _) trivial st1).trans (FinRun.of_plain r12)).trans
      (FinRun.of_plain r23)).trans (.step (op := .close .A) (.refl _) trivial st4)).trans (FinRun.of_plain r45)).trans
      r56).trans (.step (op := .tick .B (TIME_WAIT + 1)) (.refl _) trivial st7)
  · show (s6.side .A).submitted = _
    rw [h6sa, h5sa, h4sa, h3sa, h2sa, h1sa]
  · show (s6.side .B).submitted = _
    rw [h6sb, h5sb, h4sb, h3sb, h2sb, h1sb]
  · show (s6.side .A).delivered = _
    rw [h6da, h5da, h4da, h3da, h2da, h1da]; simp
  · show (s6.side .B).delivered = _
    rw [h6db, h5db, h4db, h3db, h2db, h1db]; simp
  · show s6.historyLen = _
    rw [h6len, h5len, h4len, h3len, h2len, h1len]; rfl

end Elvis.Tcp
