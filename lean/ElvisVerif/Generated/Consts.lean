-- GENERATED from /repo sources by tools/extract.py on every check; do not edit
namespace Elvis.Gen
/-- reassembly/segment.rs `TLB` (timer lower bound, seconds) -/
def TLB : Nat := 15
def ipv4CurrentNetwork : Nat := 0
def ipv4SubnetBroadcast : Nat := 4294967295
def udpHeaderOctets : Nat := 8
def udpDemuxStrip : Nat := 8
def ipv4DemuxStripFactor : Nat := 4
def ipv4ProtoUdp : Nat := 17
def ipv4BaseWords : Nat := 5
def broadcastMac : Nat := 281474976710655
def mtuBits : Nat := 16
def macBits : Nat := 64
def mtuDefault : Nat := 2 ^ mtuBits - 1
def txNsPerSec : Nat := 1000000000
def txNsPerMs : Nat := 1000000
end Elvis.Gen
