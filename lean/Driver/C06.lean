import ElvisVerif.Model.Arp
import Driver.Common
/-! Line-protocol handlers for C06 (sub-command `c06`).

The harness prints the configuration and, in the order the real code produced them, every
observed event (claims, resolve calls, retry rounds, frames handed to the network with their
fate, tap deliveries, returns of `resolve`).  Each event is one label (or `tick` + label) of the
transition system of `Model/Arp.lean`; the driver replays them and prints what the model says
the real code must have answered. -/
namespace Driver.C06
open Elvis.Arp

structure St where
  net : Net
  /-- parallel to `net.wire`: has the frame shown up at the network hook yet? -/
  seen : List Bool
  /-- harness resolution id → index into `net.resolvers` -/
  rids : List (Nat × Nat)

def St.empty : St := ⟨init [] 65535, [], []⟩

def showStatus : Status → String
  | .ok m => s!"ok {m}"
  | .err => "err"

def parseDst (s : String) : Option (Option Nat) :=
  if s == "-" then some none else s.toNat?.map some

/-- advance the clock to `t`; `none` when the model does not allow time to pass that far -/
def advance (st : St) (t : Nat) : Except String St :=
  if t < st.net.now then .error "time-backwards"
  else if t == st.net.now then .ok st
  else
    let dt := t - st.net.now
    if st.net.canTick dt then .ok { st with net := step st.net (.tick dt) }
    else
      let blockers := (List.range st.net.resolvers.length).filter fun i =>
        match st.net.resolvers[i]? with
        | some r => !(r.result.isSome || ((st.net.hit r.mach r.dest).isNone && decide (st.net.now + dt ≤ r.deadline)))
        | none => false
      .error s!"time-blocked-by-resolver-index {blockers}"

def frameMatches (f : Frame) (smac : Nat) (dst : Option Nat) (bytes : List UInt8) : Bool :=
  f.smac == smac && f.dst == dst && build f.pkt == bytes

def findIdx (p : Nat → Bool) (n : Nat) : Option Nat := (List.range n).find? p

def padSeen (st : St) : St :=
  { st with seen := st.seen ++ List.replicate (st.net.wire.length - st.seen.length) false }

def tapOf (net : Net) (mac : Nat) : Option (Nat × Nat) :=
  (List.range net.machines.length).findSome? fun k =>
    match net.machines[k]? with
    | some m => (m.macs.idxOf? mac).map fun slot => (k, slot)
    | none => none

def showSubnet : Option Subnet → String
  | none => ""
  | some sn => s!"/{sn.mask}/{sn.gateway}"

def insertSorted (x : Nat × String) : List (Nat × String) → List (Nat × String)
  | [] => [x]
  | y :: r => if x.1 ≤ y.1 then x :: y :: r else y :: insertSorted x r

def sortPairs (l : List (Nat × String)) : List (Nat × String) := l.foldr insertSorted []

def dumpMachine (m : Machine) : String :=
  let ips := sortPairs (m.localIps.map fun (ip, sn) => (ip, s!"{ip}{showSubnet sn}"))
  let tab := sortPairs (m.table.map fun (ip, st) => (ip, s!"{ip}=" ++ (match st with | .ok mac => s!"{mac}" | .err => "err")))
  "ips[" ++ ",".intercalate (ips.map (·.2)) ++ "] table[" ++ ",".intercalate (tab.map (·.2)) ++ "]"

def stepEv (st : St) (ws : List String) : St × String :=
  match ws with
  | ["listen", k, ip] =>
    match k.toNat?, ip.toNat? with
    | some k, some ip => ({ st with net := step st.net (.listen k ip) }, "ok")
    | _, _ => (st, "bad-op")
  | ["subnet", k, ip, bits, gw] =>
    match k.toNat?, ip.toNat?, bits.toNat?, gw.toNat? with
    | some k, some ip, some bits, some gw => ({ st with net := step st.net (.setSubnet k ip bits gw) }, "ok")
    | _, _, _, _ => (st, "bad-op")
  | ["resolve", rid, k, loc, remote, slot] =>
    match rid.toNat?, k.toNat?, loc.toNat?, remote.toNat?, slot.toNat? with
    | some rid, some k, some loc, some remote, some slot =>
      let n0 := st.net.resolvers.length
      let net := step st.net (.resolve k loc remote slot)
      let st := padSeen { st with net := net, rids := (rid, n0) :: st.rids }
      match net.panic with
      | some p => (st, p)
      | none =>
        match net.resolvers[n0]? with
        | some r =>
          (st, match r.result with
               | some (s, _) => s!"done {showStatus s}"
               | none => s!"pending {r.dest}")
        | none => (st, "no-such-machine")
    | _, _, _, _, _ => (st, "bad-op")
  | ["round", rid] =>
    match rid.toNat?.bind fun rid => st.rids.lookup rid with
    | some i =>
      let before := st.net.resolvers[i]?
      let net := step st.net (.timeout i)
      let st := padSeen { st with net := net }
      match before, net.resolvers[i]? with
      | some r0, some r1 =>
        if r0.result.isNone && r1.result.isNone && r1.sent == r0.sent + 1 then
          (st, s!"request {r1.loc} {r1.dest} {r0.sent}")
        else match r1.result with
          | some (s, _) => (st, s!"done {showStatus s}")
          | none => (st, "not-enabled")
      | _, _ => (st, "bad-rid")
    | none => (st, "bad-rid")
  | ["done", rid] =>
    match rid.toNat?.bind fun rid => st.rids.lookup rid with
    | some i =>
      match st.net.resolvers[i]? with
      | some r0 =>
        if r0.result.isSome then (st, "already-done") else
        -- a waiter that finds an answer reads it; otherwise only the last time-out can end the call
        let net := if (st.net.hit r0.mach r0.dest).isSome then step st.net (.wake i) else step st.net (.timeout i)
        let st := padSeen { st with net := net }
        match net.resolvers[i]? with
        | some r1 =>
          (st, match r1.result with
               | some (s, _) => s!"done {showStatus s}"
               | none => if r1.sent == r0.sent then "not-enabled" else "sends-instead")
        | none => (st, "bad-rid")
      | none => (st, "bad-rid")
    | none => (st, "bad-rid")
  | ["send", smac, dst, bytes, plan] =>
    match smac.toNat?, parseDst dst, parseHex bytes with
    | some smac, some dst, some bytes =>
      let st := padSeen st
      match findIdx (fun i => match st.net.wire[i]?, st.seen[i]? with
                              | some f, some false => frameMatches f smac dst bytes
                              | _, _ => false) st.net.wire.length with
      | some i =>
        let st := { st with seen := st.seen.set i true }
        if plan == "drop" then ({ st with net := step st.net (.lose i) }, "ok") else (st, "ok")
      | none => (st, "unexpected-frame")
    | _, _, _ => (st, "bad-op")
  | ["deliver", smac, dst, bytes, tomac] =>
    match smac.toNat?, parseDst dst, parseHex bytes, tomac.toNat? with
    | some smac, some dst, some bytes, some tomac =>
      let st := padSeen st
      match findIdx (fun i => match st.net.wire[i]?, st.seen[i]? with
                              | some f, some true => !f.lost && frameMatches f smac dst bytes
                              | _, _ => false) st.net.wire.length, tapOf st.net tomac with
      | some i, some (k, slot) =>
        match st.net.wire[i]? with
        | some f =>
          -- `Arp::demux` parses the bytes: the model's parser must recover the packet
          if (match fromBytes bytes with | .ok p => p != f.pkt | .error _ => true) then (st, "parse-mismatch")
          else if f.dst == none || f.dst == some Elvis.Gen.Arp.broadcastMac || f.dst == some tomac then
            (padSeen { st with net := step st.net (.deliver i k slot) }, "ok")
          else (st, "misdelivered")
        | none => (st, "no-such-frame")
      | none, _ => (st, "no-such-frame")
      | _, none => (st, "no-such-tap")
    | _, _, _, _ => (st, "bad-op")
  | _ => (st, "bad-op")

def step (st : St) (ws : List String) : St × String :=
  match ws with
  | ["case", id] => (St.empty, s!"case {id}")
  | "cfg" :: _ => (st, "cfg")
  | ["init", mtu, slots] =>
    let mtu := if mtu == "-" then some 65535 else mtu.toNat?
    match mtu, (slots.splitOn ",").mapM (·.toNat?) with
    | some mtu, some slots =>
      let net := init slots mtu
      (⟨net, [], []⟩, "macs " ++ ";".intercalate (net.machines.map fun m => ",".intercalate (m.macs.map toString)))
    | _, _ => (st, "bad-op")
  | "at" :: t :: rest =>
    match t.toNat? with
    | some t =>
      match advance st t with
      | .ok st => stepEv st rest
      | .error e => (st, e)
    | none => (st, "bad-op")
  | ["end", t] =>
    match t.toNat? with
    | some t =>
      match advance st t with
      | .ok st =>
        let st := padSeen st
        let pend := st.rids.reverse.filterMap fun (rid, i) =>
          match st.net.resolvers[i]? with
          | some r => if r.result.isNone then some (toString rid) else none
          | none => none
        let unseen := (st.seen.filter (· == false)).length
        (st, "end " ++ " | ".intercalate (st.net.machines.map dumpMachine) ++
             s!" pending[{",".intercalate pend}] unseen={unseen}")
      | .error e => (st, e)
    | none => (st, "bad-op")
  | _ => (st, "bad-op")

def dispatch (sub : String) (i o : IO.FS.Stream) : Option (IO Unit) :=
  -- `c06-ip`: the same event language; the resolutions were triggered through the IPv4 layer
  -- (`Ipv4::open_for_sending` / `Udp::open_and_listen`), which must behave as `Arp::resolve`
  if sub == "c06" || sub == "c06-ip" then some (Driver.loop i o step St.empty) else none

end Driver.C06
