//! C19: correspondence + oracle runs (sub-commands `c19` / `c19-*`).
use hcommon::*;

pub fn run(args: &Args) {
    eprintln!("hfull: {} not implemented yet", args.prop);
    std::process::exit(2);
}
