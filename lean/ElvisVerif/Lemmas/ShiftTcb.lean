import ElvisVerif.Model.TcbShift
import ElvisVerif.Lemmas.Tcb
import ElvisVerif.Lemmas.ShiftCmp
import ElvisVerif.Lemmas.ShiftHeap
/-!
# Shift lemmas for the small pieces of the TCB (C12)

Projections of `Tcb.shift`, headers, `enqueue`, the receive-window tests, the reorder heap.
Everything the per-block proofs of `Lemmas/ShiftBlocks.lean` rewrite with.
-/
namespace Elvis.Tcp
open Elvis.ModCmp

/-! ## arithmetic normal forms (tiny `bv_omega` facts) -/

theorem add_right_comm' (a k c : Seq) : a + k + c = a + c + k := by bv_omega
theorem sub_right_comm' (a k c : Seq) : a + k - c = a - c + k := by bv_omega
theorem add_sub_add_right' (a b k : Seq) : (b + k) - (a + k) = b - a := by bv_omega
theorem eq_add_right_iff (a b k : Seq) : (a + k = b + k) ↔ a = b := Elvis.ModCmp.eq_shift a b k

/-! ## headers -/

@[simp] theorem Hdr.shift_ctl (k1 k2 : Seq) (h : Hdr) : (h.shift k1 k2).ctl = h.ctl := rfl
@[simp] theorem Hdr.shift_seq (k1 k2 : Seq) (h : Hdr) : (h.shift k1 k2).seq = h.seq + k1 := rfl
@[simp] theorem Hdr.shift_wnd (k1 k2 : Seq) (h : Hdr) : (h.shift k1 k2).wnd = h.wnd := rfl
@[simp] theorem Hdr.shift_srcPort (k1 k2 : Seq) (h : Hdr) : (h.shift k1 k2).srcPort = h.srcPort := rfl
@[simp] theorem Hdr.shift_dstPort (k1 k2 : Seq) (h : Hdr) : (h.shift k1 k2).dstPort = h.dstPort := rfl
theorem Hdr.shift_ack (k1 k2 : Seq) (h : Hdr) :
    (h.shift k1 k2).ack = if h.ctl.ack then h.ack + k2 else h.ack := rfl
theorem Hdr.shift_ack_of (k1 k2 : Seq) (h : Hdr) (ha : h.ctl.ack = true) :
    (h.shift k1 k2).ack = h.ack + k2 := by rw [Hdr.shift_ack, if_pos ha]
theorem Hdr.shift_ack_of_not (k1 k2 : Seq) (h : Hdr) (ha : h.ctl.ack = false) :
    (h.shift k1 k2).ack = h.ack := by rw [Hdr.shift_ack, ha]; rfl

@[simp] theorem Segment.shift_text (k1 k2 : Seq) (s : Segment) : (s.shift k1 k2).text = s.text := rfl
@[simp] theorem Segment.shift_hdr (k1 k2 : Seq) (s : Segment) : (s.shift k1 k2).hdr = s.hdr.shift k1 k2 := rfl
@[simp] theorem Segment.shift_segLen (k1 k2 : Seq) (s : Segment) : (s.shift k1 k2).segLen = s.segLen := rfl

theorem Hdr.shift_built (k1 k2 : Seq) (h : Hdr) : (h.shift k1 k2).built = h.built.shift k1 k2 := rfl

/-- a pure-ACK style header: builder, ACK, window -/
theorem Hdr.shift_ackStyle (lp rp : U16) (seq ack : Seq) (w : U16) (k1 k2 : Seq) :
    (((Hdr.builder lp rp (seq + k1)).withAck (ack + k2)).withWnd w) =
      (((Hdr.builder lp rp seq).withAck ack).withWnd w).shift k1 k2 := rfl

/-- a header without ACK: builder (+ RST / SYN), window -/
theorem Hdr.shift_rstStyle (lp rp : U16) (seq : Seq) (w : U16) (k1 k2 : Seq) :
    (((Hdr.builder lp rp (seq + k1)).withRst).withWnd w) =
      (((Hdr.builder lp rp seq).withRst).withWnd w).shift k1 k2 := rfl

/-! ## projections of `Tcb.shift` -/
section proj
variable (ka kb : Seq) (s : Tcb)

@[simp] theorem Tcb.shift_state : (s.shift ka kb).state = s.state := rfl
@[simp] theorem Tcb.shift_mtu : (s.shift ka kb).mtu = s.mtu := rfl
@[simp] theorem Tcb.shift_localPort : (s.shift ka kb).localPort = s.localPort := rfl
@[simp] theorem Tcb.shift_remotePort : (s.shift ka kb).remotePort = s.remotePort := rfl
@[simp] theorem Tcb.shift_initiation : (s.shift ka kb).initiation = s.initiation := rfl
@[simp] theorem Tcb.shift_timeouts : (s.shift ka kb).timeouts = s.timeouts := rfl
@[simp] theorem Tcb.shift_una : (s.shift ka kb).snd.una = s.snd.una + ka := rfl
@[simp] theorem Tcb.shift_nxt : (s.shift ka kb).snd.nxt = s.snd.nxt + ka := rfl
@[simp] theorem Tcb.shift_iss : (s.shift ka kb).snd.iss = s.snd.iss + ka := rfl
@[simp] theorem Tcb.shift_sndwnd : (s.shift ka kb).snd.wnd = s.snd.wnd := rfl
@[simp] theorem Tcb.shift_otext : (s.shift ka kb).outgoing.text = s.outgoing.text := rfl
@[simp] theorem Tcb.shift_itext : (s.shift ka kb).incoming.text = s.incoming.text := rfl
@[simp] theorem Tcb.shift_retransmit :
    (s.shift ka kb).outgoing.retransmit = s.outgoing.retransmit.map (Transmit.shift ka kb) := rfl
@[simp] theorem Tcb.shift_oneshot :
    (s.shift ka kb).outgoing.oneshot = s.outgoing.oneshot.map (Hdr.shift ka kb) := rfl
@[simp] theorem Tcb.shift_heap :
    (s.shift ka kb).incoming.segments = s.incoming.segments.map (Segment.shift kb ka) := rfl

@[simp] theorem Tcb.shift_rcvwnd : (s.shift ka kb).rcv.wnd = s.rcv.wnd := by
  show (Rcv.shift kb s.state s.rcv).wnd = s.rcv.wnd
  cases s.state <;> rfl

theorem Tcb.shift_rcvnxt (h : s.state ≠ .SynSent) : (s.shift ka kb).rcv.nxt = s.rcv.nxt + kb := by
  show (Rcv.shift kb s.state s.rcv).nxt = s.rcv.nxt + kb
  cases hs : s.state <;> first | rfl | exact absurd hs h

theorem Tcb.shift_rcvirs (h : s.state ≠ .SynSent) : (s.shift ka kb).rcv.irs = s.rcv.irs + kb := by
  show (Rcv.shift kb s.state s.rcv).irs = s.rcv.irs + kb
  cases hs : s.state <;> first | rfl | exact absurd hs h

theorem Tcb.shift_rcv_synSent (h : s.state = .SynSent) : (s.shift ka kb).rcv = s.rcv := by
  show Rcv.shift kb s.state s.rcv = s.rcv
  rw [h]; rfl

theorem Tcb.shift_wl1 (h : s.state ≠ .SynSent) : (s.shift ka kb).snd.wl1 = s.snd.wl1 + kb := by
  show (Snd.shift ka kb s.state s.snd).wl1 = _
  cases hs : s.state <;> first | rfl | exact absurd hs h

theorem Tcb.shift_wl2 (h : s.state ≠ .SynSent) : (s.shift ka kb).snd.wl2 = s.snd.wl2 + ka := by
  show (Snd.shift ka kb s.state s.snd).wl2 = _
  cases hs : s.state <;> first | rfl | exact absurd hs h

@[simp] theorem Tcb.shift_queuedBytes : (s.shift ka kb).outgoing.queuedBytes = s.outgoing.queuedBytes := by
  unfold Outgoing.queuedBytes
  rw [Tcb.shift_retransmit, List.map_map]
  rfl

@[simp] theorem Tcb.shift_headerBuilder (q : Seq) :
    (s.shift ka kb).headerBuilder q = s.headerBuilder q := rfl

/-- `fin_pending` reads the state and the queued text only -/
@[simp] theorem Tcb.shift_finPending : (s.shift ka kb).finPending = s.finPending := rfl

@[simp] theorem Tcb.shift_isFinAcked : (s.shift ka kb).isFinAcked = s.isFinAcked := by
  unfold Tcb.isFinAcked
  rw [Tcb.shift_finPending, Tcb.shift_nxt, Tcb.shift_una, beq_shift]

end proj

/-! ## emitted headers -/
section emit
variable (ka kb : Seq) (s : Tcb)

theorem Tcb.shift_ackHdr (h : s.state ≠ .SynSent) :
    (s.shift ka kb).ackHdr = s.ackHdr.shift ka kb := by
  unfold Tcb.ackHdr
  rw [Tcb.shift_headerBuilder, Tcb.shift_nxt, Tcb.shift_rcvnxt ka kb s h, Tcb.shift_rcvwnd]
  rfl

theorem Tcb.shift_finHdr (h : s.state ≠ .SynSent) :
    (s.shift ka kb).finHdr = s.finHdr.shift ka kb := by
  unfold Tcb.finHdr
  rw [Tcb.shift_headerBuilder, Tcb.shift_nxt, Tcb.shift_rcvnxt ka kb s h, Tcb.shift_rcvwnd]
  rfl

/-- the RST for an unacceptable ACK takes its SEQ from the ACK field of the offending segment -/
theorem Tcb.shift_rstForAck (seg : Hdr) (ha : seg.ctl.ack = true) :
    (s.shift ka kb).rstForAck (seg.shift kb ka) = (s.rstForAck seg).shift ka kb := by
  unfold Tcb.rstForAck
  rw [Tcb.shift_headerBuilder, Hdr.shift_ack_of kb ka seg ha, Tcb.shift_rcvwnd]
  rfl

theorem Tcb.shift_enqueueBuilt (h : Hdr) :
    (s.shift ka kb).enqueueBuilt (h.shift ka kb) = (s.enqueueBuilt h).shift ka kb := by
  unfold Tcb.enqueueBuilt
  rw [Hdr.shift_ctl]
  split
  · simp only [Tcb.shift, List.map_append, List.map_cons, List.map_nil]; rfl
  · simp only [Tcb.shift, List.map_append, List.map_cons, List.map_nil]

/-- `enqueueThen` commutes when the header and the continuation do -/
theorem Tcb.shift_enqueueThen (hb hb' : Hdr) (hh : hb' = hb.shift ka kb) (k k' : Tcb → B)
    (hk : ∀ u, k' (u.shift ka kb) = M.shift ka kb (k u)) :
    Tcb.enqueueThen (s.shift ka kb) hb' k' = M.shift ka kb (Tcb.enqueueThen s hb k) := by
  subst hh
  rw [Tcb.enqueueThen_eq, Tcb.enqueueThen_eq, Hdr.shift_built, Tcb.shift_enqueueBuilt, hk]

theorem Tcb.shift_enqueue (hb hb' : Hdr) (hh : hb' = hb.shift ka kb) :
    (s.shift ka kb).enqueue hb' = shiftE ka kb (s.enqueue hb) := by
  subst hh
  rw [Tcb.enqueue_eq, Tcb.enqueue_eq, Hdr.shift_built, Tcb.shift_enqueueBuilt]
  rfl

end emit

@[simp] theorem M.shift_ok {α : Type} (ka kb : Seq) (s : Tcb) (a : α) :
    M.shift ka kb (.ok (s, a)) = .ok (s.shift ka kb, a) := rfl
@[simp] theorem M.shift_error {α : Type} (ka kb : Seq) (e : String) :
    M.shift ka kb (.error e : M α) = .error e := rfl
@[simp] theorem shiftE_ok (ka kb : Seq) (s : Tcb) : shiftE ka kb (.ok s) = .ok (s.shift ka kb) := rfl
@[simp] theorem shiftE_error (ka kb : Seq) (e : String) : shiftE ka kb (.error e) = .error e := rfl

/-! ## the receive-window tests -/
section window
variable (ka kb : Seq) (s : Tcb)

theorem Tcb.shift_isInRcvWindow (h : s.state ≠ .SynSent) (n : Seq) :
    (s.shift ka kb).isInRcvWindow (n + kb) = s.isInRcvWindow n := by
  unfold Tcb.isInRcvWindow
  rw [Tcb.shift_rcvnxt ka kb s h, Tcb.shift_rcvwnd, sub_right_comm', add_right_comm', modBounded_shift]

theorem Tcb.shift_isSeqOk (h : s.state ≠ .SynSent) (dl seq : Seq) (syn fin : Bool) :
    (s.shift ka kb).isSeqOk dl (seq + kb) syn fin = s.isSeqOk dl seq syn fin := by
  unfold Tcb.isSeqOk
  simp only [Tcb.shift_rcvwnd]
  rw [Tcb.shift_isInRcvWindow ka kb s h, Tcb.shift_rcvnxt ka kb s h, sub_right_comm', modBounded_shift]
  have e : seq + kb + BitVec.ofNat 32 (dl.toNat + fin.toNat + syn.toNat) - 1 =
      seq + BitVec.ofNat 32 (dl.toNat + fin.toNat + syn.toNat) - 1 + kb := by
    rw [add_right_comm', sub_right_comm']
  rw [e, Tcb.shift_isInRcvWindow ka kb s h]

end window

/-! ## the reorder heap -/

theorem segLe_shift (k1 k2 : Seq) (a b : Segment) :
    segLe (a.shift k1 k2) (b.shift k1 k2) = segLe a b := by
  unfold segLe
  simp only [Segment.shift_hdr, Hdr.shift_seq, beq_shift, modLt_shift]

theorem push_shift (k1 k2 : Seq) (l : List Segment) (x : Segment) :
    LHeap.push segLe (l.map (Segment.shift k1 k2)) (x.shift k1 k2) =
      (LHeap.push segLe l x).map (Segment.shift k1 k2) :=
  LHeap.push_map _ segLe segLe (segLe_shift k1 k2) l x

theorem pop_shift (k1 k2 : Seq) (l : List Segment) :
    LHeap.pop segLe (l.map (Segment.shift k1 k2)) =
      ((LHeap.pop segLe l).1.map (Segment.shift k1 k2), (LHeap.pop segLe l).2.map (Segment.shift k1 k2)) :=
  LHeap.pop_map _ segLe segLe (segLe_shift k1 k2) l

theorem peek_shift (k1 k2 : Seq) (l : List Segment) :
    LHeap.peek (l.map (Segment.shift k1 k2)) = (LHeap.peek l).map (Segment.shift k1 k2) :=
  LHeap.peek_map _ l

end Elvis.Tcp
