import ElvisVerif.Lemmas.TcbSnd
import ElvisVerif.Model.TcpSys
/-!
# The closed two-endpoint system: RCV.NXT of one side never passes SND.NXT of the other

Invariant `Inv` over `Sys.step` for a single incarnation without forged segments (`Op.Clean`):
for each side `x` with TCB `t` — `SndBelow t`; every history element sent from `x`'s port lies
below `t`'s SND.NXT; when the peer has a TCB `u`, `u`'s RCV.NXT and everything in `u`'s reorder
heap lie below it too.  Before the passive side's TCB exists nothing it has sent occupies
sequence space and the active side is still in SYN-SENT (`fresh`).
-/
namespace Elvis.Tcp
open Tcb

/-! ## bookkeeping about `Sys` -/

theorem SideId.peer_peer (x : SideId) : x.peer.peer = x := by cases x <;> rfl
theorem SideId.peer_ne (x : SideId) : x.peer ≠ x := by cases x <;> simp [SideId.peer]
theorem SideId.port_ne (x : SideId) : x.peer.port ≠ x.port := by cases x <;> decide

theorem side_setSide_same (s : Sys) (x : SideId) (v : Side) : (s.setSide x v).side x = v := by
  cases x <;> rfl
theorem side_setSide_peer (s : Sys) (x : SideId) (v : Side) : (s.setSide x v).side x.peer = s.side x.peer := by
  cases x <;> rfl
theorem history_setSide (s : Sys) (x : SideId) (v : Side) : (s.setSide x v).history = s.history := by
  cases x <;> rfl
theorem side_record (s : Sys) (segs : List Segment) (y : SideId) : (s.record segs).side y = s.side y := by
  cases y <;> rfl
theorem mem_history_record (s : Sys) (segs : List Segment) (σ : Segment) :
    σ ∈ (s.record segs).history ↔ σ ∈ segs ∨ σ ∈ s.history := by
  unfold Sys.record; simp

theorem nth_mem (s : Sys) (i : Nat) (σ : Segment) (h : s.nth i = some σ) : σ ∈ s.history := by
  unfold Sys.nth at h
  split at h
  · exact List.mem_of_getElem? h
  · simp at h

/-- every other side is the peer -/
theorem side_cases (x y : SideId) : y = x ∨ y = x.peer := by cases x <;> cases y <;> simp [SideId.peer]

/-! ## the invariant -/

/-- `x` as sender, its peer as receiver -/
structure Link (sys : Sys) (x : SideId) : Prop where
  snd : ∀ t, (sys.side x).tcb = some t → SndBelow t ∧ t.localPort = x.port ∧ t.remotePort = x.peer.port
  hist : ∀ t, (sys.side x).tcb = some t → ∀ σ ∈ sys.history, σ.hdr.srcPort = x.port →
    SegBelow t.snd.iss t.sent σ
  rcv : ∀ t u, (sys.side x).tcb = some t → (sys.side x.peer).tcb = some u →
    RcvBelow t.snd.iss t.sent u ∧ ∀ σ ∈ u.incoming.segments, SegBelow t.snd.iss t.sent σ
  fresh : (sys.side x).tcb = none → (sys.side x).listen.isSome = true →
    (∀ σ ∈ sys.history, σ.hdr.srcPort = x.port → σ.segLen = 0 ∧ σ.hdr.ctl.syn = false) ∧
    (∀ u, (sys.side x.peer).tcb = some u → u.state = .SynSent ∧
      ∀ σ ∈ u.incoming.segments, σ.segLen = 0 ∧ σ.hdr.ctl.syn = false)

structure Inv (sys : Sys) : Prop where
  link : ∀ x, Link sys x
  ports : ∀ σ ∈ sys.history, (σ.hdr.srcPort = SideId.A.port ∧ σ.hdr.dstPort = SideId.B.port) ∨
    (σ.hdr.srcPort = SideId.B.port ∧ σ.hdr.dstPort = SideId.A.port)
  /-- only the passive side B ever listens -/
  noListenA : sys.a.listen = none

/-- fewer than 2^31 sequence numbers used and queued, on both sides -/
def RoomOk (sys : Sys) : Prop := ∀ x t, (sys.side x).tcb = some t → Room t

/-- a segment without sequence space and without SYN lies below anything -/
theorem segBelow_of_empty (base : Seq) (N : Nat) (σ : Segment) (h : σ.segLen = 0 ∧ σ.hdr.ctl.syn = false) :
    SegBelow base N σ :=
  ⟨fun hs => by rw [h.2] at hs; simp at hs, fun hl => by rw [h.1] at hl; simp at hl⟩

/-! ## a local update of one side's TCB, possibly emitting segments -/

/-- what a local operation (`send`, `receive`, `advance_time`, `segments`, `close`) on `t` leaves
    alone -/
structure Frame (t t' : Tcb) : Prop where
  lp : t'.localPort = t.localPort
  rp : t'.remotePort = t.remotePort
  iss : t'.snd.iss = t.snd.iss
  synsent : t'.state = .SynSent ↔ t.state = .SynSent
  rcv : t'.rcv = t.rcv
  heap : t'.incoming.segments = t.incoming.segments

theorem inv_update (sys : Sys) (hi : Inv sys) (z : SideId) (t t' : Tcb) (sd' : Side) (new : List Segment)
    (ht : (sys.side z).tcb = some t) (hsd : sd'.tcb = some t') (hl : sd'.listen = (sys.side z).listen)
    (fr : Frame t t') (hmono : t.sent ≤ t'.sent) (hb : SndBelow t')
    (hnew : ∀ σ ∈ new, σ.hdr.srcPort = z.port ∧ σ.hdr.dstPort = z.peer.port ∧ SegBelow t.snd.iss t'.sent σ) :
    Inv ((sys.setSide z sd').record new) := by
  have hside : ∀ y, ((sys.setSide z sd').record new).side y = if y = z then sd' else sys.side y := by
    intro y
    rw [side_record]
    rcases side_cases z y with rfl | rfl
    · rw [side_setSide_same]; simp
    · rw [side_setSide_peer, if_neg (SideId.peer_ne _)]
  have hhist : ∀ σ, σ ∈ ((sys.setSide z sd').record new).history ↔ σ ∈ new ∨ σ ∈ sys.history := by
    intro σ; rw [mem_history_record, history_setSide]
  refine ⟨fun x => ?_, ?_, ?_⟩
  · have L := hi.link x
    rcases side_cases z x with rfl | rfl
    · -- x = z: the updated side as sender
      refine ⟨?_, ?_, ?_, ?_⟩
      · intro u hu
        rw [hside, if_pos rfl, hsd] at hu
        cases hu
        obtain ⟨_, p1, p2⟩ := L.snd t ht
        exact ⟨hb, by rw [fr.lp, p1], by rw [fr.rp, p2]⟩
      · intro u hu σ hσ hsrc
        rw [hside, if_pos rfl, hsd] at hu
        cases hu
        rw [fr.iss]
        rcases (hhist σ).1 hσ with h | h
        · exact (hnew σ h).2.2
        · exact (L.hist t ht σ h hsrc).mono hmono
      · intro u w hu hw
        rw [hside, if_pos rfl, hsd] at hu
        cases hu
        rw [hside, if_neg (SideId.peer_ne _)] at hw
        obtain ⟨r1, r2⟩ := L.rcv t w ht hw
        rw [fr.iss]
        exact ⟨fun hne => Nat.le_trans (r1 hne) hmono, fun σ hσ => (r2 σ hσ).mono hmono⟩
      · intro hu
        rw [hside, if_pos rfl, hsd] at hu
        simp at hu
    · -- x = z.peer: the other side as sender, the updated side as receiver
      have hxz : z.peer ≠ z := SideId.peer_ne z
      refine ⟨?_, ?_, ?_, ?_⟩
      · intro u hu
        rw [hside, if_neg hxz] at hu
        exact L.snd u hu
      · intro u hu σ hσ hsrc
        rw [hside, if_neg hxz] at hu
        rcases (hhist σ).1 hσ with h | h
        · exact absurd ((hnew σ h).1.symm.trans hsrc) (by
            intro hp; exact SideId.port_ne z hp.symm)
        · exact L.hist u hu σ h hsrc
      · intro u w hu hw
        rw [hside, if_neg hxz] at hu
        rw [SideId.peer_peer, hside, if_pos rfl, hsd] at hw
        cases hw
        have := L.rcv u t hu (by rw [SideId.peer_peer]; exact ht)
        refine ⟨fun hne => ?_, fun σ hσ => this.2 σ (by rw [fr.heap] at hσ; exact hσ)⟩
        rw [fr.rcv]
        exact this.1 (fun hx => hne (fr.synsent.2 hx))
      · intro hu hlis
        rw [hside, if_neg hxz] at hu hlis
        obtain ⟨f1, f2⟩ := L.fresh hu hlis
        refine ⟨fun σ hσ hsrc => ?_, fun w hw => ?_⟩
        · rcases (hhist σ).1 hσ with h | h
          · exact absurd ((hnew σ h).1.symm.trans hsrc) (by
              intro hp; exact SideId.port_ne z hp.symm)
          · exact f1 σ h hsrc
        · rw [SideId.peer_peer, hside, if_pos rfl, hsd] at hw
          cases hw
          have := f2 t (by rw [SideId.peer_peer]; exact ht)
          exact ⟨fr.synsent.2 this.1, fun σ hσ => this.2 σ (by rw [fr.heap] at hσ; exact hσ)⟩
  · intro σ hσ
    rcases (hhist σ).1 hσ with h | h
    · obtain ⟨h1, h2, _⟩ := hnew σ h
      cases z
      · exact Or.inl ⟨h1, h2⟩
      · exact Or.inr ⟨h1, h2⟩
    · exact hi.ports σ h
  · have := hside .A
    have ha : ((sys.setSide z sd').record new).a = ((sys.setSide z sd').record new).side .A := rfl
    rw [ha, this]
    split
    · rename_i hz; rw [hl, ← hz]; exact hi.noListenA
    · exact hi.noListenA

/-! ## deletion of a TCB -/

theorem inv_delete (sys : Sys) (hi : Inv sys) (z : SideId) (sd' : Side) (hsd : sd'.tcb = none)
    (hl : sd'.listen = none) : Inv (sys.setSide z sd') := by
  have hside : ∀ y, (sys.setSide z sd').side y = if y = z then sd' else sys.side y := by
    intro y
    rcases side_cases z y with rfl | rfl
    · rw [side_setSide_same]; simp
    · rw [side_setSide_peer, if_neg (SideId.peer_ne _)]
  refine ⟨fun x => ?_, by rw [history_setSide]; exact hi.ports, ?_⟩
  · have L := hi.link x
    rcases side_cases z x with rfl | rfl
    · refine ⟨?_, ?_, ?_, ?_⟩
      · intro u hu; rw [hside, if_pos rfl, hsd] at hu; simp at hu
      · intro u hu; rw [hside, if_pos rfl, hsd] at hu; simp at hu
      · intro u w hu; rw [hside, if_pos rfl, hsd] at hu; simp at hu
      · intro _ hlis; rw [hside, if_pos rfl, hl] at hlis; simp at hlis
    · have hxz : z.peer ≠ z := SideId.peer_ne z
      refine ⟨?_, ?_, ?_, ?_⟩
      · intro u hu; rw [hside, if_neg hxz] at hu; exact L.snd u hu
      · intro u hu σ hσ hsrc
        rw [hside, if_neg hxz] at hu
        rw [history_setSide] at hσ
        exact L.hist u hu σ hσ hsrc
      · intro u w _ hw
        rw [SideId.peer_peer, hside, if_pos rfl, hsd] at hw; simp at hw
      · intro hu hlis
        rw [hside, if_neg hxz] at hu hlis
        obtain ⟨f1, _⟩ := L.fresh hu hlis
        refine ⟨fun σ hσ hsrc => f1 σ (by rw [history_setSide] at hσ; exact hσ) hsrc, fun w hw => ?_⟩
        rw [SideId.peer_peer, hside, if_pos rfl, hsd] at hw; simp at hw
  · have ha : (sys.setSide z sd').a = (sys.setSide z sd').side .A := rfl
    rw [ha, hside]
    split
    · exact hl
    · exact hi.noListenA

/-! ## a side without TCB answers (RST) or stays silent -/

theorem inv_respond (sys : Sys) (hi : Inv sys) (z : SideId) (hz : (sys.side z).tcb = none) (new : List Segment)
    (hnew : ∀ σ ∈ new, σ.hdr.srcPort = z.port ∧ σ.hdr.dstPort = z.peer.port ∧ σ.segLen = 0 ∧
      σ.hdr.ctl.syn = false) : Inv (sys.record new) := by
  have hhist : ∀ σ, σ ∈ (sys.record new).history ↔ σ ∈ new ∨ σ ∈ sys.history := mem_history_record sys new
  refine ⟨fun x => ?_, ?_, hi.noListenA⟩
  · have L := hi.link x
    refine ⟨?_, ?_, ?_, ?_⟩
    · intro u hu; rw [side_record] at hu; exact L.snd u hu
    · intro u hu σ hσ hsrc
      rw [side_record] at hu
      rcases (hhist σ).1 hσ with h | h
      · exact segBelow_of_empty _ _ _ (hnew σ h).2.2
      · exact L.hist u hu σ h hsrc
    · intro u w hu hw
      rw [side_record] at hu hw
      exact L.rcv u w hu hw
    · intro hu hlis
      rw [side_record] at hu hlis
      obtain ⟨f1, f2⟩ := L.fresh hu hlis
      refine ⟨fun σ hσ hsrc => ?_, fun w hw => f2 w (by rw [side_record] at hw; exact hw)⟩
      rcases (hhist σ).1 hσ with h | h
      · exact (hnew σ h).2.2
      · exact f1 σ h hsrc
  · intro σ hσ
    rcases (hhist σ).1 hσ with h | h
    · obtain ⟨h1, h2, _⟩ := hnew σ h
      cases z
      · exact Or.inl ⟨h1, h2⟩
      · exact Or.inr ⟨h1, h2⟩
    · exact hi.ports σ h

end Elvis.Tcp
