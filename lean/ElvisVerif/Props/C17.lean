import ElvisVerif.Model.TcpSys
import ElvisVerif.Lemmas.TcbInv
import ElvisVerif.Lemmas.TcbNoop
import ElvisVerif.Lemmas.TcbWindow
import ElvisVerif.Lemmas.TcbOneshot
/-!
# C17 — A TCP endpoint withstands arbitrary segments from its peer address

Property theorems only (helper lemmas: `Lemmas/{ModCmp,Heap,Tcb,TcbInv}.lean`).  The model
(`Model/Tcb.lean`) follows the repaired code (six `fix:` commits, see `notes/C17.md`).

* `c17_total` — on a well-formed TCB every call (any segment with any flags / sequence /
  acknowledgment numbers / window and a payload an IPv4 datagram can carry, and every API call)
  returns without panic and leaves the TCB well-formed; `c17_no_crash` lifts this to every
  finite sequence of calls by induction; `c17_open_wf`, `c17_listen_wf`: the two ways a TCB comes
  into existence give well-formed TCBs.
* `c17_unacceptable_noop` — a segment a conforming receiver must treat as unacceptable changes
  nothing but the one-shot output queue (at most one ACK or RST is appended).
* `c17_window` — see the section on the send window below.
* `c17_regression_*` — the concrete witnesses of the repaired defects, evaluated on the model.
-/
namespace Elvis.Tcp
open Tcb

/-! ## tie of the circular comparisons to `modular_cmp.rs` -/

/-- the hand-written comparisons the model uses equal the kernels extracted from the current
    `tcb/modular_cmp.rs` (an edit of that file breaks this theorem) -/
theorem c17_modcmp_tied :
    (∀ a b, ModCmp.modLt a b = Elvis.Gen.ModCmp.mod_lt a b) ∧
    (∀ a b, ModCmp.modLeq a b = Elvis.Gen.ModCmp.mod_leq a b) ∧
    (∀ a b, ModCmp.modGt a b = Elvis.Gen.ModCmp.mod_gt a b) ∧
    (∀ a b, ModCmp.modGeq a b = Elvis.Gen.ModCmp.mod_geq a b) ∧
    (∀ a ab b bc c, ModCmp.modBounded a ab b bc c = Elvis.Gen.ModCmp.mod_bounded a ab.toGen b bc.toGen c) :=
  ⟨ModCmp.modLt_eq_generated, ModCmp.modLeq_eq_generated, ModCmp.modGt_eq_generated,
   ModCmp.modGeq_eq_generated, ModCmp.modBounded_eq_generated⟩

/-! ## no sequence of calls crashes the endpoint -/

/-- everything the peer (segments) and the local user and timer (API calls) can do to a TCB -/
inductive Call
  | segmentArrives (seg : Segment)
  | advanceTime (ms : Nat)
  | send (bytes : List UInt8)
  | receive
  | close
  | abort
  | segments
  deriving Repr

/-- syntactically valid: the segment text fits an IPv4 datagram (65535 − 20 − 20 … we allow the
    full 65515) -/
def Call.Valid : Call → Prop
  | .segmentArrives seg => seg.text.length ≤ MAX_PAYLOAD
  | _ => True

/-- one call: a panic, or the TCB afterwards (`none` = the caller deletes the TCB) -/
def Tcb.call (s : Tcb) : Call → Except String (Option Tcb)
  | .segmentArrives seg =>
    match s.segmentArrives seg with
    | .error e => .error e
    | .ok (s, .Ok) => .ok (some s)
    | .ok (_, .Close) => .ok none
  | .advanceTime ms =>
    match s.advanceTime ms with
    | .error e => .error e
    | .ok (s, .Ignore) => .ok (some s)
    | .ok (_, .CloseConnection) => .ok none
  | .send bytes => .ok (some (s.send bytes))
  | .receive => .ok (some s.receive.1)
  | .close =>
    match s.close with
    | .error e => .error e
    | .ok (s, _) => .ok (some s)
  | .abort =>
    match s.abort with
    | .error e => .error e
    | .ok s => .ok (some s)
  | .segments =>
    match s.segments with
    | .error e => .error e
    | .ok (s, _) => .ok (some s)

/-- a sequence of calls; stops when the TCB is deleted -/
def Tcb.run : Option Tcb → List Call → Except String (Option Tcb)
  | none, _ => .ok none
  | some s, [] => .ok (some s)
  | some s, c :: cs =>
    match s.call c with
    | .error e => .error e
    | .ok s' => Tcb.run s' cs

/-- **Totality.** On a well-formed TCB no call panics, and the TCB (when it survives) is
    well-formed again. -/
theorem c17_total (s : Tcb) (h : Wf s) (hi : HeapIdle s) (c : Call) (hc : c.Valid) :
    ∃ r, s.call c = .ok r ∧ ∀ s', r = some s' → Wf s' ∧ HeapIdle s' := by
  have keep : ∀ s' : Tcb, Same s s' → (s'.state = .SynSent → s.state = .SynSent) → Wf s' ∧ HeapIdle s' :=
    fun s' same st => ⟨h.of_rx (same.rx st), fun hs => by rw [same.incoming]; exact hi (st hs)⟩
  cases c with
  | segmentArrives seg =>
    obtain ⟨s1, r1, e1, wf1, idle1⟩ := segmentArrives_spec s seg h hi hc
    simp only [Tcb.call, e1]
    cases r1 with
    | Ok => exact ⟨_, rfl, fun s' hs => by cases hs; exact ⟨wf1, idle1 rfl⟩⟩
    | Close => exact ⟨_, rfl, fun s' hs => by simp at hs⟩
  | advanceTime ms =>
    obtain ⟨s1, r1, e1, same1, st1⟩ := advanceTime_spec s ms
    simp only [Tcb.call, e1]
    cases r1 with
    | Ignore => exact ⟨_, rfl, fun s' hs => by cases hs; exact keep _ same1 (by rw [st1]; exact id)⟩
    | CloseConnection => exact ⟨_, rfl, fun s' hs => by simp at hs⟩
  | send bytes =>
    have := send_same s bytes
    exact ⟨_, rfl, fun s' hs => by cases hs; exact keep _ this.1 (by rw [this.2]; exact id)⟩
  | receive =>
    have := receive_rx s
    refine ⟨_, rfl, fun s' hs => ?_⟩
    cases hs
    exact ⟨h.of_rx this.1, fun hs => by rw [this.1.heap]; exact hi (by rw [← this.2]; exact hs)⟩
  | close =>
    obtain ⟨s1, r1, e1, same1, st1⟩ := close_spec s
    simp only [Tcb.call, e1]
    exact ⟨_, rfl, fun s' hs => by cases hs; exact keep _ same1 st1⟩
  | abort =>
    obtain ⟨s1, e1, same1, st1⟩ := abort_spec s
    simp only [Tcb.call, e1]
    exact ⟨_, rfl, fun s' hs => by cases hs; exact keep _ same1 (by rw [st1]; exact id)⟩
  | segments =>
    obtain ⟨s1, out, e1, same1, st1⟩ := segments_spec s h
    simp only [Tcb.call, e1]
    exact ⟨_, rfl, fun s' hs => by cases hs; exact keep _ same1 (by rw [st1]; exact id)⟩

/-- **No finite sequence of segments and API calls crashes the endpoint** (induction over the
    sequence). -/
theorem c17_no_crash (s : Tcb) (h : Wf s) (hi : HeapIdle s) (cs : List Call) (hcs : ∀ c ∈ cs, c.Valid) :
    ∃ r, Tcb.run (some s) cs = .ok r := by
  induction cs generalizing s with
  | nil => exact ⟨_, rfl⟩
  | cons c cs ih =>
    obtain ⟨r, e, wf⟩ := c17_total s h hi c (hcs c (by simp))
    unfold Tcb.run
    rw [e]
    cases r with
    | none => exact ⟨_, by unfold Tcb.run; rfl⟩
    | some s' =>
      obtain ⟨wf', idle'⟩ := wf s' rfl
      exact ih s' wf' idle' (fun c hc => hcs c (by simp [hc]))

/-- an active open yields a well-formed TCB (any ISS, any MTU that leaves room for the headers;
    the property quantifies over MTU ≥ 100) -/
theorem c17_open_wf (lp rp : U16) (iss : Seq) (mtu : U16) (hm : SPACE_FOR_HEADERS ≤ mtu.toNat) :
    ∃ s, Tcb.open lp rp iss mtu = .ok s ∧ Wf s ∧ HeapIdle s := open_spec lp rp iss mtu hm

/-- LISTEN never panics, whatever arrives, and a TCB it creates is well-formed -/
theorem c17_listen_wf (segment : Segment) (iss : Seq) (mtu : U16) (hm : SPACE_FOR_HEADERS ≤ mtu.toNat)
    (hp : segment.text.length ≤ MAX_PAYLOAD) :
    ∃ r, segmentArrivesListen segment iss mtu = .ok r ∧
      ∀ tcb, r = some (.Tcb tcb) → Wf tcb ∧ HeapIdle tcb := listen_spec segment iss mtu hm hp

/-- non-vacuity: a freshly opened TCB satisfies the hypotheses of `c17_total` -/
example : ∃ s, Tcb.open 1 2 1000 1500 = .ok s ∧ Wf s ∧ HeapIdle s :=
  c17_open_wf 1 2 1000 1500 (by decide)

/-! ## unacceptable segments are no-ops

`Unacceptable s seg` (`Lemmas/TcbNoop.lean`) is written from RFC 9293, not from the code: in
SYN-SENT a segment with neither SYN nor RST; in every other state a segment none of whose
sequence numbers lies in `[RCV.NXT − 1, RCV.NXT + RCV.WND)`. -/

/-- **An unacceptable segment changes nothing** but the one-shot output queue, to which at most
    one header (the ACK, or the RST for an unacceptable ACK in SYN-SENT) is appended: connection
    state, `RCV.NXT`, the buffered and parked data, the send sequence space, the retransmission
    queue and the timers are exactly what they were — so is everything `receive()` can return. -/
theorem c17_unacceptable_noop (s : Tcb) (h : Wf s) (hi : HeapIdle s) (seg : Segment)
    (hp : seg.text.length ≤ MAX_PAYLOAD) (hu : Unacceptable s seg) :
    ∃ s', s.segmentArrives seg = .ok (s', .Ok) ∧ OnlyOneshot s s' := by
  unfold Unacceptable at hu
  split at hu
  · rename_i hst
    exact segmentArrives_synsent_noop s seg hst hi hu.1 hu.2
  · rename_i hst
    exact segmentArrives_outside s seg h hst hp hu

/-- in particular the connection state and what the application can read are unchanged -/
theorem c17_unacceptable_noop_observable (s : Tcb) (h : Wf s) (hi : HeapIdle s) (seg : Segment)
    (hp : seg.text.length ≤ MAX_PAYLOAD) (hu : Unacceptable s seg) :
    ∃ s', s.segmentArrives seg = .ok (s', .Ok) ∧ s'.status = s.status ∧ s'.receive.2 = s.receive.2 ∧
      s'.rcv.nxt = s.rcv.nxt ∧ s'.incoming.segments = s.incoming.segments := by
  obtain ⟨s', e, oo⟩ := c17_unacceptable_noop s h hi seg hp hu
  refine ⟨s', e, oo.state, ?_, by rw [oo.rcv], by rw [oo.incoming]⟩
  unfold receive
  rw [oo.state, oo.incoming]
  split <;> rfl

/-- non-vacuity: in ESTABLISHED with `RCV.NXT = 5001`, a segment at `RCV.NXT + 100000` is
    unacceptable (and so is one text byte at `RCV.NXT − 3`) -/
example : ∃ s : Tcb, s.state = .Established ∧ Wf s ∧ HeapIdle s ∧
    Unacceptable s (forge .A 16 105001 1001 65535 [7, 8, 9]) ∧
    Unacceptable s (forge .A 16 4998 1001 65535 [7]) := by
  refine ⟨{ localPort := 1, remotePort := 2, mtu := 1500, initiation := .Open, state := .Established,
            snd := { una := 1001, nxt := 1001, iss := 1000 }, rcv := { irs := 5000, nxt := 5001 } },
    rfl, ⟨by decide, rfl, by decide, fun _ h => by simp at h⟩, fun h => by simp at h, ?_, ?_⟩
  · unfold Unacceptable EntirelyOutside InWindow
    rw [if_neg (by decide)]
    intro k hk
    have : k < 3 := by simpa [forge, Segment.segLen, Ctl.ofNat] using hk
    have hk' : k = 0 ∨ k = 1 ∨ k = 2 := by omega
    rcases hk' with rfl | rfl | rfl <;> decide
  · unfold Unacceptable EntirelyOutside InWindow
    rw [if_neg (by decide)]
    intro k hk
    have : k < 1 := by simpa [forge, Segment.segLen, Ctl.ofNat] using hk
    have hk' : k = 0 := by omega
    subst hk'; decide

/-! ### … and the queued ACK has no influence on anything until it is sent

`pre p s` (`Lemmas/TcbOneshot.lean`) is `s` with the headers `p` in front of its one-shot queue.
Every call that neither drains (`segments`) nor clears (`abort`) that queue commutes with `pre p`;
`segments()` puts `p` in front of its output, and the only other trace `p` leaves is that the
retransmission timer is re-armed (the code re-arms it whenever it sends anything at all). -/

/-- calls that neither drain nor clear the one-shot queue -/
def Call.KeepsOneshot : Call → Prop
  | .segments => False
  | .abort => False
  | _ => True

/-- every such call commutes with `pre p` -/
theorem c17_oneshot_commutes (p : List Hdr) (s : Tcb) (c : Call) (hc : c.KeepsOneshot) :
    (pre p s).call c = (s.call c).map (Option.map (pre p)) := by
  cases c with
  | segmentArrives seg =>
    simp only [Tcb.call, pre_segmentArrives]
    cases s.segmentArrives seg with
    | error e => rfl
    | ok q => obtain ⟨u, r⟩ := q; cases r <;> rfl
  | advanceTime ms =>
    simp only [Tcb.call, pre_advanceTime]
    cases s.advanceTime ms with
    | error e => rfl
    | ok q => obtain ⟨u, r⟩ := q; cases r <;> rfl
  | send bytes => simp only [Tcb.call, pre_send]; rfl
  | receive => simp only [Tcb.call, pre_receive]; rfl
  | close =>
    simp only [Tcb.call, pre_close]
    cases s.close with
    | error e => rfl
    | ok q => obtain ⟨u, r⟩ := q; rfl
  | abort => exact absurd hc id
  | segments => exact absurd hc id

/-- … hence so does every run of such calls -/
theorem c17_oneshot_commutes_run (p : List Hdr) (s : Tcb) (cs : List Call) (hcs : ∀ c ∈ cs, c.KeepsOneshot) :
    Tcb.run (some (pre p s)) cs = (Tcb.run (some s) cs).map (Option.map (pre p)) := by
  induction cs generalizing s with
  | nil => rfl
  | cons c cs ih =>
    unfold Tcb.run
    rw [c17_oneshot_commutes p s c (hcs c (by simp))]
    cases s.call c with
    | error e => rfl
    | ok r =>
      cases r with
      | none => simp only [Except.map, Option.map]; cases cs <;> rfl
      | some u =>
        simp only [Except.map, Option.map]
        exact ih u (fun c hc => hcs c (by simp [hc]))

/-- at the next `segments()` the queued headers go out in front of the normal output; the state
    afterwards is the one reached without them, with the retransmission timer re-armed -/
theorem c17_oneshot_at_segments (p : List Hdr) (s : Tcb) (hp : p ≠ []) :
    (pre p s).segments =
      match s.segments with
      | .error e => .error e
      | .ok (s', out) =>
        .ok ({ s' with timeouts.retransmission := RTO }, (p.map fun h => (⟨h, []⟩ : Segment)) ++ out) :=
  pre_segments p s hp

/-- **An unacceptable segment, and everything after it.**  The TCB after the segment and the TCB
    before it are `pre (q ++ l) c` and `pre q c` of one common core `c` (`l` = the ≤ 1 header queued
    in reply); along every run of calls up to the next `segments()`/`abort` the two stay that way:
    connection state, receive sequence space, buffered and parked data (everything `receive()`
    returns), send sequence space, retransmission queue and timers coincide at every step. -/
theorem c17_unacceptable_noop_until_segments (s : Tcb) (h : Wf s) (hi : HeapIdle s) (seg : Segment)
    (hp : seg.text.length ≤ MAX_PAYLOAD) (hu : Unacceptable s seg) :
    ∃ s' c l, s.segmentArrives seg = .ok (s', .Ok) ∧ l.length ≤ 1 ∧
      s = pre s.outgoing.oneshot c ∧ s' = pre (s.outgoing.oneshot ++ l) c ∧
      ∀ cs : List Call, (∀ k ∈ cs, k.KeepsOneshot) →
        Tcb.run (some s) cs = (Tcb.run (some c) cs).map (Option.map (pre s.outgoing.oneshot)) ∧
        Tcb.run (some s') cs = (Tcb.run (some c) cs).map (Option.map (pre (s.outgoing.oneshot ++ l))) := by
  obtain ⟨s', e, oo⟩ := c17_unacceptable_noop s h hi seg hp hu
  obtain ⟨l, hl, ho⟩ := oo.oneshot
  have hs : s = pre s.outgoing.oneshot { s with outgoing.oneshot := [] } := by
    cases s with
    | mk lp rp mtu ini st snd rcv out inc tmo => cases out; simp [pre]
  have hs' : s' = pre (s.outgoing.oneshot ++ l) { s with outgoing.oneshot := [] } := by
    cases s' with
    | mk lp' rp' mtu' ini' st' snd' rcv' out' inc' tmo' =>
      cases out' with
      | mk text' rtx' one' =>
        have h1 := oo.localPort; have h2 := oo.remotePort; have h3 := oo.mtu; have h4 := oo.initiation
        have h5 := oo.state; have h6 := oo.snd; have h7 := oo.rcv; have h8 := oo.incoming
        have h9 := oo.timeouts; have h10 := oo.text; have h11 := oo.retransmit
        simp only at h1 h2 h3 h4 h5 h6 h7 h8 h9 h10 h11 ho
        subst h1 h2 h3 h4 h5 h6 h7 h8 h9 h10 h11 ho
        simp [pre]
  refine ⟨s', { s with outgoing.oneshot := [] }, l, e, hl, hs, hs', fun cs hcs => ⟨?_, ?_⟩⟩
  · conv => lhs; rw [hs]
    exact c17_oneshot_commutes_run _ _ cs hcs
  · conv => lhs; rw [hs']
    exact c17_oneshot_commutes_run _ _ cs hcs

/-! ## new data stays inside the window the peer advertised

`InSendWindow s seg` : `(SEG.SEQ − SND.UNA) + |text| ≤ SND.WND` (+1 while our SYN is
unacknowledged, the SYN occupying `SND.UNA` itself), i.e. the text lies in
`[SND.UNA, SND.UNA + SND.WND)`; `SND.WND` is only ever set from a segment that passed the
acceptability and ACK tests.  `SndOk` (`Lemmas/TcbWindow.lean`) is the invariant behind it: in
the states in which `segments()` segmentizes, the retransmission queue is a contiguous chain
ending at `SND.NXT` that covers `[SND.UNA, SND.NXT)`. -/

/-- what a segment handed to the network by `segments()` can be -/
def EmittedOk (s : Tcb) (seg : Segment) : Prop :=
  seg.text = [] ∨ (∃ t ∈ s.outgoing.retransmit, t.segment = seg) ∨ InSendWindow s seg

/-- **Window, one call.**  Every segment `segments()` returns is text-free (ACK, RST, SYN, FIN),
    a retransmission of a segment already on the queue, or new data inside the peer's window. -/
theorem c17_window (s : Tcb) (hok : SndOk s) (s' : Tcb) (out : List Segment)
    (e : s.segments = .ok (s', out)) : ∀ seg ∈ out, EmittedOk s seg :=
  (segments_window s hok s' out e).2

/-- every call except `abort` (after which the TCB is to be deleted) keeps the send-side
    invariant -/
theorem c17_window_invariant (s : Tcb) (h : Wf s) (hok : SndOk s) (c : Call) (hc : c.Valid)
    (hna : c ≠ .abort) (s' : Tcb) (e : s.call c = .ok (some s')) : SndOk s' := by
  cases c with
  | segmentArrives seg =>
    simp only [Tcb.call] at e
    cases h1 : s.segmentArrives seg with
    | error err => rw [h1] at e; simp at e
    | ok p =>
      obtain ⟨s1, r1⟩ := p
      rw [h1] at e
      cases r1 with
      | Ok => simp at e; subst e; exact hok.step (segmentArrives_pres s seg h hc _ _ h1)
      | Close => simp at e
  | advanceTime ms =>
    simp only [Tcb.call] at e
    cases h1 : s.advanceTime ms with
    | error err => rw [h1] at e; simp at e
    | ok p =>
      obtain ⟨s1, r1⟩ := p
      rw [h1] at e
      cases r1 with
      | Ignore => simp at e; subst e; exact hok.step (advanceTime_pres s ms _ _ h1)
      | CloseConnection => simp at e
  | send bytes => simp only [Tcb.call] at e; cases e; exact hok.step (send_pres s bytes)
  | receive => simp only [Tcb.call] at e; cases e; exact hok.step (receive_pres s)
  | close =>
    simp only [Tcb.call] at e
    cases h1 : s.close with
    | error err => rw [h1] at e; simp at e
    | ok p =>
      obtain ⟨s1, r1⟩ := p
      rw [h1] at e
      simp at e; subst e
      exact hok.step (close_pres s _ _ h1)
  | abort => exact absurd rfl hna
  | segments =>
    simp only [Tcb.call] at e
    cases h1 : s.segments with
    | error err => rw [h1] at e; simp at e
    | ok p =>
      obtain ⟨s1, out⟩ := p
      rw [h1] at e
      simp at e; subst e
      exact hok.step (segments_window s hok _ _ h1).1

/-- `P` holds for the output of every `segments()` call along the run -/
def Tcb.emits (P : Tcb → Segment → Prop) : Option Tcb → List Call → Prop
  | none, _ => True
  | some _, [] => True
  | some s, c :: cs =>
    (c = .segments → ∀ s' out, s.segments = .ok (s', out) → ∀ seg ∈ out, P s seg) ∧
    ∀ r, s.call c = .ok r → Tcb.emits P r cs

/-- **Window, all runs.**  From a well-formed TCB satisfying the invariant (in particular from
    `open` and from LISTEN, `c17_window_start`), along every finite sequence of segments — any
    flags, numbers, windows (shrinking ones included) — and API calls other than `abort`, every
    segment ever handed to the network is text-free, a retransmission, or inside the window. -/
theorem c17_window_run (s : Tcb) (h : Wf s) (hi : HeapIdle s) (hok : SndOk s) (cs : List Call)
    (hcs : ∀ c ∈ cs, c.Valid ∧ c ≠ .abort) : Tcb.emits EmittedOk (some s) cs := by
  induction cs generalizing s with
  | nil => trivial
  | cons c cs ih =>
    refine ⟨fun _ s' out e => c17_window s hok s' out e, fun r e => ?_⟩
    cases r with
    | none => cases cs <;> trivial
    | some s' =>
      obtain ⟨r', e', wf'⟩ := c17_total s h hi c (hcs c (by simp)).1
      rw [e] at e'
      cases e'
      obtain ⟨wf1, idle1⟩ := wf' s' rfl
      exact ih s' wf1 idle1 (c17_window_invariant s h hok c (hcs c (by simp)).1 (hcs c (by simp)).2 s' e)
        (fun c hc => hcs c (by simp [hc]))

/-- both ways a TCB comes into existence establish the invariant -/
theorem c17_window_start :
    (∀ lp rp iss mtu s, Tcb.open lp rp iss mtu = .ok s → SndOk s) ∧
    (∀ seg iss mtu tcb, segmentArrivesListen seg iss mtu = .ok (some (.Tcb tcb)) → SndOk tcb) :=
  ⟨open_sndOk, listen_sndOk⟩

/-- without the exclusion the statement is false: `abort` empties the retransmission queue but
    leaves `SND.NXT` ahead of `SND.UNA` and the state unchanged; a later write is segmentized as
    if nothing were in flight (`abort` documents that the TCB is to be deleted afterwards) -/
theorem c17_window_abort_counterexample :
    ∃ s : Tcb, SndOk s ∧ ∃ s1, s.abort = .ok s1 ∧ ¬ SndOk s1 := by
  refine ⟨{ localPort := 1, remotePort := 2, mtu := 1500, initiation := .Open, state := .Established,
            snd := { una := 1001, nxt := 1004, wnd := 100, iss := 1000 }, rcv := { irs := 5000, nxt := 5001 },
            outgoing := { retransmit := [Transmit.new ⟨(Hdr.builder 1 2 1001).built, [1, 2, 3]⟩] } }, ?_, ?_⟩
  · intro _
    refine ⟨⟨Or.inr ⟨rfl, rfl, by decide⟩, trivial⟩, by decide, by decide⟩
  · refine ⟨_, by rw [abort, enqueue_eq], ?_⟩
    intro hok
    have := (hok (by decide)).cover
    revert this
    decide

/-! ## regression witnesses of the repaired defects

Concrete op sequences of the two-endpoint system (`Model/TcpSys.lean`); the same op lines are
in `corpus/C17/fuzz/*.ops` and replay on the real code. -/

/-- handshake: A opens (ISS 1000), B listens (ISS 5000), SYN / SYN-ACK delivered: A ESTABLISHED -/
def handshakeOps : List Op :=
  [.open .A 1000 1500, .listen .B 5000 1500, .emit .A, .deliver .B 0, .emit .B, .deliver .A 1]

def isPanic {α : Type} (r : Except String α) (msg : String) : Bool :=
  match r with
  | .error e => e == msg
  | .ok _ => false

/-- the bytes returned by the last op when it was a `read` -/
def lastRead (r : Except String (Sys × List Res)) : Option (List UInt8) :=
  match r with
  | .ok (_, rs) => match rs.getLast? with
    | some (.read b) => some b
    | _ => none
  | .error _ => none

/-- the segments returned by the last op when it was an `emit` -/
def lastEmit (r : Except String (Sys × List Res)) : Option (List Segment) :=
  match r with
  | .ok (_, rs) => match rs.getLast? with
    | some (.emitted _ segs) => some segs
    | _ => none
  | .error _ => none

/-- F-C17-1 (fixed): the peer acknowledges one byte of a three-byte segment and shrinks its
    window to 2; `segments()` used to compute `2 - 3` and panic, now it sends nothing new -/
theorem c17_regression_window_shrink :
    lastEmit (Sys.run {} (handshakeOps ++
      [.write .A [1, 2, 3], .emit .A, .inject .A (forge .A 16 5001 1002 2 []), .write .A [4, 5], .emit .A]))
      = some [] := by decide

/-- F-C17-2 (fixed): a segment accepted only because its FIN lies in the window
    (`seq = RCV.NXT-2`, one byte, FIN) used to compute `text_len - already_received = 1 - 2`
    and panic; now it contributes no text -/
theorem c17_regression_fin_in_window :
    lastRead (Sys.run {} (handshakeOps ++ [.inject .A (forge .A 17 4999 1001 65535 [7]), .read .A]))
      = some [] := by decide

/-- F-C17-3 (fixed): a SYN-ACK with text in SYN-SENT: the text starts at `SEG.SEQ + 1`; the code
    used to skip two bytes (or panic on a single byte), now every byte reaches the application -/
theorem c17_regression_syn_text :
    lastRead (Sys.run {} [.open .A 1000 1500, .inject .A (forge .A 18 5000 1001 65535 [7]), .read .A])
      = some [7] ∧
    lastRead (Sys.run {} [.open .A 1000 1500, .inject .A (forge .A 18 5000 1001 65535 [7, 8, 9]), .read .A])
      = some [7, 8, 9] := by decide

/-- the TCB of side A after the ops -/
def tcbA (r : Except String (Sys × List Res)) : Option Tcb :=
  match r with
  | .ok (s, _) => s.a.tcb
  | .error _ => none

/-- F-C01-1 (fixed): in SYN-SENT a segment without SYN that carries text used to be checked
    against the uninitialised `RCV.NXT = 0` (the `assert!` failed, or for sequence numbers near
    0 the bytes were handed to the application); now it is dropped: the TCB after the segment
    is the TCB before it -/
theorem c17_regression_synsent_text :
    tcbA (Sys.run {} [.open .A 1000 1500, .inject .A (forge .A 16 70000 1001 65535 [7])])
      = tcbA (Sys.run {} [.open .A 1000 1500]) ∧
    tcbA (Sys.run {} [.open .A 1000 1500, .inject .A (forge .A 16 0 1001 65535 [7, 8, 9])])
      = tcbA (Sys.run {} [.open .A 1000 1500]) := by decide

/-- the reorder queue of side A after the ops -/
def heapA (r : Except String (Sys × List Res)) : Option (List Segment) :=
  match r with
  | .ok (s, _) => s.a.tcb.map (·.incoming.segments)
  | .error _ => none

/-- F-C17-4 (fixed): a segment 100000 beyond `RCV.NXT` (window 65535) used to be parked on the
    reorder queue and consumed when the window reached it; now it is acknowledged and dropped -/
theorem c17_regression_parked :
    heapA (Sys.run {} (handshakeOps ++ [.inject .A (forge .A 16 105001 1001 65535 [7, 8, 9])]))
      = some [] := by decide

/-- the state of side A after the ops -/
def stateA (r : Except String (Sys × List Res)) : Option State := (tcbA r).map (·.state)

/-- F-C17-5 (fixed): CLOSING used to skip the sequence check, so an RST with a sequence number
    2^31 away from `RCV.NXT` deleted the TCB; now the connection stays in CLOSING -/
theorem c17_regression_closing :
    stateA (Sys.run {} (handshakeOps ++ [.emit .A, .deliver .B 2, .close .A, .close .B, .emit .B,
      .deliver .A 3, .inject .A (forge .A 4 2147488650 0 0 [])])) = some .Closing := by decide

/-- the send sequence space of side A after the ops -/
def sndA (r : Except String (Sys × List Res)) : Option (Nat × Nat) :=
  (tcbA r).map fun t => (t.snd.una.toNat, t.snd.nxt.toNat)

/-- F-C17-6 (fixed): with nothing outstanding (`SND.UNA = SND.NXT = 1001`) an ACK of
    `1001 + 2^31` used to pass both `mod_leq(SEG.ACK, SND.UNA)` and `mod_gt(SEG.ACK, SND.NXT)` and
    was taken as a valid acknowledgment of data never sent (`SND.UNA` jumped 2^31 ahead of
    `SND.NXT`); now it is answered with an ACK and dropped -/
theorem c17_regression_ack_half_space :
    sndA (Sys.run {} (handshakeOps ++ [.inject .A (forge .A 16 5001 2147484649 100 []),
      .write .A [1], .emit .A])) = some (1001, 1002) := by decide

end Elvis.Tcp
