import ElvisVerif.Lemmas.ModCmp
/-!
# The circular comparisons are invariant under a common shift (C12)

Staged as DESIGN.md section 4 prescribes: offset-form characterisation (`modLt_iff`, `cyc_iff`),
tiny cancellation lemmas, nothing else.
-/
namespace Elvis.ModCmp

theorem add_sub_add_right (a b k : BitVec 32) : (b + k) - (a + k) = b - a := by bv_omega
theorem sub_add_comm' (a o k : BitVec 32) : (a + k) - o = (a - o) + k := by bv_omega
theorem add_add_comm' (c o k : BitVec 32) : (c + k) + o = (c + o) + k := by bv_omega

@[simp] theorem modLt_shift (a b k : BitVec 32) : modLt (a + k) (b + k) = modLt a b := by
  rw [Bool.eq_iff_iff, modLt_iff, modLt_iff, add_sub_add_right]

@[simp] theorem modGt_shift (a b k : BitVec 32) : modGt (a + k) (b + k) = modGt a b := by
  unfold modGt; exact modLt_shift b a k

@[simp] theorem cyc_shift (a b c k : BitVec 32) : cyc (a + k) (b + k) (c + k) = cyc a b c := by
  rw [Bool.eq_iff_iff, cyc_iff, cyc_iff, add_sub_add_right, add_sub_add_right]

@[simp] theorem modBounded_shift (a : BitVec 32) (ab : Cmp) (b : BitVec 32) (bc : Cmp) (c k : BitVec 32) :
    modBounded (a + k) ab (b + k) bc (c + k) = modBounded a ab b bc c := by
  unfold modBounded
  rw [sub_add_comm', add_add_comm', cyc_shift]

@[simp] theorem beq_shift (a b k : BitVec 32) : ((a + k) == (b + k)) = (a == b) := by
  rw [Bool.eq_iff_iff, beq_iff_eq, beq_iff_eq]
  constructor
  · intro h; bv_omega
  · intro h; rw [h]

@[simp] theorem modLeq_shift (a b k : BitVec 32) : modLeq (a + k) (b + k) = modLeq a b := by
  unfold modLeq; rw [beq_shift, modLt_shift]

@[simp] theorem modGeq_shift (a b k : BitVec 32) : modGeq (a + k) (b + k) = modGeq a b := by
  unfold modGeq; rw [beq_shift, modGt_shift]

theorem eq_shift (a b k : BitVec 32) : (a + k = b + k) ↔ a = b := by
  constructor
  · intro h; bv_omega
  · intro h; rw [h]

end Elvis.ModCmp
