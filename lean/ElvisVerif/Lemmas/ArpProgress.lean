import ElvisVerif.Lemmas.ArpAgree
/-! No time-lock (helper lemmas for C06): serving the runnable waiters and the due time-outs, with
no time passing, always leads to a state in which the clock may advance. -/
namespace Elvis.Arp
open Elvis.Gen.Arp

/-- resolver `r` does not hold the clock back for a tick of `dt` -/
def Unblocked (s : Net) (dt : Nat) (r : Resolver) : Prop :=
  r.result ≠ none ∨ (s.hit r.mach r.dest = none ∧ s.now + dt ≤ r.deadline)

theorem canTick_of_unblocked {s : Net} {dt : Nat} (h : ∀ r ∈ s.resolvers, Unblocked s dt r) : s.canTick dt = true := by
  unfold Net.canTick
  rw [List.all_eq_true]
  intro r hr
  rcases h r hr with h1 | ⟨h1, h2⟩
  · cases hres : r.result with
    | none => exact absurd hres h1
    | some x => simp
  · simp [h1, h2]

/-- with cached failures ignored, `fail_mac` does not change what any lookup answers -/
theorem Net.failMac_hit {s : Net} (hn : s.negCache = false) {k : Nat} {x : Ip} (hmiss : s.hit k x = none)
    (k' : Nat) (x' : Ip) : (s.failMac k x).hit k' x' = s.hit k' x' := by
  unfold Net.failMac
  split
  · rename_i m hm
    unfold Net.hit at hmiss ⊢
    simp only [hm] at hmiss
    by_cases hk : k = k'
    · subst hk
      simp only [List.getElem?_set_self (getElem?_lt hm), hm, hn] at hmiss ⊢
      by_cases hx : x' = x
      · subst hx
        rw [alookup_ainsert_same, hmiss]; rfl
      · rw [alookup_ainsert_ne hx]
    · simp only [List.getElem?_set_ne hk]
  · rfl

theorem Net.roundOrFail_hit {s : Net} (hn : s.negCache = false) {r : Resolver} (hmiss : s.hit r.mach r.dest = none)
    (k' : Nat) (x' : Ip) : (s.roundOrFail r).1.hit k' x' = s.hit k' x' := by
  unfold Net.roundOrFail
  split
  · split <;> rfl
  · exact Net.failMac_hit hn hmiss k' x'

/-- what serving resolver `i` (`wake i`, then `timeout i`) leaves untouched -/
structure Served (s s' : Net) (i : Nat) : Prop where
  now : s'.now = s.now
  neg : s'.negCache = s.negCache
  panic : s'.panic = s.panic
  len : s'.resolvers.length = s.resolvers.length
  hit : ∀ k x, s'.hit k x = s.hit k x
  others : ∀ j, j ≠ i → s'.resolvers[j]? = s.resolvers[j]?

theorem Served.refl (s : Net) (i : Nat) : Served s s i := ⟨rfl, rfl, rfl, rfl, fun _ _ => rfl, fun _ _ => rfl⟩

theorem Served.trans {a b c : Net} {i : Nat} (h1 : Served a b i) (h2 : Served b c i) : Served a c i :=
  ⟨h2.now.trans h1.now, h2.neg.trans h1.neg, h2.panic.trans h1.panic, h2.len.trans h1.len,
   fun k x => (h2.hit k x).trans (h1.hit k x), fun j hj => (h2.others j hj).trans (h1.others j hj)⟩

theorem Served.wake (s : Net) (i : Nat) : Served s (s.wake i) i := by
  unfold Net.wake
  split
  · split
    · split
      · exact ⟨rfl, rfl, rfl, by simp, fun _ _ => rfl, fun j hj => by
          show (s.resolvers.set i _)[j]? = _
          rw [List.getElem?_set_ne (Ne.symm hj)]⟩
      · exact Served.refl s i
    · exact Served.refl s i
  · exact Served.refl s i

theorem Served.timeout (s : Net) (hn : s.negCache = false) (i : Nat) : Served s (s.timeout i) i := by
  unfold Net.timeout
  split
  · rename_i r hr
    split
    · rename_i hc
      obtain ⟨f1, _, f3, f4, f5, _⟩ := s.roundOrFail_fields r
      refine ⟨f1, f3, f5, ?_, fun k x => Net.roundOrFail_hit hn hc.2.2 k x, fun j hj => ?_⟩
      · show ((s.roundOrFail r).1.resolvers.set i _).length = _
        rw [List.length_set, f4]
      · show ((s.roundOrFail r).1.resolvers.set i _)[j]? = _
        rw [List.getElem?_set_ne (Ne.symm hj), f4]
    · exact Served.refl s i
  · exact Served.refl s i

/-- serve resolver `i`: let it read the table if it is runnable, else serve its time-out if due -/
def serve (s : Net) (i : Nat) : Net := step (step s (.wake i)) (.timeout i)

theorem serve_eq {s : Net} (hp : s.panic = none) (i : Nat) : serve s i = (s.wake i).timeout i := by
  have h1 : s.panic.isSome = false := by rw [hp]; rfl
  have h2 : (s.wake i).panic.isSome = false := by rw [(Served.wake s i).panic, hp]; rfl
  unfold serve Elvis.Arp.step
  simp only [h1, Bool.false_eq_true, if_false, h2]

theorem serve_served {s : Net} (hp : s.panic = none) (hn : s.negCache = false) (i : Nat) : Served s (serve s i) i := by
  rw [serve_eq hp]
  exact (Served.wake s i).trans (Served.timeout _ (by rw [(Served.wake s i).neg]; exact hn) i)

/-- after being served, resolver `i` no longer holds the clock back -/
theorem serve_unblocks {s : Net} (hp : s.panic = none) (hn : s.negCache = false) (ht : TInv s)
    (hd : 1 ≤ resendDelayUs) (i : Nat) (r' : Resolver)
    (hr' : (serve s i).resolvers[i]? = some r') : Unblocked (serve s i) 1 r' := by
  rw [serve_eq hp] at hr' ⊢
  cases hri : s.resolvers[i]? with
  | none =>
    exfalso
    have hlen := ((Served.wake s i).trans (Served.timeout _ (by rw [(Served.wake s i).neg]; exact hn) i)).len
    have h1 := getElem?_lt hr'
    rw [List.getElem?_eq_none_iff] at hri
    omega
  | some r =>
    by_cases hres : r.result = none
    · cases hh : s.hit r.mach r.dest with
      | some st =>
        -- runnable: `wake` completes it, the time-out then has nothing to do
        have hw : s.wake i = { s with resolvers := s.resolvers.set i { r with result := some (st, s.now) } } := by
          unfold Net.wake; simp only [hri, hres, hh, if_true]
        have hwi : (s.wake i).resolvers[i]? = some { r with result := some (st, s.now) } := by
          rw [hw]; exact List.getElem?_set_self (getElem?_lt hri)
        have ht2 : (s.wake i).timeout i = s.wake i := by
          unfold Net.timeout; simp only [hwi]; simp
        rw [ht2] at hr' ⊢
        rw [hwi] at hr'; cases hr'
        exact Or.inl (by simp)
      | none =>
        have hw : s.wake i = s := by unfold Net.wake; simp only [hri, hres, hh, if_true]
        rw [hw] at hr' ⊢
        have htr := ht r (List.mem_of_getElem? hri)
        unfold TimeOk at htr
        simp only [hres] at htr
        by_cases hdue : s.now = r.deadline
        · have hto : s.timeout i = { (s.roundOrFail r).1 with resolvers := (s.roundOrFail r).1.resolvers.set i (s.roundOrFail r).2 } := by
            unfold Net.timeout; simp only [hri, hres, hdue, hh, and_self, if_true]
          obtain ⟨f1, _, _, f4, _, _, f7, f8, _, _⟩ := s.roundOrFail_fields r
          have hget : (s.timeout i).resolvers[i]? = some (s.roundOrFail r).2 := by
            rw [hto]
            show ((s.roundOrFail r).1.resolvers.set i _)[i]? = _
            rw [f4]; exact List.getElem?_set_self (getElem?_lt hri)
          rw [hget] at hr'; cases hr'
          have hhit : (s.timeout i).hit (s.roundOrFail r).2.mach (s.roundOrFail r).2.dest = none := by
            rw [(Served.timeout s hn i).hit, f7, f8]; exact hh
          have hnow : (s.timeout i).now = s.now := (Served.timeout s hn i).now
          -- the three outcomes of the iteration
          unfold Unblocked
          rw [hhit, hnow]
          unfold Net.roundOrFail
          split
          · split
            · right; exact ⟨rfl, by show s.now + 1 ≤ s.now + resendDelayUs; omega⟩
            · left; simp
          · left; simp
        · have hto : s.timeout i = s := by
            unfold Net.timeout; simp only [hri, hres, hdue, false_and, and_false, if_false]
          rw [hto] at hr' ⊢
          rw [hri] at hr'; cases hr'
          exact Or.inr ⟨hh, by omega⟩
    · -- already returned: nothing happens
      have hw : s.wake i = s := by unfold Net.wake; simp only [hri, hres, if_false]
      rw [hw] at hr' ⊢
      have hto : s.timeout i = s := by
        unfold Net.timeout; simp only [hri, hres, false_and, if_false]
      rw [hto] at hr' ⊢
      rw [hri] at hr'; cases hr'
      exact Or.inl hres

/-- serve resolvers `0 .. n-1` in turn -/
def serveAll (n : Nat) : List Label := (List.range n).flatMap fun i => [Label.wake i, Label.timeout i]

theorem run_append (s : Net) (a b : List Label) : run s (a ++ b) = run (run s a) b := by
  simp [run, List.foldl_append]

theorem run_serveAll_succ (s : Net) (n : Nat) : run s (serveAll (n + 1)) = serve (run s (serveAll n)) n := by
  unfold serveAll
  rw [List.range_succ, List.flatMap_append, run_append]
  simp [run, serve]

theorem serveAll_spec {s : Net} (hp : s.panic = none) (hn : s.negCache = false) (ht : TInv s)
    (hd : 1 ≤ resendDelayUs) (n : Nat) :
    let s' := run s (serveAll n)
    s'.now = s.now ∧ s'.negCache = false ∧ s'.panic = none ∧ s'.resolvers.length = s.resolvers.length ∧ TInv s' ∧
    ∀ j, j < n → ∀ r, s'.resolvers[j]? = some r → Unblocked s' 1 r := by
  induction n with
  | zero => exact ⟨rfl, hn, hp, rfl, ht, fun j hj => absurd hj (Nat.not_lt_zero j)⟩
  | succ n ih =>
    obtain ⟨i1, i2, i3, i4, i5, i6⟩ := ih
    have hsv := serve_served i3 i2 n
    show (run s (serveAll (n + 1))).now = s.now ∧ _
    rw [run_serveAll_succ]
    refine ⟨hsv.now.trans i1, hsv.neg.trans i2, hsv.panic.trans i3, hsv.len.trans i4, (i5.step _).step _, ?_⟩
    intro j hj r hr
    by_cases hjn : j = n
    · subst hjn
      exact serve_unblocks i3 i2 i5 hd j r hr
    · rw [hsv.others j hjn] at hr
      have := i6 j (by omega) r hr
      unfold Unblocked at this ⊢
      rw [hsv.hit, hsv.now]
      exact this

end Elvis.Arp
