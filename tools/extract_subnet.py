"""C09: subnetting.rs / ip_table.rs / ipv4_address.rs -> lean/ElvisVerif/Generated/SubnetKernels.lean

A tiny fail-closed Rust-expression -> Lean translator for the arithmetic kernels the C09 theorems
rest on (clamp, Ipv4Mask::{from_bitcount,to_u32}, Ipv4Net::{new,new_1,id,mask,broadcast,contains,
overlaps}, Obm::cmp), plus structural certificates for the representation conventions of the
model (Ipv4Address <-> u32 big-endian, derived orders).  Every function becomes a definition in
`Except String` where each *checked* u32 operation (+ - << >>, assert!) can fail with
`panic:<kind>:<fn>`; evaluation order and `&&`/`||` short-circuiting are kept.
Anything outside the grammar raises ExtractError (reported by ./check as a broken tie).
`Lemmas/SubnetKernels.lean` proves the hand-written model equal to these definitions.
"""
import os, re


class ExtractError(Exception):
    pass


TOK = re.compile(r"\s*(?:(0x[0-9A-Fa-f_]+|\d[\d_]*)|([A-Za-z_][A-Za-z0-9_]*)|(::|<<|>>|<=|>=|==|!=|&&|\|\||=>|[-+*/%<>()!,.&|^{}:;=]))")
TYPES = {"u32": "U32", "bool": "Bool", "Ipv4Address": "Ipv4Address", "Ipv4Mask": "Ipv4Mask", "Ipv4Net": "Ipv4Net",
         "std::cmp::Ordering": "Ordering", "Obm": "Obm"}
ORDERING = {"Equal": "Ordering.eq", "Less": "Ordering.lt", "Greater": "Ordering.gt"}


def tokens(s):
    out, i = [], 0
    while i < len(s):
        m = TOK.match(s, i)
        if not m:
            if s[i:].strip() == "":
                break
            raise ExtractError("cannot tokenize: " + s[i:i + 30].strip())
        i = m.end()
        if m.group(1):
            out.append(("num", int(m.group(1).replace("_", ""), 0)))
        elif m.group(2):
            out.append(("id", m.group(2)))
        else:
            out.append(("op", m.group(3)))
    return out


class Parser:
    """Rust subset -> AST tuples"""

    def __init__(self, toks):
        self.t, self.i = toks, 0

    def peek(self, k=0):
        return self.t[self.i + k] if self.i + k < len(self.t) else ("eof", "")

    def eat(self, v=None):
        k = self.peek()
        if v is not None and k[1] != v:
            raise ExtractError(f"expected `{v}` got `{k[1]}`")
        self.i += 1
        return k

    def at(self, v):
        return self.peek() == ("op", v)

    def block(self):
        """{ stmt* tail }"""
        self.eat("{")
        stmts = []
        while True:
            if self.peek() == ("id", "let"):
                self.eat()
                name = self.eat()
                if name[0] != "id":
                    raise ExtractError("let pattern")
                self.eat("=")
                e = self.expr()
                self.eat(";")
                stmts.append(("let", name[1], e))
            elif self.peek() == ("id", "assert") and self.peek(1) == ("op", "!"):
                self.eat(), self.eat(), self.eat("(")
                e = self.expr()
                self.eat(")"), self.eat(";")
                stmts.append(("assert", e))
            else:
                tail = self.expr()
                self.eat("}")
                return ("block", stmts, tail)

    LEVELS = [["||"], ["&&"], ["==", "!=", "<", ">", "<=", ">="], ["|"], ["^"], ["&"], ["<<", ">>"], ["+", "-"], ["*", "/", "%"]]

    def expr(self, lvl=0, nostruct=False):
        if lvl == len(self.LEVELS):
            return self.unary(nostruct)
        l = self.expr(lvl + 1, nostruct)
        while self.peek()[0] == "op" and self.peek()[1] in self.LEVELS[lvl]:
            op = self.eat()[1]
            r = self.expr(lvl + 1, nostruct)
            l = ("bin", op, l, r)
            if lvl == 2:
                break  # comparisons do not chain
        return l

    def unary(self, nostruct):
        if self.at("!"):
            self.eat()
            return ("not", self.unary(nostruct))
        if self.at("&"):
            self.eat()
            return self.unary(nostruct)  # a shared reference to a Copy value: same value
        return self.postfix(nostruct)

    def args(self):
        self.eat("(")
        a = []
        while not self.at(")"):
            a.append(self.expr())
            if self.at(","):
                self.eat()
        self.eat(")")
        return a

    def postfix(self, nostruct):
        e = self.atom(nostruct)
        while self.at("."):
            self.eat()
            k = self.eat()
            if k[0] == "num":
                e = ("field", e, f"f_{k[1]}")
            elif k[0] == "id" and self.at("("):
                e = ("method", e, k[1], self.args())
            elif k[0] == "id":
                e = ("field", e, "f_" + k[1])
            else:
                raise ExtractError("postfix")
        return e

    def path(self, first):
        p = [first]
        while self.at("::"):
            self.eat()
            k = self.eat()
            if k[0] != "id":
                raise ExtractError("path")
            p.append(k[1])
        return p

    def atom(self, nostruct):
        k = self.eat()
        if k[0] == "num":
            return ("num", k[1])
        if k == ("op", "("):
            e = self.expr()
            self.eat(")")
            return e
        if k == ("id", "if"):
            c = self.expr(0, True)
            t = self.block()
            self.eat("else")
            e = self.atom(nostruct) if self.peek() == ("id", "if") else self.block()
            return ("if", c, t, e)
        if k == ("id", "match"):
            s = self.expr(0, True)
            self.eat("{")
            arms = []
            while not self.at("}"):
                pk = self.eat()
                if pk[0] != "id":
                    raise ExtractError("match pattern")
                pat = self.path(pk[1])
                self.eat("=>")
                body = self.block() if self.at("{") else self.expr()
                if self.at(","):
                    self.eat()
                arms.append((pat, body))
            self.eat("}")
            return ("match", s, arms)
        if k[0] == "id":
            p = self.path(k[1])
            if self.at("("):
                return ("call", p, self.args())
            if self.at("{") and not nostruct and p[-1][0].isupper():
                self.eat("{")
                fs = []
                while not self.at("}"):
                    f = self.eat()[1]
                    if self.at(":"):
                        self.eat()
                        fs.append((f, self.expr()))
                    else:
                        fs.append((f, ("var", f)))
                    if self.at(","):
                        self.eat()
                self.eat("}")
                return ("struct", p, fs)
            if len(p) == 1:
                return ("var", p[0])
            return ("path", p)
        raise ExtractError(f"unexpected token `{k[1]}`")


class Emit:
    def __init__(self, fn, self_ty, methods):
        self.fn, self.self_ty, self.methods, self.n = fn, self_ty, methods, 0

    def fresh(self):
        self.n += 1
        return f"t{self.n}_"

    def bind(self, parts, body):
        """parts: [(name, leanTerm)]"""
        out = body
        for name, term in reversed(parts):
            out = f"({term} >>= fun {name} => {out})"
        return out

    def e(self, a):
        k = a[0]
        if k == "num":
            return f"(pure ({a[1]} : U32))"
        if k == "var":
            return f"(pure {a[1]})"
        if k == "block":
            out = self.e(a[2])
            for st in reversed(a[1]):
                if st[0] == "let":
                    out = f"({self.e(st[2])} >>= fun {st[1]} => {out})"
                else:
                    c = self.fresh()
                    out = f"({self.e(st[1])} >>= fun {c} => if {c} then {out} else throw \"panic:assert:{self.fn}\")"
            return out
        if k == "if":
            c = self.fresh()
            return f"({self.e(a[1])} >>= fun {c} => if {c} then {self.e(a[2])} else {self.e(a[3])})"
        if k == "not":
            x = self.fresh()
            return f"({self.e(a[1])} >>= fun {x} => pure (~~~ {x}))"
        if k == "bin":
            op, x, y = a[1], self.fresh(), self.fresh()
            if op == "&&":
                return f"({self.e(a[2])} >>= fun {x} => if {x} then {self.e(a[3])} else pure false)"
            if op == "||":
                return f"({self.e(a[2])} >>= fun {x} => if {x} then pure true else {self.e(a[3])})"
            pure = {"&": "&&&", "|": "|||", "^": "^^^"}
            cmp = {"==": "==", "!=": "!=", "<": "<", ">": ">", "<=": "≤", ">=": "≥"}
            chk = {"+": "add-overflow", "-": "sub-overflow", "<<": "shl-overflow", ">>": "shr-overflow"}
            fnn = {"+": "U32.add", "-": "U32.sub", "<<": "U32.shl", ">>": "U32.shr"}
            if op in pure:
                body = f"pure ({x} {pure[op]} {y})"
            elif op in ("==", "!="):
                body = f"pure ({x} {cmp[op]} {y})"
            elif op in cmp:
                body = f"pure (decide ({x} {cmp[op]} {y}))"
            elif op in chk:
                body = f"{fnn[op]} \"panic:{chk[op]}:{self.fn}\" {x} {y}"
            else:
                raise ExtractError(f"operator `{op}` is not in the kernel grammar")
            return self.bind([(x, self.e(a[2])), (y, self.e(a[3]))], body)
        if k == "field":
            x = self.fresh()
            return f"({self.e(a[1])} >>= fun {x} => pure {x}.{a[2]})"
        if k == "struct":
            ty = self.self_ty if a[1] == ["Self"] else TYPES.get("::".join(a[1]))
            if ty is None:
                raise ExtractError("struct literal of unknown type " + "::".join(a[1]))
            names = [(self.fresh(), self.e(v)) for _, v in a[2]]
            body = "pure ({ " + ", ".join(f"f_{f} := {n}" for (f, _), (n, _) in zip(a[2], names)) + f" }} : {ty})"
            return self.bind(names, body)
        if k == "method":
            recv, name, args = a[1], a[2], a[3]
            xs = [(self.fresh(), self.e(z)) for z in [recv] + args]
            vs = " ".join(n for n, _ in xs)
            builtin = {"to_u32": "ToU32.to_u32", "to_be_bytes": "U32.to_be_bytes", "cmp": "Cmp.cmp", "reverse": "Ordering.reverse"}
            if name in builtin:
                return self.bind(xs, f"{builtin[name]} {vs}")
            if name in self.methods and len(self.methods[name]) == 1:
                return self.bind(xs, f"{self.methods[name][0]}.{name} {vs}")
            raise ExtractError(f"method `.{name}()` is not one of the extracted kernels")
        if k == "call":
            p, args = a[1], a[2]
            xs = [(self.fresh(), self.e(z)) for z in args]
            vs = " ".join(n for n, _ in xs)
            q = "::".join(self.self_ty if s == "Self" else s for s in p)
            table = {"clamp": "clamp", "Ipv4Mask::from_bitcount": "Ipv4Mask.from_bitcount", "Ipv4Address::from": "Ipv4Address.from_u32",
                     "Ipv4Address::new": "Ipv4Address.new", "Ipv4Mask": "pure <| Ipv4Mask.mk", "Some": None}
            if q in table and table[q]:
                return self.bind(xs, f"{table[q]} {vs}")
            raise ExtractError(f"call `{q}(…)` is not in the kernel grammar")
        if k == "match":
            s = self.fresh()
            arms = []
            for pat, body in a[2]:
                if len(pat) == 1 and pat[0][0].islower():
                    lp = pat[0]
                elif pat[-1] in ORDERING and pat[:-1] in (["std", "cmp", "Ordering"], ["Ordering"]):
                    lp = ORDERING[pat[-1]]
                else:
                    raise ExtractError("match pattern " + "::".join(pat))
                arms.append(f"| {lp} => {self.e(body)}")
            return f"({self.e(a[1])} >>= fun {s} => match {s} with {' '.join(arms)})"
        raise ExtractError(f"expression form `{k}` is not in the kernel grammar")


def find_block(src, start):
    """index just after the brace that closes the one at src[start]"""
    depth = 0
    for i in range(start, len(src)):
        if src[i] == "{":
            depth += 1
        elif src[i] == "}":
            depth -= 1
            if depth == 0:
                return i + 1
    raise ExtractError("unbalanced braces")


def impl_body(src, header_re):
    m = re.search(header_re, src)
    if not m:
        raise ExtractError("impl block not found: " + header_re)
    s = src.index("{", m.start())
    return src[s:find_block(src, s)]


def extract_fn(scope, name, self_ty, methods):
    m = re.search(r"\bfn\s+" + name + r"\s*\(([^)]*)\)\s*->\s*([A-Za-z0-9_:]+)\s*\{", scope)
    if not m:
        raise ExtractError(f"fn {name} not found")
    body = scope[m.end() - 1:find_block(scope, m.end() - 1)]
    params = []
    for p in [x.strip() for x in m.group(1).split(",") if x.strip()]:
        if p in ("self", "&self"):
            params.append(("self", self_ty))
            continue
        n, t = [x.strip() for x in p.split(":", 1)]
        t = t.lstrip("&").strip()
        t = self_ty if t == "Self" else TYPES.get(t)
        if t is None:
            raise ExtractError(f"fn {name}: parameter type of `{p}` not supported")
        params.append((n, t))
    ret = m.group(2)
    ret = self_ty if ret == "Self" else TYPES.get(ret)
    if ret is None:
        raise ExtractError(f"fn {name}: return type {m.group(2)} not supported")
    p = Parser(tokens(body))
    ast = p.block()
    if p.peek()[0] != "eof":
        raise ExtractError(f"fn {name}: trailing tokens")
    qual = f"{self_ty}.{name}" if self_ty else name
    term = Emit(name, self_ty, methods).e(ast)
    ps = " ".join(f"({n} : {t})" for n, t in params)
    return f"def {qual} {ps} : Chk {ret} :=\n  {term}\n"


def strip(src):
    src = re.sub(r"/\*.*?\*/", "", src, flags=re.S)
    src = re.sub(r"//[^\n]*", "", src)
    return src.split("#[cfg(test)]")[0]


def require(cond, what):
    if not cond:
        raise ExtractError("C09 representation certificate failed: " + what)


def norm(s):
    return re.sub(r"\s+", " ", s).strip()


PRELUDE = '''-- GENERATED from sim/elvis-core/src/{protocols/arp/subnetting.rs, ip_table.rs, protocols/ipv4/ipv4_address.rs}
-- by tools/extract_subnet.py on every check; do not edit.
namespace Elvis.Gen.Subnet

/-- a computation that may hit a dev-profile panic -/
abbrev Chk := Except String
abbrev U32 := BitVec 32
/-- `Ipv4Address([u8; 4])` through `to_u32` (certified: From<u32>/to_u32 are to_be_bytes/from_be_bytes, Ord derived) -/
abbrev Ipv4Address := BitVec 32

def U32.add (site : String) (a b : U32) : Chk U32 :=
  if a.toNat + b.toNat < 2 ^ 32 then pure (a + b) else throw site
def U32.sub (site : String) (a b : U32) : Chk U32 :=
  if b.toNat ≤ a.toNat then pure (a - b) else throw site
def U32.shl (site : String) (a b : U32) : Chk U32 :=
  if b.toNat < 32 then pure (a <<< b.toNat) else throw site
def U32.shr (site : String) (a b : U32) : Chk U32 :=
  if b.toNat < 32 then pure (a >>> b.toNat) else throw site
/-- `u32::to_be_bytes` followed by `Ipv4Address::new` is `Ipv4Address::from(u32)` -/
def U32.to_be_bytes (a : U32) : Chk U32 := pure a
def Ipv4Address.new (bytes : U32) : Chk Ipv4Address := pure bytes
def Ipv4Address.from_u32 (n : U32) : Chk Ipv4Address := pure n
def Ordering.reverse (o : Ordering) : Chk Ordering := pure o.swap

class ToU32 (α : Type) where to_u32 : α → Chk U32
instance : ToU32 (BitVec 32) := ⟨pure⟩
class Cmp (α : Type) where cmp : α → α → Chk Ordering
/-- `Ord for u32` / derived `Ord for Ipv4Address` -/
instance : Cmp (BitVec 32) := ⟨fun x y => pure (if x < y then .lt else if x = y then .eq else .gt)⟩

'''


def generate(core):
    sub = strip(open(os.path.join(core, "protocols", "arp", "subnetting.rs")).read())
    ipt = strip(open(os.path.join(core, "ip_table.rs")).read())
    adr = strip(open(os.path.join(core, "protocols", "ipv4", "ipv4_address.rs")).read())
    # ---- certificates for the conventions of Model/Subnet.lean
    n = norm(adr)
    m = re.search(r"#\[derive\(([^)]*)\)\] pub struct Ipv4Address\(\[u8; 4\]\);", n)
    require(m and all(d in m.group(1) for d in ("PartialEq", "Eq", "PartialOrd", "Ord")), "Ipv4Address is no longer a [u8; 4] with derived Eq/Ord")
    require("impl From<u32> for Ipv4Address { fn from(n: u32) -> Self { Self::from(n.to_be_bytes()) } }" in n, "From<u32> for Ipv4Address is not to_be_bytes")
    require("impl From<[u8; 4]> for Ipv4Address { fn from(n: [u8; 4]) -> Self { Self(n) } }" in n, "From<[u8; 4]> for Ipv4Address")
    require("impl From<Ipv4Address> for u32 { fn from(address: Ipv4Address) -> Self { u32::from_be_bytes(address.0) } }" in n, "From<Ipv4Address> for u32 is not from_be_bytes")
    require("pub fn to_u32(self) -> u32 { self.into() }" in n, "Ipv4Address::to_u32 is not self.into()")
    require("pub const fn new(address: [u8; 4]) -> Self { Self(address) }" in n, "Ipv4Address::new")
    s = norm(sub)
    m = re.search(r"#\[derive\(([^)]*)\)\] pub struct Ipv4Mask\(u32\);", s)
    require(m and all(d in m.group(1) for d in ("PartialEq", "Eq", "PartialOrd", "Ord")), "Ipv4Mask is no longer a u32 newtype with derived Eq/Ord")
    m = re.search(r"#\[derive\(([^)]*)\)\] pub struct Ipv4Net \{ network_id: Ipv4Address, mask: Ipv4Mask, \}", s)
    require(m and all(d in m.group(1) for d in ("PartialEq", "Eq")), "Ipv4Net is no longer { network_id, mask } (private) with derived Eq")
    t = norm(ipt)
    m = re.search(r"#\[derive\(([^)]*)\)\] struct Obm\(Ipv4Net\);", t)
    require(m and all(d in m.group(1) for d in ("PartialEq", "Eq")), "Obm is no longer a newtype of Ipv4Net with derived Eq")
    require("table: BTreeMap<Obm, T>," in t, "IpTable.table is no longer a BTreeMap<Obm, T>")
    require("fn partial_cmp(&self, other: &Self) -> Option<std::cmp::Ordering> { Some(self.cmp(other)) }" in t, "Obm::partial_cmp is not Some(self.cmp(other))")
    # ---- kernels
    methods = {"id": ["Ipv4Net"], "mask": ["Ipv4Net"], "broadcast": ["Ipv4Net"], "contains": ["Ipv4Net"], "overlaps": ["Ipv4Net"]}
    out = [PRELUDE]
    out.append("structure Ipv4Mask where\n  f_0 : U32\nderiving DecidableEq, Repr\n")
    out.append("structure Ipv4Net where\n  f_network_id : Ipv4Address\n  f_mask : Ipv4Mask\nderiving DecidableEq, Repr\n")
    out.append("structure Obm where\n  f_0 : Ipv4Net\nderiving DecidableEq, Repr\n")
    out.append(extract_fn(sub, "clamp", "", methods))
    mask_impl = impl_body(sub, r"\bimpl Ipv4Mask \{")
    out.append(extract_fn(mask_impl, "from_bitcount", "Ipv4Mask", methods))
    out.append(extract_fn(mask_impl, "to_u32", "Ipv4Mask", methods))
    out.append("instance : ToU32 Ipv4Mask := ⟨Ipv4Mask.to_u32⟩\n/-- derived `Ord for Ipv4Mask(u32)` -/\ninstance : Cmp Ipv4Mask := ⟨fun x y => Cmp.cmp x.f_0 y.f_0⟩\n")
    net_impl = impl_body(sub, r"\bimpl Ipv4Net \{")
    for f in ("new", "new_1", "id", "mask", "broadcast", "contains", "overlaps"):
        out.append(extract_fn(net_impl, f, "Ipv4Net", methods))
    out.append(extract_fn(impl_body(ipt, r"\bimpl Ord for Obm \{"), "cmp", "Obm", methods))
    out.append("end Elvis.Gen.Subnet\n")
    return "\n".join(out)
