//! C14: correspondence + oracle runs (sub-commands `c14` / `c14-*`).
use hcommon::*;

pub fn run(args: &Args) {
    eprintln!("hfull: {} not implemented yet", args.prop);
    std::process::exit(2);
}
