-- GENERATED from /repo sources by tools/extract.py on every check; do not edit
namespace Elvis.Gen
/-- TTL handling of `ArpRouter::demux`, statement by statement (dev profile: checked `-=`):
    `.error` = panic, `.ok none` = `return Ok(())` (datagram dropped), `.ok (some t)` = forwarded with TTL t.
    Source statements: drop <= 1; sub 1 -/
def routerTtlKernel (ttl : Nat) : Except String (Option Nat) :=
  if decide (ttl ≤ 1) then .ok none else
  if ttl < 1 then .error "panic:sub:ArpRouter::demux:time_to_live" else
  let ttl := ttl - 1
  .ok (some ttl)

def routerDemuxSendSites : Nat := 1
def routerDemuxSpawns : Nat := 1
def routerDemuxLoops : Nat := 0
def routerLooksUpDestination : Bool := true
def routerNextHopGatewayOrDestination : Bool := true
def routerArpOnOutgoingSlotOneSend : Bool := true
def routerWildcardListens : List Nat := [6, 17]
def routerArpListensLocalIps : Bool := true
def ipv4DefaultTtl : Nat := 30
def ipv4BaseOctets : Nat := 20
def ipv4FragmentOffsetMask : Nat := 8191
def ipv4SerializeSubtractsBaseOctets : Bool := true
/-- `Ipv4Header::from_bytes` rejects `total_length < ihl * 4` -/
def ipv4DecoderRejectsShortTotalLength : Bool := true
def arpResendTries : Nat := 10
def arpResendDelayMs : Nat := 200
end Elvis.Gen
