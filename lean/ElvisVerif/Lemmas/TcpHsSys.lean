import ElvisVerif.Lemmas.TcpHsChain
import ElvisVerif.Lemmas.TcpRelSys
import ElvisVerif.Lemmas.TcpConvSteady2
/-!
# The three-way handshake under the fair schedule: three exchange phases to a steady state

`hsStart ia ib ma mb da`: the system after `open A ia ma`, `listen B ib mb`, `write A da` (A in SYN-SENT holding
`da`, B listening).  `handshake_steady`: three exchange phases later both endpoints are ESTABLISHED and the
system is steady (`Lemmas/TcpConvSteady.lean`); A has sent the first window of `da`, B has received and
delivered it.
-/
namespace Elvis.Tcp
open Tcb Elvis.ModCmp

/-- the system after `open A`, `listen B`, `write A da` -/
def hsStart (ia ib : Seq) (ma mb : U16) (da : List UInt8) : Sys :=
  { a := { tcb := some (hsA0 SideId.A.port SideId.B.port ia ma da), submitted := da },
    b := { listen := some (ib, mb) } }

theorem hsStart_run (ia ib : Seq) (ma mb : U16) (da : List UInt8) :
    Sys.run {} [.open .A ia ma, .listen .B ib mb, .write .A da] = .ok (hsStart ia ib ma mb da, [.ok, .ok, .ok]) := by
  simp only [Sys.run, Sys.step, Op.side, SideId.peer, open_eq]
  rfl

section
variable (ia ib : Seq) (ma mb : U16) (da : List UInt8)

local notation "LP" => SideId.A.port
local notation "RP" => SideId.B.port

/-- the first exchange phase: A's SYN creates B's TCB -/
theorem hs_phase1 (hmA : ¬ ma.toNat < SPACE_FOR_HEADERS) (hmB : ¬ mb.toNat < SPACE_FOR_HEADERS) :
    ∃ s1, phase (hsStart ia ib ma mb da) = .ok s1 ∧ PlainRun (hsStart ia ib ma mb da) s1 ∧
      (s1.side .A).tcb = some (hsA1 LP RP ia ma da) ∧ (s1.side .B).tcb = some (hsB1 LP RP ia ib mb) ∧
      (s1.side .A).submitted = da ∧ (s1.side .B).submitted = [] ∧
      (s1.side .A).delivered = [] ∧ (s1.side .B).delivered = [] := by
  obtain ⟨a1, a2, _, _⟩ := hsA_emit1 LP RP ia ma da hmA
  obtain ⟨b1, b2, _⟩ := hsB_create LP RP ia ib mb hmB
  have h0a : ((hsStart ia ib ma mb da).side .A).tcb = some (hsA0 LP RP ia ma da) := rfl
  have st1 := sys_emit (hsStart ia ib ma mb da) .A _ _ _ h0a a1
  generalize hs1 : ((hsStart ia ib ma mb da).setSide .A { (hsStart ia ib ma mb da).side .A with tcb := some (hsA1 LP RP ia ma da) }).record [synSeg LP RP ia] = s1 at st1
  have h1b : (s1.side .B).tcb = none := by rw [← hs1]; rfl
  have st2 : s1.step (.emit .B) = .ok (s1, .noTcb) := by
    simp only [Sys.step, Op.side, h1b]
  have hn : s1.nth 0 = some (synSeg LP RP ia) := by rw [← hs1]; rfl
  have h1l : (s1.side .B).listen = some (ib, mb) := by rw [← hs1]; rfl
  have st3 : s1.step (.deliver .B 0) = .ok (s1.setSide .B { s1.side .B with tcb := some (hsB1 LP RP ia ib mb) }, .listenTcb) := by
    simp only [Sys.step, Op.side, hn, Sys.arrive, h1b, h1l, b1]
  have hlen0 : (hsStart ia ib ma mb da).historyLen = 0 := rfl
  have hlen1 : s1.historyLen = 1 := by rw [← hs1]; rfl
  have d3 : deliverRange s1 .B (hsStart ia ib ma mb da).historyLen (s1.historyLen - (hsStart ia ib ma mb da).historyLen) =
      .ok (s1.setSide .B { s1.side .B with tcb := some (hsB1 LP RP ia ib mb) }) := by
    rw [hlen0, hlen1]
    simp only [deliverRange, st3]
  generalize hs3 : s1.setSide .B { s1.side .B with tcb := some (hsB1 LP RP ia ib mb) } = s3 at st3 d3
  have h3a : (s3.side .A).tcb = some (hsA1 LP RP ia ma da) := by rw [← hs3, ← hs1]; rfl
  have h3b : (s3.side .B).tcb = some (hsB1 LP RP ia ib mb) := by rw [← hs3]; rfl
  have d4 : deliverRange s3 .A s1.historyLen (s1.historyLen - s1.historyLen) = .ok s3 := by
    rw [Nat.sub_self]; rfl
  obtain ⟨s5, r5, st5, h5a, h5p, h5sub, h5del, h5len⟩ := read_facts_gen s3 .A _ h3a
  have h5pb : s5.side .B = s3.side .B := h5p
  have h5b : (s5.side .B).tcb = some (hsB1 LP RP ia ib mb) := by rw [h5pb]; exact h3b
  obtain ⟨s6, r6, st6, h6b, h6p, h6sub, h6del, h6len⟩ := read_facts_gen s5 .B _ h5b
  have h6pa : s6.side .A = s5.side .A := h6p
  refine ⟨s6, ?_, ?_, ?_, ?_, ?_, ?_, ?_, ?_⟩
  · unfold phase
    rw [st1]
    dsimp only
    rw [st2]
    dsimp only
    rw [d3]
    dsimp only
    rw [d4]
    dsimp only
    rw [st5]
    dsimp only
    rw [st6]
  · have hop : Op.Plain s1 (.deliver .B 0) := by
      intro g' hg'
      rw [hn] at hg'
      cases hg'
      exact ⟨rfl, rfl⟩
    exact ((((PlainRun.step (op := .emit .A) (.refl _) trivial st1).trans
      (.step (op := .emit .B) (.refl _) trivial st2)).trans (.step (.refl _) hop st3)).trans
      (.step (op := .read .A) (.refl _) trivial st5)).trans (.step (op := .read .B) (.refl _) trivial st6)
  · rw [h6pa, h5a, a2]
  · rw [h6b, b2]
  · rw [h6pa, h5sub, ← hs3, ← hs1]; rfl
  · rw [h6sub, h5pb, ← hs3, ← hs1]; rfl
  · rw [h6pa, h5del, a2, ← hs3, ← hs1]; rfl
  · rw [h6del, b2, h5pb, ← hs3, ← hs1]; rfl

/-- **three exchange phases from `open` / `listen` to a steady state** -/
theorem handshake_steady (hmA : SPACE_FOR_HEADERS < ma.toNat) (hmB : SPACE_FOR_HEADERS < mb.toNat) :
    ∃ s3 ta tb, phases 3 (hsStart ia ib ma mb da) = .ok s3 ∧ PlainRun (hsStart ia ib ma mb da) s3 ∧
      Steady s3 ta tb ∧ ta.outgoing.text = da.drop (min da.length 65535) ∧ tb.outgoing.text = [] ∧
      (s3.side .A).submitted = da ∧ (s3.side .B).submitted = [] ∧
      (s3.side .A).delivered = [] := by
  have hmA' : ¬ ma.toNat < SPACE_FOR_HEADERS := by omega
  have hmB' : ¬ mb.toNat < SPACE_FOR_HEADERS := by omega
  obtain ⟨s1, ph1, r1, h1a, h1b, h1sa, h1sb, h1da, h1db⟩ := hs_phase1 ia ib ma mb da hmA' hmB'
  obtain ⟨_, _, a3, a4⟩ := hsA_emit1 LP RP ia ma da hmA'
  obtain ⟨_, _, b3, b4, b5, b6⟩ := hsB_create LP RP ia ib mb hmB'
  obtain ⟨a5, a6⟩ := hsA_synack LP RP ia ib ma da
  -- phase 2: B's SYN-ACK
  obtain ⟨s2, ph2, r2, h2a, h2b, h2sa, h2sb, h2da, h2db, _⟩ :=
    phase_eval s1 (hsA1 LP RP ia ma da) (hsB1 LP RP ia ib mb) (hsA2 LP RP ia ma da) (hsB2 LP RP ia ib mb)
      (hsA3 LP RP ia ib ma da) (hsB2 LP RP ia ib mb) [] [synAckSeg LP RP ia ib] h1a h1b a3 b3 rfl a5
      (fun g hg => by cases hg)
      (fun g hg => by
        simp only [List.mem_singleton] at hg; subst hg
        exact ⟨rfl, rfl⟩)
  rw [a6] at h2a h2da
  rw [b4] at h2b h2db
  -- phase 3: A's ACK and the first window of data
  obtain ⟨new, tA4, outA, tB5, eA, fx, hout, aB, bf⟩ := hs_phase3 LP RP ia ib ma mb da hmA
  have pA : ∀ g ∈ outA, g.hdr.srcPort = SideId.A.port ∧ g.hdr.dstPort = SideId.B.port := by
    intro g hg
    rw [hout] at hg
    rcases List.mem_cons.1 hg with rfl | hg
    · exact ⟨rfl, rfl⟩
    · exact ports_dataRun _ _ _ _ _ _ fx.run g hg
  obtain ⟨s3, ph3, r3, h3a, h3b, h3sa, h3sb, h3da, h3db, _⟩ :=
    phase_eval s2 (hsA3 LP RP ia ib ma da) (hsB2 LP RP ia ib mb) tA4 (hsB3 LP RP ia ib mb) tA4 tB5 outA []
      h2a h2b eA b5 aB rfl pA (fun g hg => by cases hg)
  have hstA : tA4.state = .Established := fx.st
  rw [receive_established tA4 hstA] at h3a h3da
  rw [receive_established tB5 bf.st] at h3b h3db
  -- the amounts
  have hamt : emitAmount (hsA3 LP RP ia ib ma da) = min da.length 65535 := by
    unfold emitAmount
    rw [hsA3_rtx]
    rfl
  have o1 : off ib (ib + 1) = 1 := by
    have := off_add ib ib 1 (by rw [off_self]; omega)
    rw [off_self] at this
    exact this
  -- B's SND.UNA after the batch
  have hunaB : tB5.snd.una = tB5.snd.nxt := by
    apply off_inj (base := ib)
    rw [bf.una, bf.snxt]
    have hm : maxAck ib (new.map (·.segment)) ≤ 1 := maxAck_le _ _ _ (fun g hg =>
      (ackLe_dataRun ib 1 _ _ _ _ (by show 1 ≤ off ib (ib + 1); omega) (by show off ib (ib + 1) ≤ 1; omega) _ _ fx.run g hg).2)
    have h1 : off ib (hsB4 LP RP ia ib ma mb da).snd.una = 1 := o1
    have h2 : off ib (hsB4 LP RP ia ib ma mb da).snd.nxt = 1 := o1
    rw [h1, h2]
    omega
  refine ⟨s3, _, _, ?_, (r1.trans r2).trans r3, ⟨h3a, h3b, ?_, ?_⟩, ?_, ?_, ?_, ?_, ?_⟩
  · simp only [phases, ph1, ph2, ph3]
  · -- A is steady
    refine ⟨hstA, by show tA4.incoming.segments = []; rw [fx.inc]; rfl, rfl, ?_, ?_, ?_,
      by show SPACE_FOR_HEADERS < tA4.mtu.toNat; rw [fx.mtu]; exact hmA⟩
    · show tB5.rcv.nxt = tA4.snd.nxt
      rw [bf.nxt, fx.nxt, fx.bytes]
      rfl
    · intro tr htr
      have htr' : tr ∈ tA4.outgoing.retransmit := htr
      rw [fx.rtx] at htr'
      obtain ⟨x, _, rfl⟩ := List.mem_map.1 htr'
      rfl
    · show tA4.snd.una = tA4.snd.nxt ∨ ∃ h, tB5.outgoing.oneshot.getLast? = some h ∧ h.ack = tB5.rcv.nxt
      by_cases h0 : emitAmount (hsA3 LP RP ia ib ma da) = 0
      · left
        rw [fx.una, fx.nxt, h0]
        show ia + 1 = ia + 1 + BitVec.ofNat 32 0
        simp
      · exact Or.inr (bf.oneLast (by rw [fx.bytes]; omega))
  · -- B is steady
    refine ⟨bf.st, bf.heap, rfl, ?_, ?_, Or.inl hunaB,
      by show SPACE_FOR_HEADERS < tB5.mtu.toNat; rw [bf.mtu]; exact hmB⟩
    · show tA4.rcv.nxt = tB5.snd.nxt
      rw [fx.rcv, bf.snxt]
      rfl
    · intro tr htr
      have htr' : tr ∈ tB5.outgoing.retransmit := htr
      rw [bf.rtx, hsB4_rtx] at htr'
      cases htr'
  · show tA4.outgoing.text = _
    rw [fx.text, hamt]
    rfl
  · show tB5.outgoing.text = _
    rw [bf.otext]
    rfl
  · rw [h3sa, h2sa, h1sa]
  · rw [h3sb, h2sb, h1sb]
  · rw [h3da, h2da, h1da, fx.inc]
    rfl

end
end Elvis.Tcp
