import ElvisVerif.Lemmas.TcpFinSys
/-!
# The stream invariant with `close()`: runs

`FinRun s s'`: any finite sequence of `write`, `read`, `tick`, `emit`, `close`, `drop` and deliveries of
any history element to the endpoint it is addressed to (loss, duplication, reordering, arbitrary
delay), from `s` to `s'`.  H31 (`C01.Lt31`: fewer than 2^31 bytes submitted per direction) is asked of the
final state only: the submitted logs only grow.  `finRunB`: executable form.
-/
namespace Elvis.Tcp.Fin
open Elvis.ModCmp Elvis.Tcp.Tcb Elvis.Tcp.C01

inductive FinRun : Sys → Sys → Prop
  | refl (s : Sys) : FinRun s s
  | step {s s1 s2 : Sys} {op : Op} {r : Res} : FinRun s s1 → OpOkF s1 op → s1.step op = .ok (s2, r) → FinRun s s2

theorem FinRun.sub {s s' : Sys} (h : FinRun s s') (y : SideId) : (s.side y).submitted <+: (s'.side y).submitted := by
  induction h with
  | refl => exact List.prefix_refl _
  | step _ _ e ih => exact ih.trans (step_sub e y)

theorem Lt31.of_finRun {s s' : Sys} (h : FinRun s s') (h31 : Lt31 s') : Lt31 s :=
  ⟨Nat.lt_of_le_of_lt (h.sub .A).length_le h31.1, Nat.lt_of_le_of_lt (h.sub .B).length_le h31.2⟩

/-- **the invariant holds after every panic-free run with closes** (H31 on the final logs) -/
theorem finRun_inv {iss : SideId → Seq} {fin : SideId → Bool} {s s' : Sys} (h : InvF iss fin s)
    (hrun : FinRun s s') (h31 : Lt31 s') : ∃ fin', InvF iss fin' s' ∧ ∀ y, fin y = true → fin' y = true := by
  induction hrun with
  | refl => exact ⟨fin, h, fun _ h0 => h0⟩
  | step hr hop e ih =>
    have h31' : Lt31 _ := Lt31.of_finRun (.step (.refl _) hop e) h31
    obtain ⟨f1, i1, m1⟩ := ih h31'
    obtain ⟨f2, i2, m2⟩ := step_invF i1 hop h31' e
    exact ⟨f2, i2, fun y hy => m2 y (m1 y hy)⟩

theorem FinRun.head {s s1 s2 : Sys} {op : Op} {r : Res} (hp : OpOkF s op)
    (e : s.step op = .ok (s1, r)) (h : FinRun s1 s2) : FinRun s s2 := by
  induction h with
  | refl => exact .step (.refl _) hp e
  | step _ hp' e' ih => exact .step ih hp' e'

theorem FinRun.trans {a b c : Sys} (h1 : FinRun a b) (h2 : FinRun b c) : FinRun a c := by
  induction h2 with
  | refl => exact h1
  | step _ hp e ih => exact .step ih hp e

/-! ## executable form -/

def opOkFB (s : Sys) : Op → Bool
  | .write _ _ | .read _ | .tick _ _ | .emit _ | .drop _ | .close _ => true
  | .deliver x i => match s.nth i with
    | none => true
    | some g => addressedB x g
  | _ => false

theorem opOkFB_sound {s : Sys} {op : Op} (h : opOkFB s op = true) : OpOkF s op := by
  cases op <;> simp only [opOkFB, OpOkF] at h ⊢
  case deliver x i =>
    intro g hg
    rw [hg] at h
    simp only [addressedB, Bool.and_eq_true, beq_iff_eq] at h
    exact h
  all_goals first | trivial | cases h

def finRunB : Sys → List Op → Option Sys
  | s, [] => some s
  | s, op :: ops =>
    if opOkFB s op then
      match s.step op with
      | .ok (s', _) => finRunB s' ops
      | .error _ => none
    else none

theorem finRunB_sound (s s' : Sys) (ops : List Op) (h : finRunB s ops = some s') : FinRun s s' := by
  induction ops generalizing s with
  | nil => simp only [finRunB, Option.some.injEq] at h; subst h; exact .refl _
  | cons op ops ih =>
    unfold finRunB at h
    split at h
    · rename_i hc
      split at h
      · rename_i s1 r e
        exact FinRun.head (opOkFB_sound hc) e (ih s1 h)
      · simp at h
    · simp at h

end Elvis.Tcp.Fin
