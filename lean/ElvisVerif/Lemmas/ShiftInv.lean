import ElvisVerif.Lemmas.ShiftPorts
/-!
# The hypotheses of the step theorem that are invariants of runs (C12)

`TcbFresh t x`: a TCB of side `x` is fresh while in SYN-SENT (`SND.UNA = ISS`, `SND.NXT = ISS+1`,
`SND.WND = 0`), has an empty reorder heap in SYN-SENT, and emits only headers with `x`'s port.
Established by `open` / LISTEN, kept by every operation — so `RunAdm` (what the run theorem needs)
follows from `RunExcl` (the genuine exclusions) for runs from the initial system.
-/
namespace Elvis.Tcp
open Elvis.ModCmp

/-! ## SYN-SENT stays fresh -/

theorem andThen_none' (s : Tcb) (f : Tcb → Tcb.B) : Tcb.B.andThen (.ok (s, none)) f = f s := rfl
theorem andThen_some' (s : Tcb) (r : ProcessSegmentResult) (f : Tcb → Tcb.B) :
    Tcb.B.andThen (.ok (s, some r)) f = .ok (s, some r) := rfl

/-- block 2 in SYN-SENT: the state stays; SND.* changes only when a SYN with an acceptable ACK
    falls through -/
theorem ackBlock_synSent (t v : Tcb) (seg : Hdr) (r1 : Option ProcessSegmentResult) (hs : t.state = .SynSent)
    (h : Tcb.ackBlock t seg = .ok (v, r1)) :
    v.state = .SynSent ∧ (v.snd = t.snd ∨ (r1 = none ∧ seg.ctl.syn = true ∧ seg.ctl.ack = true)) := by
  unfold Tcb.ackBlock at h
  split at h
  · cases h; exact ⟨hs, Or.inl rfl⟩
  · rename_i hack
    have ha : seg.ctl.ack = true := by simpa using hack
    rw [hs] at h
    simp only [Tcb.enqueueThen_eq] at h
    repeat' (split at h)
    all_goals first
      | (cases h; exact ⟨hs, Or.inl rfl⟩)
      | (cases h; exact ⟨(Tcb.enqueueBuilt_frame _ _).2.2.2.2.1.trans hs, Or.inl (Tcb.enqueueBuilt_frame _ _).2.2.1⟩)
      | (cases h; rename_i hsyn; exact ⟨rfl, Or.inr ⟨rfl, hsyn, ha⟩⟩)

/-- block 3 in SYN-SENT: a RST without ACK is dropped (RFC 9293 3.10.7.3), one with ACK deletes
    the TCB -/
theorem rstBlock_synSent (v w : Tcb) (seg : Hdr) (r : Option ProcessSegmentResult) (hs : v.state = .SynSent)
    (h : Tcb.rstBlock v seg = .ok (w, r)) :
    w = v ∧ (r = none ∨ (r = some .DiscardSegment ∧ seg.ctl.ack = false) ∨
      ∃ r0, r = some r0 ∧ r0.shouldDeleteTcb = true) := by
  unfold Tcb.rstBlock at h
  split at h
  · cases h; exact ⟨rfl, Or.inl rfl⟩
  · rw [hs] at h
    dsimp only at h
    split at h
    · rename_i hna
      cases h
      exact ⟨rfl, Or.inr (Or.inl ⟨rfl, by simpa using hna⟩)⟩
    · split at h <;> (cases h; exact ⟨rfl, Or.inr (Or.inr ⟨_, rfl, rfl⟩)⟩)

theorem synBlock_synSent (v w : Tcb) (seg : Hdr) (r : Option ProcessSegmentResult) (hs : v.state = .SynSent)
    (h : Tcb.synBlock v seg = .ok (w, r)) :
    (seg.ctl.syn = false ∧ w = v ∧ r = some .DiscardSegment) ∨ (seg.ctl.syn = true ∧ w.state ≠ .SynSent) := by
  unfold Tcb.synBlock at h
  simp only [Tcb.enqueueThen_eq] at h
  split at h
  · rename_i hsyn
    cases h
    exact Or.inl ⟨by simpa using hsyn, rfl, rfl⟩
  · rename_i hsyn
    have hsyn' : seg.ctl.syn = true := by simpa using hsyn
    rw [hs] at h
    dsimp only at h
    split at h <;> (cases h; exact Or.inr ⟨hsyn', by rw [(Tcb.enqueueBuilt_frame _ _).2.2.2.2.1]; intro hh; cases hh⟩)

theorem seqCheck_synSent (t : Tcb) (seg : Hdr) (tl : Seq) (hs : t.state = .SynSent) :
    Tcb.seqCheck t seg tl = .ok (t, none) := by
  unfold Tcb.seqCheck
  rw [hs]

/-- a segment processed in SYN-SENT that neither deletes the TCB nor leaves SYN-SENT leaves SND.* alone -/
theorem processSegment_synSent (t u : Tcb) (seg : Segment) (r : ProcessSegmentResult) (hs : t.state = .SynSent)
    (h : Tcb.processSegment t seg = .ok (u, r)) (hd : r.shouldDeleteTcb = false) (hu : u.state = .SynSent) :
    u.snd = t.snd := by
  rw [processSegment_eq, seqCheck_synSent t _ _ hs, andThen_none'] at h
  cases ha : Tcb.ackBlock t seg.hdr with
  | error e => rw [ha] at h; cases h
  | ok q =>
    obtain ⟨v, r1⟩ := q
    rw [ha] at h
    obtain ⟨hv, hcase⟩ := ackBlock_synSent t v seg.hdr r1 hs ha
    cases r1 with
    | some r0 =>
      simp only [andThen_some', finish] at h
      cases h
      rcases hcase with e | ⟨e, _⟩
      · exact e
      · cases e
    | none =>
      rw [andThen_none'] at h
      cases hr : Tcb.rstBlock v seg.hdr with
      | error e => rw [hr] at h; cases h
      | ok q2 =>
        obtain ⟨w, r2⟩ := q2
        rw [hr] at h
        obtain ⟨hw, hr2⟩ := rstBlock_synSent v w seg.hdr r2 hv hr
        subst hw
        rcases hr2 with e | ⟨e, hna⟩ | ⟨r0, e, hdel⟩
        · subst e
          rw [andThen_none'] at h
          cases hsy : Tcb.synBlock w seg.hdr with
          | error e => rw [hsy] at h; cases h
          | ok q3 =>
            obtain ⟨x, r3⟩ := q3
            rw [hsy] at h
            rcases synBlock_synSent w x seg.hdr r3 hv hsy with ⟨hsyn, hx, hr3⟩ | ⟨hsyn, hx⟩
            · subst hx hr3
              simp only [andThen_some', finish] at h
              cases h
              rcases hcase with e | ⟨_, e, _⟩
              · exact e
              · rw [hsyn] at e; cases e
            · -- the state left SYN-SENT and never comes back
              exfalso
              have trk : Trk x u := by
                cases r3 with
                | some r0 =>
                  simp only [andThen_some', finish] at h
                  cases h; exact Trk.refl _
                | none =>
                  rw [andThen_none'] at h
                  unfold finish at h
                  split at h
                  · cases h
                  all_goals
                    cases h
                    rename_i heq
                    exact trk_andThen x _ _ (fun v r h => trk_textBlock x v _ _ _ r h)
                      (fun v w r h => trk_finBlock v w _ _ r h) _ _ heq
              exact hx (trk.synsent hu)
        · -- a RST without ACK is dropped; block 2 did nothing either (no ACK bit)
          subst e
          simp only [andThen_some', finish] at h
          cases h
          rcases hcase with e | ⟨_, _, e⟩
          · exact e
          · rw [hna] at e; cases e
        · subst e
          simp only [andThen_some', finish] at h
          cases h
          rw [hdel] at hd; cases hd


/-! ## `FreshKeep`: what an operation may do to a TCB that is still in SYN-SENT afterwards -/

def FreshKeep (t u : Tcb) : Prop :=
  u.state = .SynSent → t.state = .SynSent ∧ u.snd = t.snd ∧ u.incoming.segments = t.incoming.segments

structure TcbFresh (t : Tcb) (x : SideId) : Prop where
  fresh : SynSentFresh t
  idle : t.state = .SynSent → t.incoming.segments = []
  ports : PortsOk t x.port

theorem TcbFresh.step {t u : Tcb} {x : SideId} (h : TcbFresh t x) (f : FreshKeep t u) (k : PortsKeep t u) : TcbFresh u x := by
  refine ⟨fun hu => ?_, fun hu => ?_, h.ports.of_keep k⟩
  · obtain ⟨hs, e, _⟩ := f hu
    rw [e]; exact h.fresh hs
  · obtain ⟨hs, _, e⟩ := f hu
    rw [e]; exact h.idle hs

theorem trk_drain (fuel : Nat) (s u : Tcb) (r : SegmentArrivesResult) (h : Tcb.drain fuel s = .ok (u, r)) :
    u.state = .SynSent → s.state = .SynSent := by
  induction fuel generalizing s with
  | zero => cases h; exact id
  | succ n ih =>
    rw [drain_succ] at h
    split at h
    · cases h; exact id
    · split at h
      · cases h; exact id
      · split at h
        · cases h
        · split at h
          · cases h
          · rename_i hp
            have k := trk_processSegment _ _ _ _ hp
            split at h
            · cases h; exact fun hu => k.synsent hu
            · exact fun hu => k.synsent (ih _ h hu)

theorem freshKeep_segmentArrives (t u : Tcb) (seg : Segment) (hi : t.state = .SynSent → t.incoming.segments = [])
    (h : t.segmentArrives seg = .ok (u, .Ok)) : FreshKeep t u := by
  intro hu
  rw [segmentArrives_eq] at h
  by_cases hs : t.state = .SynSent
  · rw [if_pos hs] at h
    dsimp only at h
    rw [hi hs] at h
    have hp : LHeap.push segLe [] seg = [seg] := rfl
    rw [hp] at h
    change Tcb.drain 2 (setHeap t [seg]) = _ at h
    rw [drain_succ] at h
    have pk : LHeap.peek (setHeap t [seg]).incoming.segments = some seg := rfl
    have pp : LHeap.pop segLe (setHeap t [seg]).incoming.segments = (some seg, []) := rfl
    have g1 : ((setHeap t [seg]).state ≠ .SynSent && modGt seg.hdr.seq (setHeap t [seg]).rcv.nxt) = false := by
      have : (setHeap t [seg]).state = .SynSent := hs
      rw [this]; rfl
    rw [pk, pp] at h
    dsimp only at h
    rw [g1] at h
    simp only [Bool.false_eq_true, if_false] at h
    cases hps : Tcb.processSegment (setHeap (setHeap t [seg]) []) seg with
    | error e => rw [hps] at h; cases h
    | ok q =>
      obtain ⟨v, r⟩ := q
      rw [hps] at h
      dsimp only at h
      cases hdel : r.shouldDeleteTcb with
      | true => rw [hdel] at h; simp at h
      | false =>
        rw [hdel] at h
        simp only [Bool.false_eq_true, if_false] at h
        have trk := trk_processSegment _ v seg r hps
        have hv : v.incoming.segments = [] := trk.heap
        rw [drain_succ] at h
        have : LHeap.peek v.incoming.segments = none := by rw [hv]; rfl
        rw [this] at h
        cases h
        have e := processSegment_synSent (setHeap (setHeap t [seg]) []) u seg r hs hps hdel hu
        exact ⟨hs, e, by rw [hv, hi hs]⟩
  · exfalso
    rw [if_neg hs] at h
    split at h
    · cases h
    · simp only [Tcb.enqueue_eq] at h
      cases h
      exact hs ((Tcb.enqueueBuilt_frame _ _).2.2.2.2.1 ▸ hu)
    · have := trk_drain _ _ _ _ h hu
      exact hs this

theorem freshKeep_send (t : Tcb) (m : List UInt8) : FreshKeep t (t.send m) := by
  intro hu
  unfold Tcb.send at hu ⊢
  split at hu <;> exact ⟨hu, rfl, rfl⟩

theorem freshKeep_receive (t : Tcb) : FreshKeep t t.receive.1 := by
  intro hu
  unfold Tcb.receive at hu ⊢
  split at hu <;> exact ⟨hu, rfl, rfl⟩

theorem FreshKeep.of_eq {t u : Tcb} (hs : u.state = t.state) (h1 : u.snd = t.snd)
    (h2 : u.incoming.segments = t.incoming.segments) : FreshKeep t u :=
  fun hu => ⟨hs ▸ hu, h1, h2⟩

theorem FreshKeep.trans {a b c : Tcb} (h1 : FreshKeep a b) (h2 : FreshKeep b c) : FreshKeep a c := by
  intro hc
  obtain ⟨hb, e1, e2⟩ := h2 hc
  obtain ⟨ha, e3, e4⟩ := h1 hb
  exact ⟨ha, e1.trans e3, e2.trans e4⟩

theorem freshKeep_advanceRetransmission (t u : Tcb) (dt : Nat) (h : t.advanceRetransmission dt = .ok u) :
    FreshKeep t u := by
  unfold Tcb.advanceRetransmission at h
  repeat' (split at h)
  all_goals first
    | (cases h; done)
    | (cases h; exact FreshKeep.of_eq rfl rfl rfl)

theorem freshKeep_advanceTime (t u : Tcb) (dt : Nat) (r : AdvanceTimeResult) (h : t.advanceTime dt = .ok (u, r)) :
    FreshKeep t u := by
  unfold Tcb.advanceTime at h
  cases hx : t.advanceRetransmission dt with
  | error e => rw [hx] at h; cases h
  | ok v =>
    rw [hx] at h
    refine (freshKeep_advanceRetransmission t v dt hx).trans ?_
    dsimp only at h
    repeat' (split at h)
    all_goals first
      | (cases h; done)
      | (cases h; exact FreshKeep.of_eq rfl rfl rfl)

theorem queueFin_state (s u : Tcb) (h : s.queueFin = .ok u) : u.state = s.state := by
  rw [queueFin_eq] at h
  split at h
  · cases h; exact (Tcb.enqueueBuilt_frame _ _).2.2.2.2.1
  · cases h; rfl

theorem finIfPending_state (b : Bool) (s u : Tcb) (h : Tcb.finIfPending b s = .ok u) : u.state = s.state := by
  unfold Tcb.finIfPending at h
  split at h
  · exact queueFin_state _ _ h
  · cases h; rfl

theorem freshKeep_close (t u : Tcb) (r : CloseResult) (h : t.close = .ok (u, r)) : FreshKeep t u := by
  intro hu
  unfold Tcb.close at h
  split at h
  all_goals first
    | (cases h; exact ⟨hu, rfl, rfl⟩)
    | (split at h
       · cases h
       · rename_i hq
         cases h
         have := queueFin_state _ _ hq
         rw [hu] at this
         cases this)

theorem freshKeep_abort (t u : Tcb) (h : t.abort = .ok u) : FreshKeep t u := by
  intro hu
  unfold Tcb.abort at h
  simp only [Tcb.enqueue_eq] at h
  obtain ⟨lp, rp, mtu, ini, st, snd, rcv, out, inc, tmo⟩ := t
  cases st <;> dsimp only at h <;> cases h
  all_goals first
    | exact ⟨hu, rfl, rfl⟩
    | (rw [(Tcb.enqueueBuilt_frame _ _).2.2.2.2.1] at hu; cases hu)

theorem segmentize_zero_wnd (m fuel : Nat) (t : Tcb) (q : Nat) (hw : t.snd.wnd = 0) :
    Tcb.segmentize m fuel t q = .ok t := by
  cases fuel with
  | zero => rfl
  | succ n =>
    rw [segmentize_succ, hw]
    simp

theorem segmentizeIfOpen_synSent (s : Tcb) (hs : s.state = .SynSent) (hw : s.snd.wnd = 0) (hm : ¬ s.mtu.toNat < SPACE_FOR_HEADERS) :
    Tcb.segmentizeIfOpen s = .ok s := by
  unfold Tcb.segmentizeIfOpen
  rw [hs]
  dsimp only
  rw [if_neg hm]
  exact segmentize_zero_wnd _ _ s _ hw

theorem freshKeep_segments (t u : Tcb) (segs : List Segment) (hF : SynSentFresh t)
    (h : t.segments = .ok (u, segs)) : FreshKeep t u := by
  intro hu
  rw [segments_eq] at h
  cases hv : Tcb.segmentizeIfOpen (clearOneshot t) with
  | error e => rw [hv] at h; cases h
  | ok v =>
    rw [hv] at h
    dsimp only at h
    cases hf : Tcb.finIfPending t.finPending v with
    | error e => rw [hf] at h; cases h
    | ok v2 =>
    rw [hf] at h
    cases h
    have hus : ∀ b, (markSent v2 b).state = v2.state ∧ (markSent v2 b).snd = v2.snd ∧
        (markSent v2 b).incoming = v2.incoming := by
      intro b; unfold markSent; dsimp only; cases b <;> exact ⟨rfl, rfl, rfl⟩
    rw [(hus _).1] at hu
    obtain ⟨hvs, hvi⟩ := segmentizeIfOpen_state _ _ hv
    have hts : t.state = .SynSent := by rw [← hu, finIfPending_state _ _ _ hf, hvs]; rfl
    -- in SYN-SENT no FIN is pending
    have hfp : t.finPending = false := by unfold Tcb.finPending; rw [hts]; rfl
    rw [hfp] at hf
    have hv2 : v2 = v := by
      unfold Tcb.finIfPending at hf
      rw [if_neg Bool.false_ne_true] at hf
      cases hf; rfl
    subst hv2
    obtain ⟨_, _, hw⟩ := hF hts
    refine ⟨hts, ?_, ?_⟩
    · rw [(hus _).2.1]
      -- in SYN-SENT with a zero window nothing is segmentized
      by_cases hm : (clearOneshot t).mtu.toNat < SPACE_FOR_HEADERS
      · unfold Tcb.segmentizeIfOpen at hv
        have : (clearOneshot t).state = .SynSent := hts
        rw [this] at hv
        dsimp only at hv
        rw [if_pos hm] at hv
        cases hv
      · rw [segmentizeIfOpen_synSent (clearOneshot t) hts hw hm] at hv
        cases hv; rfl
    · rw [(hus _).2.2, hvi]; rfl

/-! ## the invariant of the system, and the run theorem from the genuine exclusions only -/

def SysInv (s : Sys) : Prop := ∀ x t, (s.side x).tcb = some t → TcbFresh t x

theorem sysInv_init : SysInv {} := by
  intro x t h
  cases x <;> cases h

theorem side_setSide_same (s : Sys) (x : SideId) (sd : Side) : (s.setSide x sd).side x = sd := by
  cases x <;> rfl

theorem side_setSide_other (s : Sys) (x y : SideId) (sd : Side) (h : y ≠ x) : (s.setSide x sd).side y = s.side y := by
  cases x <;> cases y <;> first | rfl | exact absurd rfl h

theorem side_record (s : Sys) (segs : List Segment) (y : SideId) : (s.record segs).side y = s.side y := by
  cases y <;> rfl

/-- replacing the TCB of side `x` by one that is `TcbFresh` (or by none) keeps the invariant -/
theorem sysInv_setSide (s : Sys) (x : SideId) (sd : Side) (hi : SysInv s)
    (h : ∀ t, sd.tcb = some t → TcbFresh t x) : SysInv (s.setSide x sd) := by
  intro y t ht
  by_cases hy : y = x
  · subst hy
    rw [side_setSide_same] at ht
    exact h t ht
  · rw [side_setSide_other s x y sd hy] at ht
    exact hi y t ht

theorem sysInv_record (s : Sys) (segs : List Segment) (hi : SysInv s) : SysInv (s.record segs) := by
  intro y t ht
  rw [side_record] at ht
  exact hi y t ht

theorem portsOk_empty (t : Tcb) (p : U16) (h1 : t.localPort = p) (h2 : t.outgoing.oneshot = [])
    (h3 : t.outgoing.retransmit = []) : PortsOk t p :=
  ⟨h1, (fun _ hh => by rw [h2] at hh; cases hh), (fun _ hh => by rw [h3] at hh; cases hh)⟩

theorem tcbOk_open (x : SideId) (iss : Seq) (mtu : U16) (t : Tcb)
    (h : Tcb.open x.port x.peer.port iss mtu = .ok t) : TcbFresh t x := by
  unfold Tcb.open at h
  simp only [Tcb.enqueue_eq] at h
  cases h
  refine ⟨fun _ => ?_, fun _ => ?_, (portsOk_empty _ _ rfl rfl rfl).of_keep (keep_enqueueBuilt _ _ rfl)⟩
  · rw [(Tcb.enqueueBuilt_frame _ _).2.2.1]; exact ⟨rfl, rfl, rfl⟩
  · rw [(Tcb.enqueueBuilt_frame _ _).2.2.2.1]

theorem tcbOk_listen (x : SideId) (seg : Segment) (iss : Seq) (mtu : U16) (t : Tcb)
    (hd : seg.hdr.dstPort = x.port)
    (h : segmentArrivesListen seg iss mtu = .ok (some (.Tcb t))) : TcbFresh t x := by
  unfold segmentArrivesListen at h
  simp only [Tcb.enqueue_eq, Hdr.build_zero, Option.map_some] at h
  repeat' (split at h)
  all_goals first
    | (cases h; done)
    | skip
  cases h
  refine ⟨fun hs => ?_, fun hs => ?_, ?_⟩
  · rw [(Tcb.enqueueBuilt_frame _ _).2.2.2.2.1] at hs; cases hs
  · rw [(Tcb.enqueueBuilt_frame _ _).2.2.2.2.1] at hs; cases hs
  · exact ((portsOk_empty _ _ hd rfl rfl).of_keep (keep_enqueueBuilt _ _ rfl)).of_keep
      (PortsKeep.of_eq rfl rfl rfl)


/-- the genuine exclusions for a segment arriving at side `x`: it is addressed to `x` and comes
    from the peer's port; CLOSED (neither a TCB nor a LISTEN binding): not the `SEQ = 0` reset.
    Nothing is asked when the segment meets a TCB or a LISTEN binding. -/
def ArrExcl (s : Sys) (x : SideId) (seg : Segment) : Prop :=
  seg.hdr.srcPort = x.peer.port ∧ seg.hdr.dstPort = x.port ∧
  match (s.side x).tcb with
  | some _ => True
  | none =>
    match (s.side x).listen with
    | some _ => True
    | none => seg.hdr.ctl.rst = true ∨ seg.hdr.ctl.ack = true

def Excl (s : Sys) (op : Op) : Prop :=
  match op with
  | .deliver x i => ∀ seg, s.nth i = some seg → ArrExcl s x seg
  | .inject x seg => ArrExcl s x seg
  | _ => True

theorem arrOk_of_excl (s : Sys) (x : SideId) (seg : Segment) (hi : SysInv s) (he : ArrExcl s x seg) :
    ArrOk s x seg := by
  obtain ⟨h1, h2, h3⟩ := he
  refine ⟨h1, h2, ?_⟩
  cases ht : (s.side x).tcb with
  | none => rw [ht] at h3; exact h3
  | some t =>
    rw [ht] at h3
    have ok := hi x t ht
    exact ⟨ok.fresh, ok.idle⟩

theorem adm_of_excl (s : Sys) (op : Op) (hi : SysInv s) (he : Excl s op) : Adm s op := by
  cases op with
  | deliver x i => exact fun seg hn => arrOk_of_excl s x seg hi (he seg hn)
  | inject x seg => exact arrOk_of_excl s x seg hi he
  | emit x =>
    intro t ht
    have ok := hi x t ht
    exact ⟨fun hs => (ok.fresh hs).2.2, fun u segs hsg => (ports_segments t u segs x.port ok.ports hsg).2⟩
  | _ => trivial

theorem sysInv_arrive (s s' : Sys) (x : SideId) (seg : Segment) (r : Res) (hi : SysInv s)
    (hd : seg.hdr.dstPort = x.port) (h : s.arrive x seg = .ok (s', r)) : SysInv s' := by
  unfold Sys.arrive at h
  dsimp only at h
  cases ht : (s.side x).tcb with
  | some t =>
    rw [ht] at h
    dsimp only at h
    have ok := hi x t ht
    cases hsa : t.segmentArrives seg with
    | error e => rw [hsa] at h; cases h
    | ok q =>
      obtain ⟨u, res⟩ := q
      rw [hsa] at h
      cases res with
      | Ok =>
        cases h
        refine sysInv_setSide s x _ hi (fun t' e => ?_)
        cases e
        exact ok.step (freshKeep_segmentArrives t u seg ok.idle hsa) (keep_segmentArrives t u seg _ hsa)
      | Close =>
        cases h
        exact sysInv_setSide s x _ hi (fun t' e => by cases e)
  | none =>
    rw [ht] at h
    dsimp only at h
    cases hl : (s.side x).listen with
    | some p =>
      rw [hl] at h
      dsimp only at h
      cases hres : segmentArrivesListen seg p.1 p.2 with
      | error e => rw [hres] at h; cases h
      | ok o =>
        rw [hres] at h
        cases o with
        | none => cases h; exact hi
        | some lr =>
          cases lr with
          | Tcb t =>
            cases h
            refine sysInv_setSide s x _ hi (fun t' e => ?_)
            cases e
            exact tcbOk_listen x seg p.1 p.2 t hd hres
          | Response hd' => cases h; exact sysInv_record s _ hi
    | none =>
      rw [hl] at h
      dsimp only at h
      split at h
      · cases h; exact hi
      · cases h; exact sysInv_record s _ hi

theorem sysInv_step (s s' : Sys) (op : Op) (r : Res) (hi : SysInv s) (ha : Adm s op)
    (h : s.step op = .ok (s', r)) : SysInv s' := by
  cases op with
  | «open» x iss mtu =>
    simp only [Sys.step, Op.side] at h
    cases ho : Tcb.open x.port x.peer.port iss mtu with
    | error e => rw [ho] at h; cases h
    | ok t =>
      rw [ho] at h
      cases h
      refine sysInv_setSide s x _ hi (fun t' e => ?_)
      cases e
      exact tcbOk_open x iss mtu t ho
  | listen x iss mtu =>
    simp only [Sys.step, Op.side] at h
    cases h
    exact sysInv_setSide s x _ hi (fun t' e => hi x t' e)
  | deliver x i =>
    simp only [Sys.step, Op.side] at h
    cases hn : s.nth i with
    | none => rw [hn] at h; cases h; exact hi
    | some seg =>
      rw [hn] at h
      exact sysInv_arrive s s' x seg r hi (ha seg hn).2.1 h
  | inject x seg =>
    simp only [Sys.step, Op.side] at h
    exact sysInv_arrive s s' x seg r hi ha.2.1 h
  | drop x =>
    simp only [Sys.step, Op.side] at h
    cases h
    exact sysInv_setSide s x _ hi (fun t' e => by cases e)
  | write x bytes =>
    simp only [Sys.step, Op.side] at h
    cases ht : (s.side x).tcb with
    | none => rw [ht] at h; cases h; exact hi
    | some t =>
      rw [ht] at h
      cases h
      refine sysInv_setSide s x _ hi (fun t' e => ?_)
      cases e
      exact (hi x t ht).step (freshKeep_send t bytes) (keep_send t bytes)
  | read x =>
    simp only [Sys.step, Op.side] at h
    cases ht : (s.side x).tcb with
    | none => rw [ht] at h; cases h; exact hi
    | some t =>
      rw [ht] at h
      cases h
      refine sysInv_setSide s x _ hi (fun t' e => ?_)
      cases e
      exact (hi x t ht).step (freshKeep_receive t) (keep_receive t)
  | tick x ms =>
    simp only [Sys.step, Op.side] at h
    cases ht : (s.side x).tcb with
    | none => rw [ht] at h; cases h; exact hi
    | some t =>
      rw [ht] at h
      dsimp only at h
      cases hx : t.advanceTime ms with
      | error e => rw [hx] at h; cases h
      | ok q =>
        obtain ⟨u, res⟩ := q
        rw [hx] at h
        cases res with
        | Ignore =>
          cases h
          refine sysInv_setSide s x _ hi (fun t' e => ?_)
          cases e
          exact (hi x t ht).step (freshKeep_advanceTime t u ms _ hx) (keep_advanceTime t u ms _ hx)
        | CloseConnection =>
          cases h
          exact sysInv_setSide s x _ hi (fun t' e => by cases e)
  | emit x =>
    simp only [Sys.step, Op.side] at h
    cases ht : (s.side x).tcb with
    | none => rw [ht] at h; cases h; exact hi
    | some t =>
      rw [ht] at h
      dsimp only at h
      cases hx : t.segments with
      | error e => rw [hx] at h; cases h
      | ok q =>
        obtain ⟨u, segs⟩ := q
        rw [hx] at h
        cases h
        refine sysInv_record _ _ (sysInv_setSide s x _ hi (fun t' e => ?_))
        cases e
        have ok := hi x t ht
        have fk := freshKeep_segments t u segs ok.fresh hx
        exact ⟨(fun hu => by obtain ⟨hs, e, _⟩ := fk hu; rw [e]; exact ok.fresh hs),
          (fun hu => by obtain ⟨hs, _, e⟩ := fk hu; rw [e]; exact ok.idle hs),
          (ports_segments t u segs x.port ok.ports hx).1⟩
  | close x =>
    simp only [Sys.step, Op.side] at h
    cases ht : (s.side x).tcb with
    | none => rw [ht] at h; cases h; exact hi
    | some t =>
      rw [ht] at h
      dsimp only at h
      cases hx : t.close with
      | error e => rw [hx] at h; cases h
      | ok q =>
        obtain ⟨u, res⟩ := q
        rw [hx] at h
        cases h
        refine sysInv_setSide s x _ hi (fun t' e => ?_)
        cases e
        exact (hi x t ht).step (freshKeep_close t u _ hx) (keep_close t u _ hx)
  | abort x =>
    simp only [Sys.step, Op.side] at h
    cases ht : (s.side x).tcb with
    | none => rw [ht] at h; cases h; exact hi
    | some t =>
      rw [ht] at h
      dsimp only at h
      cases hx : t.abort with
      | error e => rw [hx] at h; cases h
      | ok u =>
        rw [hx] at h
        cases h
        refine sysInv_setSide s x _ hi (fun t' e => ?_)
        cases e
        exact (hi x t ht).step (freshKeep_abort t u hx) (keep_abort t u hx)


/-- every op of the run meets the genuine exclusions only (evaluated along the original run) -/
def RunExcl : Sys → List Op → Prop
  | _, [] => True
  | s, op :: ops => Excl s op ∧ ∀ s' r, s.step op = .ok (s', r) → RunExcl s' ops

theorem runAdm_of_excl (s : Sys) (ops : List Op) (hi : SysInv s) (h : RunExcl s ops) : RunAdm s ops := by
  induction ops generalizing s with
  | nil => trivial
  | cons op ops ih =>
    obtain ⟨h1, h2⟩ := h
    have ha := adm_of_excl s op hi h1
    exact ⟨ha, fun s' r hs => ih s' (sysInv_step s s' op r hi ha hs) (h2 s' r hs)⟩

/-! ## an executable check of `RunExcl` (for concrete runs) -/

def arrExclB (s : Sys) (x : SideId) (seg : Segment) : Bool :=
  seg.hdr.srcPort == x.peer.port && seg.hdr.dstPort == x.port &&
  match (s.side x).tcb with
  | some _ => true
  | none =>
    match (s.side x).listen with
    | some _ => true
    | none => seg.hdr.ctl.rst || seg.hdr.ctl.ack

def exclB (s : Sys) (op : Op) : Bool :=
  match op with
  | .deliver x i =>
    match s.nth i with
    | some seg => arrExclB s x seg
    | none => true
  | .inject x seg => arrExclB s x seg
  | _ => true

def runExclB : Sys → List Op → Bool
  | _, [] => true
  | s, op :: ops =>
    exclB s op &&
    match s.step op with
    | .ok (s', _) => runExclB s' ops
    | .error _ => true

theorem arrExcl_of_B (s : Sys) (x : SideId) (seg : Segment) (h : arrExclB s x seg = true) : ArrExcl s x seg := by
  unfold arrExclB at h
  simp only [Bool.and_eq_true, beq_iff_eq] at h
  obtain ⟨⟨h1, h2⟩, h3⟩ := h
  refine ⟨h1, h2, ?_⟩
  cases ht : (s.side x).tcb with
  | some t => trivial
  | none =>
    rw [ht] at h3
    dsimp only at h3 ⊢
    cases hl : (s.side x).listen with
    | some p => trivial
    | none =>
      rw [hl] at h3
      dsimp only at h3 ⊢
      simpa using h3

theorem excl_of_B (s : Sys) (op : Op) (h : exclB s op = true) : Excl s op := by
  cases op with
  | deliver x i =>
    intro seg hn
    simp only [exclB, hn] at h
    exact arrExcl_of_B s x seg h
  | inject x seg => exact arrExcl_of_B s x seg h
  | _ => trivial

theorem runExcl_of_B (s : Sys) (ops : List Op) (h : runExclB s ops = true) : RunExcl s ops := by
  induction ops generalizing s with
  | nil => trivial
  | cons op ops ih =>
    unfold runExclB at h
    simp only [Bool.and_eq_true] at h
    refine ⟨excl_of_B s op h.1, fun s' r hs => ?_⟩
    have h2 := h.2
    rw [hs] at h2
    exact ih s' h2

end Elvis.Tcp
