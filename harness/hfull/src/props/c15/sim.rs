//! Real simulations: one DHCP server, N clients started together.
use elvis::{applications::dhcp_server::DhcpServer, ip_generator::IpRange};
use elvis_core::{
    new_machine_arc,
    protocols::{
        dhcp::dhcp_client::DhcpClient,
        ipv4::{Ipv4, Ipv4Address, Recipient},
        udp::Udp,
        Arp, Pci,
    },
    network::{VerifFrameEventKind, VerifFramePlan},
    run_internet_with_timeout, IpTable, Network,
};
use std::sync::atomic::{AtomicU64, Ordering};
use std::sync::Arc;
use hcommon::*;
use std::time::Duration;

/// one simulation; returns (status, per-client address)
pub fn one_sim(n: usize, pool: (u32, u32), workers: usize, hook_seed: Option<u64>) -> (String, Vec<Option<u32>>) {
    let rt = if workers == 0 {
        tokio::runtime::Builder::new_current_thread().enable_all().start_paused(true).build().unwrap()
    } else {
        tokio::runtime::Builder::new_multi_thread().worker_threads(workers).enable_all().build().unwrap()
    };
    rt.block_on(async move {
        let network = Network::basic();
        if let Some(seed) = hook_seed {
            // every frame (ARP and IPv4 alike) is delivered at once, delayed (reordering) or duplicated
            let ctr = Arc::new(AtomicU64::new(0));
            network.verif_set_hook(Some(Arc::new(move |ev| {
                if ev.kind != VerifFrameEventKind::Send {
                    return VerifFramePlan::Deliver;
                }
                let k = ctr.fetch_add(1, Ordering::SeqCst);
                let mut r = Rng::new(seed ^ k.wrapping_mul(0x9E37_79B9_7F4A_7C15));
                match r.below(10) {
                    0..=3 => VerifFramePlan::Deliver,
                    4..=7 => VerifFramePlan::Delay(Duration::from_millis(r.below(40))),
                    _ => VerifFramePlan::Duplicate(Duration::from_millis(r.below(40))),
                }
            })));
        }
        let server_ip = Ipv4Address::new([123, 123, 123, 123]);
        let ip_table: IpTable<Recipient> = [("0.0.0.0/0", Recipient::new(0, None))].into_iter().collect();
        let mut machines = vec![new_machine_arc![
            Udp::new(),
            Ipv4::new(ip_table.clone()),
            Pci::new([network.clone()]),
            Arp::new(),
            DhcpServer::new(server_ip, IpRange::new(pool.0.into(), pool.1.into())),
        ]];
        for _ in 0..n {
            machines.push(new_machine_arc![
                Udp::new(),
                Ipv4::new(ip_table.clone()),
                Pci::new([network.clone()]),
                Arp::new(),
                DhcpClient::new(server_ip),
            ]);
        }
        let status = run_internet_with_timeout(&machines, if workers == 0 { Duration::from_secs(2) } else { Duration::from_millis(300) }).await;
        let ips = machines
            .iter()
            .skip(1)
            .map(|m| m.protocol::<DhcpClient>().unwrap().ip_address.read().unwrap().map(|a| a.to_u32()))
            .collect();
        (format!("{:?}", status), ips)
    })
}

/// parameters of simulation number `idx` of a run (same function in parent and child)
fn params(seed: u64, idx: u64) -> (usize, (u32, u32), usize, Option<u64>) {
    let mut r = Rng::new(seed ^ idx.wrapping_mul(0x9E37_79B9_7F4A_7C15));
    let n = if idx < 16 { idx as usize + 1 } else { r.range(1, 16) as usize };
    let size = match r.below(4) {
        0 => n as u64,
        1 => n as u64 + 1,
        2 => n as u64 + r.range(2, 20),
        _ => 255,
    };
    let start: u64 = match r.below(5) {
        0 => 0xFFFF_FFFF - (size - 1),
        1 => 1,
        _ => 0x0A00_0000 + r.below(5000),
    };
    // every fifth simulation on a real multi-thread runtime (real time, short timeout)
    let workers = if idx % 5 == 4 { *r.pick(&[2usize, 4]) } else { 0 };
    // two of five (paused runtime only) over a hooked network: per-frame delay (reordering) and
    // duplication; duplicated Discovers burn addresses, so these use the large pool
    if idx % 5 == 1 || idx % 5 == 3 {
        let start = if start + 254 > 0xFFFF_FFFF { 0xFFFF_FFFF - 254 } else { start };
        return (n, (start as u32, (start + 254) as u32), 0, Some(seed ^ idx));
    }
    (n, (start as u32, (start + size - 1) as u32), workers, None)
}

/// hidden sub-command: run simulations `first .. first+count`, one flushed line each
pub fn child(args: &Args) {
    use std::io::Write;
    let first: u64 = args.extra.get("first").and_then(|s| s.parse().ok()).unwrap_or(0);
    let count: u64 = args.extra.get("count").and_then(|s| s.parse().ok()).unwrap_or(1);
    for idx in first..first + count {
        let (n, pool, workers, hook) = params(args.seed, idx);
        println!("begin {}", idx);
        std::io::stdout().flush().unwrap();
        let (st, ips) = one_sim(n, pool, workers, hook);
        let ips: Vec<String> = ips.iter().map(|a| a.map(|x| x.to_string()).unwrap_or("-".into())).collect();
        println!("done {} {} {}", idx, st, ips.join(","));
        std::io::stdout().flush().unwrap();
    }
}

pub fn run(args: &Args) {
    let mut out = Out::new(&args.out);
    let rule = "real simulations (run_internet, Network::basic): one DhcpServer and n DhcpClients (n = 1..16, the first 16 simulations use every n once) started together; pool size n, n+1, n+2..20 or 255, also ending at 255.255.255.255; 4 of 5 on a paused current_thread runtime (half of those over a hooked network that delays = reorders and duplicates frames at random), 1 of 5 on a multi_thread runtime with 2 or 4 workers; oracle: every client got an address, all inside the pool, pairwise distinct; non-trivial if n >= 2";
    let exe = std::env::current_exe().unwrap();
    let total = args.cases;
    let batch = 8u64;
    let mut next = 0u64;
    while next < total {
        let count = batch.min(total - next);
        let o = std::process::Command::new(&exe)
            .args(["c15-simchild", "--seed", &args.seed.to_string(), "--first", &next.to_string(), "--count", &count.to_string()])
            .output()
            .expect("spawn child");
        let text = String::from_utf8_lossy(&o.stdout).to_string();
        let mut done: std::collections::BTreeMap<u64, (String, Vec<Option<u32>>)> = Default::default();
        let mut begun: Vec<u64> = vec![];
        for l in text.lines() {
            let w: Vec<&str> = l.split_whitespace().collect();
            match w.as_slice() {
                ["begin", i] => begun.push(i.parse().unwrap_or(0)),
                ["done", i, st, ips] => {
                    let v = ips.split(',').map(|x| x.parse::<u32>().ok()).collect();
                    done.insert(i.parse().unwrap_or(0), (st.to_string(), v));
                }
                _ => {}
            }
        }
        let mut resume = next + count;
        for idx in next..next + count {
            let (n, pool, workers, hook) = params(args.seed, idx);
            let op = format!("sim {} {} {} {} {}", n, pool.0, pool.1, workers, if hook.is_some() { "hooked" } else { "plain" });
            out.count(if hook.is_some() { "network.hooked" } else { "network.plain" });
            out.begin_case(idx);
            out.count(&format!("clients.{:02}", n));
            out.count(&format!("workers.{}", workers));
            if n >= 2 {
                out.mark_nontrivial();
            }
            match done.get(&idx) {
                Some((st, ips)) => {
                    let shown: Vec<String> = ips.iter().map(|a| a.map(|x| x.to_string()).unwrap_or("-".into())).collect();
                    out.line(&op, &format!("{} {}", st, shown.join(",")));
                    let mut seen = std::collections::BTreeMap::new();
                    for (c, a) in ips.iter().enumerate() {
                        match a {
                            None => out.fail(&format!("`{}`: client {} never learned an address ({})", op, c, shown.join(",")), "sim no-address"),
                            Some(a) => {
                                if *a < pool.0 || *a > pool.1 {
                                    out.fail(&format!("`{}`: client {} got {} outside the pool", op, c, a), "sim outside-pool");
                                }
                                if let Some(o) = seen.insert(*a, c) {
                                    out.fail(&format!("`{}`: clients {} and {} both got {}", op, o, c, a), "sim double-lease");
                                }
                            }
                        }
                    }
                    if ips.len() != n {
                        out.fail(&format!("`{}`: {} clients reported", op, ips.len()), "sim client-count");
                    }
                }
                None if begun.contains(&idx) => {
                    // the child died inside this simulation (a panic anywhere exits the process)
                    let err = String::from_utf8_lossy(&o.stderr);
                    let tail: String = err.lines().rev().take(3).collect::<Vec<_>>().join(" | ");
                    out.line(&op, "died");
                    out.fail(&format!("`{}`: the simulation process died: {}", op, tail), "sim died");
                    resume = idx + 1;
                    out.end_case();
                    break;
                }
                None => {
                    out.line(&op, "not-run");
                    resume = idx;
                    out.end_case();
                    break;
                }
            }
            out.end_case();
        }
        if resume == next {
            // child produced nothing at all: avoid looping forever
            out.notes.push(format!("child produced no output for simulation {}", next));
            resume = next + 1;
        }
        next = resume;
    }
    out.finish(rule);
}
