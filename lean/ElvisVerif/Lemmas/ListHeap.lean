import ElvisVerif.Base.ListHeap
/-!
# Facts about the `BinaryHeap` model that hold for ANY comparison `le`

`push` and `pop` only permute: nothing is lost, duplicated or invented, whatever the order
(the TCB's circular order is not transitive).  `pop` returns the element `peek` shows.
-/
namespace Elvis.LHeap
variable {α : Type}

theorem swap_perm (l : List α) (i j : Nat) : (swap l i j).Perm l := by
  unfold swap
  split
  · rename_i h
    exact List.set_set_perm h.1 h.2
  · exact List.Perm.refl _

theorem swap_length (l : List α) (i j : Nat) : (swap l i j).length = l.length :=
  (swap_perm l i j).length_eq

theorem siftUpAux_perm (le : α → α → Bool) (start : Nat) (fuel : Nat) (l : List α) (pos : Nat) :
    (siftUpAux le start fuel l pos).Perm l := by
  induction fuel generalizing l pos with
  | zero => exact List.Perm.refl _
  | succ n ih =>
    unfold siftUpAux
    split
    · simp only
      split
      · split
        · exact List.Perm.refl _
        · exact (ih _ _).trans (swap_perm _ _ _)
      · exact List.Perm.refl _
    · exact List.Perm.refl _

theorem siftUp_perm (le : α → α → Bool) (l : List α) (start pos : Nat) :
    (siftUp le l start pos).Perm l := siftUpAux_perm le start pos l pos

theorem siftDownAux_perm (le : α → α → Bool) (fuel : Nat) (l : List α) (pos : Nat) :
    (siftDownAux le fuel l pos).1.Perm l := by
  induction fuel generalizing l pos with
  | zero => exact List.Perm.refl _
  | succ n ih =>
    unfold siftDownAux
    simp only
    split
    · split
      · exact (ih _ _).trans (swap_perm _ _ _)
      · exact List.Perm.refl _
    · split
      · exact swap_perm _ _ _
      · exact List.Perm.refl _

theorem siftDownToBottom_perm (le : α → α → Bool) (l : List α) (pos : Nat) :
    (siftDownToBottom le l pos).Perm l := by
  unfold siftDownToBottom
  exact (siftUp_perm _ _ _ _).trans (siftDownAux_perm _ _ _ _)

/-- `push` adds exactly the pushed element -/
theorem push_perm (le : α → α → Bool) (l : List α) (x : α) : (push le l x).Perm (x :: l) := by
  unfold push
  exact (siftUp_perm _ _ _ _).trans (List.perm_append_comm)

theorem push_length (le : α → α → Bool) (l : List α) (x : α) : (push le l x).length = l.length + 1 := by
  rw [(push_perm le l x).length_eq]; rfl

theorem mem_push {le : α → α → Bool} {l : List α} {x y : α} : y ∈ push le l x ↔ y = x ∨ y ∈ l := by
  rw [(push_perm le l x).mem_iff]; simp

/-- `pop` removes exactly the returned element -/
theorem pop_perm (le : α → α → Bool) (l : List α) (t : α) (r : List α)
    (h : pop le l = (some t, r)) : (t :: r).Perm l := by
  unfold pop at h
  split at h
  · simp at h
  · rename_i last hlast
    have hl : l = l.dropLast ++ [last] := by
      obtain ⟨ys, rfl⟩ := List.getLast?_eq_some_iff.1 hlast
      simp
    split at h
    · rename_i hd
      simp only [Prod.mk.injEq, Option.some.injEq] at h
      obtain ⟨rfl, rfl⟩ := h
      rw [hl, hd]; simp
    · rename_i top rest hd
      simp only [Prod.mk.injEq, Option.some.injEq] at h
      obtain ⟨rfl, rfl⟩ := h
      rw [hl, hd]
      have := siftDownToBottom_perm le (last :: rest) 0
      refine (List.Perm.cons _ this).trans ?_
      simp only [List.cons_append]
      refine List.Perm.cons _ ?_
      exact (List.perm_append_comm (l₁ := [last]) (l₂ := rest))

theorem mem_of_mem_pop {le : α → α → Bool} {l : List α} {t : α} {r : List α}
    (h : pop le l = (some t, r)) : t ∈ l ∧ ∀ y ∈ r, y ∈ l := by
  have hp := pop_perm le l t r h
  exact ⟨hp.mem_iff.1 (by simp), fun y hy => hp.mem_iff.1 (by simp [hy])⟩

theorem pop_length {le : α → α → Bool} {l : List α} {t : α} {r : List α}
    (h : pop le l = (some t, r)) : r.length + 1 = l.length := by
  have := (pop_perm le l t r h).length_eq
  simpa using this

/-- `pop` returns what `peek` shows -/
theorem pop_fst (le : α → α → Bool) (l : List α) : (pop le l).1 = peek l := by
  unfold pop peek
  cases l with
  | nil => simp
  | cons a t =>
    cases t with
    | nil => simp
    | cons b u =>
      have : (a :: b :: u).getLast? = some ((b :: u).getLast (by simp)) := by
        simp [List.getLast?_eq_some_getLast]
      rw [this]
      simp [List.dropLast]

theorem pop_of_peek {le : α → α → Bool} {l : List α} {t : α} (h : peek l = some t) :
    ∃ r, pop le l = (some t, r) := by
  have := pop_fst le l
  rw [h] at this
  exact ⟨(pop le l).2, by rw [← this]⟩

end Elvis.LHeap
