import ElvisVerif.Lemmas.C01Sys
/-!
# C01 — runs of the closed system: monotone ghost logs, `RunOk`, `run_inv`

* the submitted logs only grow along any step (so a bound on the final logs bounds every
  intermediate state: H31 can be stated once, for the whole run);
* `RunOk iss s ops`: every op of the run is one of the ops of the C01 statement (`OpOk`) in the
  state in which it is executed; `runOkB` is its executable form (for the non-vacuity examples);
* `run_inv`: the invariant holds after every panic-free run.
-/
namespace Elvis.Tcp.C01
open Elvis.ModCmp Elvis.Tcp.Tcb

/-! ## the submitted logs only grow -/

theorem setSide_pre (s : Sys) (x : SideId) (v : Side) (hv : (s.side x).submitted <+: v.submitted) (y : SideId) :
    (s.side y).submitted <+: ((s.setSide x v).side y).submitted := by
  cases x <;> cases y <;> first | exact hv | exact List.prefix_refl _

theorem arrive_sub {s s' : Sys} {x : SideId} {g : Segment} {r : Res} (e : s.arrive x g = .ok (s', r)) (y : SideId) :
    (s.side y).submitted <+: (s'.side y).submitted := by
  unfold Sys.arrive at e
  dsimp only at e
  repeat' split at e
  all_goals cases e
  all_goals first
    | exact List.prefix_refl _
    | (refine setSide_pre _ _ _ ?_ _; exact List.prefix_refl _)
    | (rw [side_record]; exact List.prefix_refl _)

theorem step_sub {s s' : Sys} {op : Op} {r : Res} (e : s.step op = .ok (s', r)) (y : SideId) :
    (s.side y).submitted <+: (s'.side y).submitted := by
  cases op
  case deliver x i =>
    simp only [Sys.step, Op.side] at e
    split at e
    · cases e; exact List.prefix_refl _
    · exact arrive_sub e y
  case inject x g =>
    simp only [Sys.step, Op.side] at e
    exact arrive_sub e y
  all_goals
    simp only [Sys.step, Op.side] at e
    repeat' split at e
    all_goals cases e
    all_goals first
      | exact List.prefix_refl _
      | (refine setSide_pre _ _ _ ?_ _; exact List.prefix_refl _)
      | (refine setSide_pre _ _ _ ?_ _; exact List.prefix_append _ _)
      | (rw [side_record]; (refine setSide_pre _ _ _ ?_ _; exact List.prefix_refl _))

theorem run_sub {s s' : Sys} {ops : List Op} {rs : List Res} (e : s.run ops = .ok (s', rs)) (y : SideId) :
    (s.side y).submitted <+: (s'.side y).submitted := by
  induction ops generalizing s rs with
  | nil => unfold Sys.run at e; cases e; exact List.prefix_refl _
  | cons op ops ih =>
    unfold Sys.run at e
    split at e
    · cases e
    · rename_i s1 r1 h1
      split at e
      · cases e
      · rename_i s2 rs2 h2
        cases e
        exact (step_sub h1 y).trans (ih h2)

theorem Lt31.of_run {s s' : Sys} {ops : List Op} {rs : List Res} (e : s.run ops = .ok (s', rs)) (h : Lt31 s') :
    Lt31 s :=
  ⟨Nat.lt_of_le_of_lt (run_sub e .A).length_le h.1, Nat.lt_of_le_of_lt (run_sub e .B).length_le h.2⟩


/-! ## H31 from the op list: the bytes written bound the submitted logs -/

/-- total size of the `write x` ops of a list -/
def writeBytes (x : SideId) : List Op → Nat
  | [] => 0
  | .write y b :: ops => (if y = x then b.length else 0) + writeBytes x ops
  | _ :: ops => writeBytes x ops

theorem setSide_eq (s : Sys) (x : SideId) (v : Side) (hv : v.submitted = (s.side x).submitted) (y : SideId) :
    ((s.setSide x v).side y).submitted = (s.side y).submitted := by
  cases x <;> cases y <;> first | exact hv | rfl

theorem arrive_sub_eq {s s' : Sys} {x : SideId} {g : Segment} {r : Res} (e : s.arrive x g = .ok (s', r))
    (y : SideId) : (s'.side y).submitted = (s.side y).submitted := by
  unfold Sys.arrive at e
  dsimp only at e
  repeat' split at e
  all_goals cases e
  all_goals first
    | rfl
    | (refine setSide_eq _ _ _ ?_ _; rfl)
    | (rw [side_record])

/-- only `write` changes a submitted log -/
theorem step_sub_eq {s s' : Sys} {op : Op} {r : Res} (hnw : ∀ x b, op ≠ .write x b)
    (e : s.step op = .ok (s', r)) (y : SideId) : (s'.side y).submitted = (s.side y).submitted := by
  cases op
  case write x b => exact absurd rfl (hnw x b)
  case deliver x i =>
    simp only [Sys.step, Op.side] at e
    split at e
    · cases e; rfl
    · exact arrive_sub_eq e y
  case inject x g =>
    simp only [Sys.step, Op.side] at e
    exact arrive_sub_eq e y
  all_goals
    simp only [Sys.step, Op.side] at e
    repeat' split at e
    all_goals cases e
    all_goals first
      | rfl
      | (refine setSide_eq _ _ _ ?_ _; rfl)
      | (rw [side_record]; refine setSide_eq _ _ _ ?_ _; rfl)

theorem step_len {s s' : Sys} {op : Op} {r : Res} (e : s.step op = .ok (s', r)) (y : SideId) :
    (s'.side y).submitted.length ≤ (s.side y).submitted.length + writeBytes y [op] := by
  by_cases hw : ∃ x b, op = .write x b
  · obtain ⟨x, b, rfl⟩ := hw
    simp only [Sys.step, Op.side] at e
    split at e
    · cases e; exact Nat.le_add_right _ _
    · rename_i tcb _
      cases e
      have hb : (if sendAccepts tcb.state = true then b else []).length ≤ b.length := by
        split <;> simp
      cases x <;> cases y <;>
        simp only [Sys.setSide, Sys.side, writeBytes, List.length_append, if_true, if_false, reduceCtorEq] <;> omega
  · have hnw : ∀ x b, op ≠ .write x b := fun x b h => hw ⟨x, b, h⟩
    rw [step_sub_eq hnw e y]
    exact Nat.le_add_right _ _

theorem writeBytes_cons (y : SideId) (op : Op) (ops : List Op) :
    writeBytes y (op :: ops) = writeBytes y [op] + writeBytes y ops := by
  cases op <;> simp [writeBytes]

theorem run_len {s s' : Sys} {ops : List Op} {rs : List Res} (e : s.run ops = .ok (s', rs)) (y : SideId) :
    (s'.side y).submitted.length ≤ (s.side y).submitted.length + writeBytes y ops := by
  induction ops generalizing s rs with
  | nil => unfold Sys.run at e; cases e; exact Nat.le_add_right _ _
  | cons op ops ih =>
    unfold Sys.run at e
    split at e
    · cases e
    · rename_i s1 r1 h1
      split at e
      · cases e
      · rename_i s2 rs2 h2
        cases e
        have a := step_len h1 y
        have b := ih h2
        rw [writeBytes_cons]
        omega

/-- fewer than 2^31 bytes written per side ⇒ H31 for the state any run from the empty system ends in -/
theorem Lt31.of_writes {s' : Sys} {ops : List Op} {rs : List Res} (e : Sys.run {} ops = .ok (s', rs))
    (ha : writeBytes .A ops < 2147483648) (hb : writeBytes .B ops < 2147483648) : Lt31 s' := by
  have a := run_len e .A
  have b := run_len e .B
  simp only [Sys.side, List.length_nil, Nat.zero_add] at a b
  exact ⟨by omega, by omega⟩

/-! ## runs -/

/-- every op of the run is an op of the C01 statement, in the state in which it is executed -/
def RunOk (iss : SideId → Seq) : Sys → List Op → Prop
  | _, [] => True
  | s, op :: ops => OpOk iss s op ∧ ∀ s' r, s.step op = .ok (s', r) → RunOk iss s' ops

/-- **the invariant holds after every panic-free run of C01 ops** (H31 on the final logs) -/
theorem run_inv {iss : SideId → Seq} {s s' : Sys} {ops : List Op} {rs : List Res} (h : Inv iss s)
    (hok : RunOk iss s ops) (e : s.run ops = .ok (s', rs)) (h31 : Lt31 s') : Inv iss s' := by
  induction ops generalizing s rs with
  | nil => unfold Sys.run at e; cases e; exact h
  | cons op ops ih =>
    have h31s : Lt31 s := Lt31.of_run e h31
    unfold Sys.run at e
    split at e
    · cases e
    · rename_i s1 r1 h1
      split at e
      · cases e
      · rename_i s2 rs2 h2
        cases e
        exact ih (step_inv h hok.1 h31s h1) (hok.2 s1 r1 h1) h2

theorem run_append {s s' : Sys} {a b : List Op} {rs : List Res} (e : s.run (a ++ b) = .ok (s', rs)) :
    ∃ s1 r1 r2, s.run a = .ok (s1, r1) ∧ s1.run b = .ok (s', r2) := by
  induction a generalizing s rs with
  | nil => exact ⟨s, [], rs, rfl, e⟩
  | cons op a ih =>
    rw [List.cons_append] at e
    unfold Sys.run at e
    split at e
    · cases e
    · rename_i s1 r1 h1
      split at e
      · cases e
      · rename_i s2 rs2 h2
        cases e
        obtain ⟨s3, r3, r4, e3, e4⟩ := ih h2
        refine ⟨s3, r1 :: r3, r4, ?_, e4⟩
        unfold Sys.run
        rw [h1]
        simp only [e3]

theorem RunOk.take {iss : SideId → Seq} {s : Sys} {ops : List Op} (h : RunOk iss s ops) (k : Nat) :
    RunOk iss s (ops.take k) := by
  induction ops generalizing s k with
  | nil => simpa using h
  | cons op ops ih =>
    cases k with
    | zero => trivial
    | succ k => exact ⟨h.1, fun s' r e => ih (h.2 s' r e) k⟩

/-! ## executable form of `RunOk` -/

def addressedB (x : SideId) (g : Segment) : Bool := g.hdr.srcPort == x.peer.port && g.hdr.dstPort == x.port

def pristineB (sd : Side) : Bool :=
  sd.tcb.isNone && sd.listen.isNone && sd.submitted.isEmpty && sd.delivered.isEmpty

def opOkB (iss : SideId → Seq) (s : Sys) : Op → Bool
  | .open x i _ => i == iss x && pristineB (s.side x)
  | .listen x i _ => i == iss x && pristineB (s.side x)
  | .write _ _ | .read _ | .tick _ _ | .emit _ | .drop _ => true
  | .deliver x i => match s.nth i with
    | none => true
    | some g => addressedB x g
  | .inject _ _ | .close _ | .abort _ => false

def runOkB (iss : SideId → Seq) : Sys → List Op → Bool
  | _, [] => true
  | s, op :: ops => opOkB iss s op && match s.step op with
    | .ok (s', _) => runOkB iss s' ops
    | .error _ => true

theorem pristineB_sound {sd : Side} (h : pristineB sd = true) : Pristine sd := by
  unfold pristineB at h
  simp only [Bool.and_eq_true, Option.isNone_iff_eq_none, List.isEmpty_iff] at h
  exact ⟨h.1.1.1, h.1.1.2, h.1.2, h.2⟩

theorem opOkB_sound {iss : SideId → Seq} {s : Sys} {op : Op} (h : opOkB iss s op = true) : OpOk iss s op := by
  cases op <;> simp only [opOkB, OpOk, Bool.and_eq_true, beq_iff_eq] at h ⊢
  case «open» => exact ⟨h.1, pristineB_sound h.2⟩
  case listen => exact ⟨h.1, pristineB_sound h.2⟩
  case deliver x i =>
    intro g hg
    rw [hg] at h
    simp only [addressedB, Bool.and_eq_true, beq_iff_eq] at h
    exact h
  all_goals first | trivial | cases h

theorem runOkB_sound {iss : SideId → Seq} {s : Sys} {ops : List Op} (h : runOkB iss s ops = true) :
    RunOk iss s ops := by
  induction ops generalizing s with
  | nil => trivial
  | cons op ops ih =>
    unfold runOkB at h
    rw [Bool.and_eq_true] at h
    refine ⟨opOkB_sound h.1, fun s' r e => ?_⟩
    have := h.2
    rw [e] at this
    exact ih this

end Elvis.Tcp.C01
