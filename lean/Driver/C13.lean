import ElvisVerif.Model.Sim
import Driver.Common
/-! Line-protocol handlers for C13 (sub-command `c13`). -/
namespace Driver.C13
open Elvis.Sim

def parseStatus (s : String) : Option Status :=
  if s == "exited" then some .exited
  else if s == "timedout" then some .timedOut
  else if s.startsWith "s" then (s.drop 1).toNat?.map .status
  else none

def showStatus : Status → String
  | .status n => s!"s{n}"
  | .exited => "exited"
  | .timedOut => "timedout"

def parseList (s : String) : List String := if s == "-" then [] else s.splitOn ","

def parseReq (s : String) : Option Req :=
  match s.splitOn ":" with
  | [t, st] => do pure ((← t.toNat?), (← parseStatus st))
  | _ => none

def parseRoutine (s : String) : Option Routine :=
  match s.splitOn ":" with
  | [a, b] => do pure ⟨(← a.toNat?), (← b.toNat?)⟩
  | _ => none

def showEv : Ev → String
  | .pre r => s!"p{r}"
  | .post r => s!"q{r}"

def step (_ : Unit) (ws : List String) : Unit × String :=
  match ws with
  | ["case", id] => ((), s!"case {id}")
  | "scn" :: _ => ((), "scn")
  | ["barrier", size, prog, sched] =>
    match size.toNat?, (parseList prog).mapM parseRoutine, (parseList sched).mapM (·.toNat?) with
    | some n, some p, some sc =>
      let s := run (init p n) sc
      ((), "log " ++ (if s.log.isEmpty then "-" else " ".intercalate (s.log.map showEv)))
    | _, _, _ => ((), "bad-op")
  | ["status", timeout, reqs] =>
    match (parseList reqs).mapM parseReq with
    | none => ((), "bad-op")
    | some rq =>
      let cap := Elvis.Gen.shutdownChannelCapacity
      if timeout == "-" then
        match runInternet cap rq none false with
        | some (t, s) => ((), s!"ret {t} {showStatus s}")
        | none => ((), "ret never")
      else match timeout.toNat? with
        | some d =>
          let (t, s) := runInternetWithTimeout cap rq d false
          ((), s!"ret {t} {showStatus s}")
        | none => ((), "bad-op")
  | ["statusd", timeout, reqs] =>
    -- the timeout handed to `run_internet` directly (no outer `timeout(d + 1 s)` guard)
    match (parseList reqs).mapM parseReq, timeout.toNat? with
    | some rq, some d =>
      match runInternet Elvis.Gen.shutdownChannelCapacity rq (some d) false with
      | some (t, s) => ((), s!"ret {t} {showStatus s}")
      | none => ((), "ret never")
    | _, _ => ((), "bad-op")
  | _ => ((), "bad-op")

def dispatch (sub : String) (i o : IO.FS.Stream) : Option (IO Unit) :=
  if sub == "c13" then some (Driver.loop i o step ()) else none

end Driver.C13
