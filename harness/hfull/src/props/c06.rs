//! C06: ARP resolution on the real stack (`Arp::resolve`, `Arp::demux`, `Arp::listen`,
//! `Arp::set_subnet`, `Network::send`, `Pci`).
//!
//! A case is one LAN: N machines (1..2 taps each) built by the scaffold from the real protocols,
//! addresses claimed with `Arp::listen` / `Arp::set_subnet` (before the barrier or later), k
//! resolutions started by a harness application (`Arp::resolve`, spawned so that they overlap),
//! and a fault plan over the ARP frames in send order (deliver / drop / delay / duplicate) applied
//! through the `Network::verif_set_hook` planner.  The paused-clock runtime gives exact virtual
//! times.  The globally ordered event log (claims, resolve calls, retry rounds reported by the
//! `Arp::verif_set_trace` hook, frames at send time with their fate, tap deliveries, returns) is
//! printed as op lines; the Lean driver replays them through the transition system of
//! `Model/Arp.lean`.  The native oracle evaluates the property from the configuration.
//!
//! A resolution is started either by calling `Arp::resolve` directly (`via=arp`) or THROUGH the
//! IPv4 layer, the way applications trigger it: `Ipv4::open_for_sending` (`via=ip`) or
//! `Udp::open_and_listen` (`via=udp`) on a machine whose route for the local address has no MAC.
//! The open call is treated as the resolution: it must return when, and with the outcome that,
//! the model says `resolve` returns; the MAC it resolved is read off the wire (destination of a
//! tagged datagram sent through the opened session at once).  The `kth` family drives every
//! position of the retry budget: only the k-th request/reply exchange gets through
//! (k = 1..=RESEND_TRIES) or none does, the earlier rounds losing the request or the reply.
use crate::scaffold::*;
use elvis_core::{
    network::VerifFramePlan,
    protocols::{
        arp::{
            subnetting::{Ipv4Mask, SubnetInfo},
            verif::ResolveRound,
        },
        ipv4::{Ipv4, Ipv4Address},
        AddressPair, Arp, Endpoint, Endpoints, Udp,
    },
    run_internet_with_timeout, Message, Session,
};
use hcommon::*;
use std::any::TypeId;
use std::collections::BTreeMap;
use std::future::Future;
use std::pin::Pin;
use std::sync::{Arc, Mutex};
use std::task::Poll;
use std::time::Duration;

/// retry budget as the PROPERTY states it (`RESEND_TRIES`, `RESEND_DELAY` of the anchor); the
/// harness reads the real constants so that the oracle follows an edited budget
fn tries() -> u64 {
    Arp::RESEND_TRIES as u64
}
fn delay_us() -> u64 {
    Arp::RESEND_DELAY.as_micros() as u64
}
fn budget_us() -> u64 {
    tries() * delay_us()
}

#[derive(Clone, Copy, Debug, PartialEq)]
enum Plan {
    Deliver,
    Drop,
    Delay(u64),
    Dup(u64),
}
impl Plan {
    fn show(&self) -> String {
        match self {
            Plan::Deliver => "d".into(),
            Plan::Drop => "x".into(),
            Plan::Delay(d) => format!("l{}", d),
            Plan::Dup(d) => format!("u{}", d),
        }
    }
    fn parse(s: &str) -> Option<Plan> {
        Some(match s {
            "d" => Plan::Deliver,
            "x" => Plan::Drop,
            _ if s.starts_with('l') => Plan::Delay(s[1..].parse().ok()?),
            _ if s.starts_with('u') => Plan::Dup(s[1..].parse().ok()?),
            _ => return None,
        })
    }
}

#[derive(Clone, Debug)]
struct Claim {
    m: usize,
    ip: u32,
    /// `None` = in `start()` before the barrier
    at: Option<u64>,
    /// `Some((mask bits, gateway))` = `set_subnet`, `None` = `listen`
    sub: Option<(u32, u32)>,
}

/// how a resolution is triggered
#[derive(Clone, Copy, Debug, PartialEq, Eq)]
enum Via {
    /// `Arp::resolve` called directly
    Arp,
    /// `Ipv4::open_for_sending` (route of the local address: slot, no MAC)
    Ip,
    /// `Udp::open_and_listen` (-> `Ipv4::open_and_listen` -> `open_for_sending`)
    Udp,
}
impl Via {
    fn name(self) -> &'static str {
        match self {
            Via::Arp => "arp",
            Via::Ip => "ip",
            Via::Udp => "udp",
        }
    }
    fn parse(s: &str) -> Option<Via> {
        Some(match s {
            "arp" => Via::Arp,
            "ip" => Via::Ip,
            "udp" => Via::Udp,
            _ => return None,
        })
    }
}

#[derive(Clone, Debug)]
struct Res {
    rid: usize,
    m: usize,
    local: u32,
    remote: u32,
    slot: u32,
    at: u64,
    via: Via,
}

/// what the configuration of a `kth` case prescribes for a resolution: `owner = Some(machine)` =
/// Ok with a MAC of that machine, `None` = Err; `t` = completion time (virtual us)
#[derive(Clone, Debug, PartialEq)]
struct Expect {
    rid: usize,
    owner: Option<usize>,
    t: u64,
}

#[derive(Clone, Debug)]
struct Case {
    mtu: Option<u16>,
    lat_us: u64,
    dur_us: u64,
    slots: Vec<usize>,
    claims: Vec<Claim>,
    resolves: Vec<Res>,
    /// fate of the k-th ARP frame handed to the network (frames beyond the list are delivered)
    plan: Vec<Plan>,
    /// outcomes prescribed by the configuration (the `kth` family), else empty
    expect: Vec<Expect>,
}

impl Case {
    fn to_lines(&self) -> Vec<String> {
        let mut l = vec![format!(
            "cfg net mtu={} lat={} dur={}",
            self.mtu.map(|m| m.to_string()).unwrap_or("-".into()),
            self.lat_us,
            self.dur_us
        )];
        l.push(format!("cfg machines {}", self.slots.iter().map(|s| s.to_string()).collect::<Vec<_>>().join(",")));
        for c in &self.claims {
            l.push(format!(
                "cfg claim {} {} {} {}",
                c.m,
                fmt_addr(c.ip),
                c.at.map(|t| t.to_string()).unwrap_or("pre".into()),
                c.sub.map(|(b, g)| format!("{}/{}", b, fmt_addr(g))).unwrap_or("-".into())
            ));
        }
        for r in &self.resolves {
            l.push(format!("cfg resolve {} {} {} {} {} {} {}", r.rid, r.m, fmt_addr(r.local), fmt_addr(r.remote), r.slot, r.at, r.via.name()));
        }
        for x in &self.expect {
            l.push(match x.owner {
                Some(o) => format!("cfg expect {} ok {} {}", x.rid, o, x.t),
                None => format!("cfg expect {} err {}", x.rid, x.t),
            });
        }
        l.push(format!(
            "cfg plan {}",
            if self.plan.is_empty() { "-".to_string() } else { self.plan.iter().map(|p| p.show()).collect::<Vec<_>>().join(",") }
        ));
        l
    }

    fn from_lines<'a>(lines: impl IntoIterator<Item = &'a str>) -> Option<Case> {
        let mut c = Case { mtu: None, lat_us: 0, dur_us: 0, slots: vec![], claims: vec![], resolves: vec![], plan: vec![], expect: vec![] };
        for line in lines {
            let w: Vec<&str> = line.split_whitespace().collect();
            match w.as_slice() {
                ["cfg", "net", mtu, lat, dur] => {
                    let mtu = mtu.strip_prefix("mtu=")?;
                    c.mtu = if mtu == "-" { None } else { Some(mtu.parse().ok()?) };
                    c.lat_us = lat.strip_prefix("lat=")?.parse().ok()?;
                    c.dur_us = dur.strip_prefix("dur=")?.parse().ok()?;
                }
                ["cfg", "machines", s] => c.slots = s.split(',').map(|x| x.parse().unwrap_or(1)).collect(),
                ["cfg", "claim", m, ip, at, sub] => c.claims.push(Claim {
                    m: m.parse().ok()?,
                    ip: parse_addr(ip)?,
                    at: if *at == "pre" { None } else { Some(at.parse().ok()?) },
                    sub: if *sub == "-" {
                        None
                    } else {
                        let (b, g) = sub.split_once('/')?;
                        Some((b.parse().ok()?, parse_addr(g)?))
                    },
                }),
                ["cfg", "resolve", rid, m, local, remote, slot, at, rest @ ..] => c.resolves.push(Res {
                    rid: rid.parse().ok()?,
                    m: m.parse().ok()?,
                    local: parse_addr(local)?,
                    remote: parse_addr(remote)?,
                    slot: slot.parse().ok()?,
                    at: at.parse().ok()?,
                    via: match rest {
                        [] => Via::Arp,
                        [v] => Via::parse(v)?,
                        _ => return None,
                    },
                }),
                ["cfg", "expect", rid, "ok", o, t] => c.expect.push(Expect { rid: rid.parse().ok()?, owner: Some(o.parse().ok()?), t: t.parse().ok()? }),
                ["cfg", "expect", rid, "err", t] => c.expect.push(Expect { rid: rid.parse().ok()?, owner: None, t: t.parse().ok()? }),
                ["cfg", "plan", p] => {
                    if *p != "-" {
                        c.plan = p.split(',').map(Plan::parse).collect::<Option<Vec<_>>>()?;
                    }
                }
                _ => {}
            }
        }
        if c.slots.is_empty() {
            return None;
        }
        Some(c)
    }
}

// ------------------------------------------------------------------------------------------
// execution on the real code
// ------------------------------------------------------------------------------------------

fn note(log: &Arc<Log>, s: String) {
    log.push(Ev::Note(s));
}

fn res_str(r: &Result<u64, ()>) -> String {
    match r {
        Ok(m) => format!("ok {}", m),
        Err(()) => "err".into(),
    }
}

fn custom(f: impl Fn(Ctx) -> std::pin::Pin<Box<dyn Future<Output = ()> + Send>> + Send + Sync + 'static) -> ActionKind {
    ActionKind::Custom(Arc::new(f))
}

fn claim_action(c: &Claim) -> Action {
    let c = c.clone();
    Action {
        at: c.at,
        kind: custom(move |ctx: Ctx| {
            let c = c.clone();
            Box::pin(async move {
                let arp = ctx.machine.protocol::<Arp>().expect("machine has Arp");
                match c.sub {
                    None => {
                        arp.listen(Ipv4Address::from(c.ip));
                        note(&ctx.log, format!("c06 listen {} {}", c.m, c.ip));
                    }
                    Some((bits, gw)) => {
                        arp.set_subnet(Ipv4Address::from(c.ip), SubnetInfo::new(Ipv4Mask::from_bitcount(bits), Ipv4Address::from(gw)));
                        note(&ctx.log, format!("c06 subnet {} {} {} {}", c.m, c.ip, bits, gw));
                    }
                }
            })
        }),
    }
}

fn resolve_action(r: &Res) -> Action {
    let r = r.clone();
    Action {
        at: Some(r.at),
        kind: custom(move |ctx: Ctx| {
            let r = r.clone();
            Box::pin(async move {
                let arp = ctx.machine.protocol::<Arp>().expect("machine has Arp");
                let log = ctx.log.clone();
                let machine = ctx.machine.clone();
                let me = ctx.id;
                // spawned: resolutions of one machine overlap
                tokio::spawn(async move {
                    let (rid, slot) = (r.rid, r.slot);
                    note(&log, format!("c06 start {}", rid));
                    let pair = AddressPair { local: Ipv4Address::from(r.local), remote: Ipv4Address::from(r.remote) };
                    // the call under test; answers `ok <mac>` / `sess` (a session: the MAC shows on
                    // the wire) / `err` / `operr <class>` (an open error that is no ARP failure)
                    let m2 = machine.clone();
                    let mut fut: Pin<Box<dyn Future<Output = String> + Send>> = match r.via {
                        Via::Arp => Box::pin(async move { res_str(&arp.resolve(pair, slot, m2).await.map_err(|_| ())) }),
                        Via::Ip => Box::pin(async move {
                            let ipv4 = m2.protocol::<Ipv4>().expect("machine has Ipv4");
                            match ipv4.open_for_sending(TypeId::of::<Udp>(), pair, m2.clone()).await {
                                Ok(s) => {
                                    let _ = s.send(Message::new(sess_tag(rid)), m2);
                                    "sess".to_string()
                                }
                                Err(e) => open_err(fmt_err(&Err::<(), _>(e))),
                            }
                        }),
                        Via::Udp => Box::pin(async move {
                            let udp = m2.protocol::<Udp>().expect("machine has Udp");
                            let port = 1000 + rid as u16;
                            let eps = Endpoints::new(Endpoint::new(pair.local, port), Endpoint::new(pair.remote, port));
                            match udp.open_and_listen(me, eps, m2.clone()).await {
                                Ok(s) => {
                                    let _ = s.send(Message::new(sess_tag(rid)), m2);
                                    "sess".to_string()
                                }
                                Err(e) => open_err(fmt_err(&Err::<(), _>(e))),
                            }
                        }),
                    };
                    // one poll tells a call that returns at once from one that waits
                    let first = std::future::poll_fn(|cx| Poll::Ready(fut.as_mut().poll(cx))).await;
                    match first {
                        Poll::Ready(x) => note(&log, format!("c06 imm {} {}", rid, x)),
                        Poll::Pending => {
                            note(&log, format!("c06 pend {}", rid));
                            let x = fut.await;
                            note(&log, format!("c06 done {} {}", rid, x));
                        }
                    }
                });
            })
        }),
    }
}

/// payload of the datagram sent through a freshly opened session: its frame's destination MAC
/// is the MAC the open call resolved
fn sess_tag(rid: usize) -> Vec<u8> {
    let mut v = b"C06RES".to_vec();
    v.extend_from_slice(&(rid as u32).to_be_bytes());
    v
}

fn open_err(class: String) -> String {
    if class.contains("ArpFailure") {
        "err".into()
    } else {
        format!("operr {}", class)
    }
}

/// resolution id -> destination MAC of the tagged datagram of its session (`None` inside =
/// the frame was broadcast)
fn sess_macs(events: &[Event]) -> BTreeMap<usize, Option<u64>> {
    let mut m = BTreeMap::new();
    for e in events {
        if let Ev::Wire { to: None, dst, target: Target::Ipv4, bytes, .. } = &e.ev {
            if bytes.len() >= 10 && &bytes[bytes.len() - 10..bytes.len() - 4] == b"C06RES" {
                let rid = u32::from_be_bytes([bytes[bytes.len() - 4], bytes[bytes.len() - 3], bytes[bytes.len() - 2], bytes[bytes.len() - 1]]) as usize;
                m.entry(rid).or_insert(*dst);
            }
        }
    }
    m
}

/// answer of a resolution as logged (`ok <mac>` | `sess` | `err` | `operr <class>`); a session
/// whose datagram never showed up, or was broadcast, counts as the impossible MAC 2^48
fn parse_answer(w: &[&str], rid: usize, sess: &BTreeMap<usize, Option<u64>>) -> Result<u64, ()> {
    match w {
        ["ok", m] => m.parse().map_err(|_| ()),
        ["sess"] => Ok(sess.get(&rid).copied().flatten().unwrap_or(1 << 48)),
        _ => Err(()),
    }
}

fn trace_action(m: usize) -> Action {
    Action {
        at: None,
        kind: custom(move |ctx: Ctx| {
            Box::pin(async move {
                let arp = ctx.machine.protocol::<Arp>().expect("machine has Arp");
                let log = ctx.log.clone();
                arp.verif_set_trace(Some(Arc::new(move |r: &ResolveRound| {
                    note(&log, format!("c06 round {} {} {} {} {}", m, r.endpoints.local.to_u32(), r.endpoints.remote.to_u32(), r.slot, r.round));
                })));
            })
        }),
    }
}

/// Real-time runs only: how late the runtime's timers fire under the machine's current load.  A
/// task sleeps `RESEND_DELAY` over and over and records (log time of the wake-up, lateness); the
/// budget clauses of the multi_thread oracle add the lateness measured during a resolution to
/// their slack, so that an overloaded machine is not mistaken for an over-long retry loop.
/// (Process-wide: a worker process runs one scenario at a time.  Kept out of the event log, which
/// must fall quiet for the run to end.)
static PROBE: Mutex<Vec<(u64, u64)>> = Mutex::new(Vec::new());

fn probe_action() -> Action {
    Action {
        at: Some(0),
        kind: custom(move |ctx: Ctx| {
            Box::pin(async move {
                let log = ctx.log.clone();
                tokio::spawn(async move {
                    loop {
                        let t0 = tokio::time::Instant::now();
                        tokio::time::sleep(Arp::RESEND_DELAY).await;
                        let late = t0.elapsed().saturating_sub(Arp::RESEND_DELAY).as_micros() as u64;
                        PROBE.lock().unwrap().push((log.now_us(), late));
                    }
                });
            })
        }),
    }
}

struct Observed {
    /// (wake-up time, lateness) samples of the timer probe (real-time runs)
    probe: Vec<(u64, u64)>,
    events: Vec<Event>,
    macs: Vec<Vec<u64>>,
    /// per machine: (local ips with subnet info, table)
    snaps: Vec<(Vec<(u32, Option<(u32, u32)>)>, Vec<(u32, Option<u64>)>)>,
}

fn execute(case: &Case, mode: RtMode) -> Observed {
    let machines: Vec<MachineSpec> = case
        .slots
        .iter()
        .enumerate()
        .map(|(m, k)| {
            let mut script = vec![trace_action(m)];
            if m == 0 && mode != RtMode::Paused {
                script.push(probe_action());
            }
            script.extend(case.claims.iter().filter(|c| c.m == m).map(claim_action));
            script.extend(case.resolves.iter().filter(|r| r.m == m).map(resolve_action));
            // resolutions through IPv4: the route of the local address names the slot and no MAC
            let mut routes: Vec<Route> = vec![];
            for r in case.resolves.iter().filter(|r| r.m == m && r.via != Via::Arp) {
                if !routes.iter().any(|x| x.addr == r.local) {
                    routes.push(Route { addr: r.local, mask_len: 32, slot: r.slot, mac: None });
                }
            }
            let udp = case.resolves.iter().any(|r| r.m == m && r.via == Via::Udp);
            MachineSpec { nets: vec![0; *k], arp: true, udp, routes, apps: vec![AppSpec { n: 0, script, ..Default::default() }], ..Default::default() }
        })
        .collect();
    let sc = Scenario {
        nets: vec![NetSpec { mtu: case.mtu, lat_us: (case.lat_us, 0), thr: (0, 0) }],
        machines,
        mode,
        duration_us: case.dur_us,
    };
    let plan = case.plan.clone();
    let counter = Arc::new(Mutex::new(0usize));
    let planner: Planner = Arc::new(move |w: &WireSend| {
        if w.target != Target::Arp {
            return VerifFramePlan::Deliver;
        }
        let mut k = counter.lock().unwrap();
        let p = plan.get(*k).copied().unwrap_or(Plan::Deliver);
        *k += 1;
        match p {
            Plan::Deliver => VerifFramePlan::Deliver,
            Plan::Drop => VerifFramePlan::Drop,
            Plan::Delay(d) => VerifFramePlan::Delay(Duration::from_micros(d)),
            Plan::Dup(d) => VerifFramePlan::Duplicate(Duration::from_micros(d)),
        }
    });
    PROBE.lock().unwrap().clear();
    // real-time runs end once the log has been quiet for longer than a retry round
    let quiesce = mode != RtMode::Paused;
    let built = build(&sc, Some(planner), &|idx, m, log| {
        if quiesce && idx == 0 {
            m.with(Quiesce { log: log.clone(), active: true, stable_ms: (delay_us() / 1000) * 3 / 2 + 50 })
        } else {
            m
        }
    });
    let log = built.log.clone();
    let ms = built.machines.clone();
    let dur = Duration::from_micros(sc.duration_us);
    let _status = block_on_mode(sc.mode, async move {
        log.start_clock();
        run_internet_with_timeout(&ms, dur).await
    });
    for n in &built.networks {
        n.verif_set_hook(None);
    }
    let snaps = built
        .machines
        .iter()
        .map(|m| {
            let arp = m.protocol::<Arp>().expect("machine has Arp");
            arp.verif_set_trace(None);
            let (ips, table) = arp.verif_snapshot();
            (
                ips.iter().map(|(ip, sn)| (ip.to_u32(), sn.map(|s| (s.mask.to_u32(), s.default_gateway.to_u32())))).collect(),
                table.iter().map(|(ip, mac)| (ip.to_u32(), *mac)).collect(),
            )
        })
        .collect();
    let probe = PROBE.lock().unwrap().clone();
    Observed { probe, events: built.log.snapshot(), macs: built.macs, snaps }
}

// ------------------------------------------------------------------------------------------
// op lines + native oracle
// ------------------------------------------------------------------------------------------

/// independent decoder of the 28-byte ARP wire form
struct Arp28 {
    oper: u16,
    smac: u64,
    sip: u32,
    tmac: u64,
    tip: u32,
}
fn decode(b: &[u8]) -> Option<Arp28> {
    if b.len() < 28 {
        return None;
    }
    let u48 = |x: &[u8]| x.iter().fold(0u64, |a, v| (a << 8) | *v as u64);
    Some(Arp28 {
        oper: u16::from_be_bytes([b[6], b[7]]),
        smac: u48(&b[8..14]),
        sip: u32::from_be_bytes([b[14], b[15], b[16], b[17]]),
        tmac: u48(&b[18..24]),
        tip: u32::from_be_bytes([b[24], b[25], b[26], b[27]]),
    })
}

fn prefix_mask(bits: u32) -> u32 {
    if bits == 0 {
        0
    } else if bits >= 32 {
        u32::MAX
    } else {
        u32::MAX << (32 - bits)
    }
}

#[derive(Clone, Debug)]
struct RState {
    m: usize,
    local: u32,
    slot: u32,
    expected_dest: u32,
    dest: Option<u32>,
    start_t: u64,
    start_ev: usize,
    rounds: Vec<u64>,
    done: Option<(Result<u64, ()>, u64, usize)>,
    /// was the destination claimed by some machine when the call started?
    claimed_at_start: bool,
}

/// bookkeeping and sanity of one logged answer (`via` statistics; an open call that failed for
/// another reason than ARP, or a session whose datagram is not on the wire with a unicast MAC,
/// is a harness-level failure)
fn note_answer(rep: &mut CaseReport, fails: &mut Vec<(String, String)>, rid: usize, via: Via, w: &[&str], sess: &BTreeMap<usize, Option<u64>>) {
    rep.count(format!("via.{}.{}", via.name(), w.first().copied().unwrap_or("?")));
    match w {
        ["operr", class] => fails.push((format!("resolution {} through {}: the open call failed with {} (not an ARP failure)", rid, via.name(), class), format!("harness open-error {}", class))),
        ["sess"] => match sess.get(&rid) {
            Some(Some(_)) => {}
            Some(None) => fails.push((format!("resolution {} through {}: the session opened after ARP resolution broadcasts its datagrams (no destination MAC)", rid, via.name()), "session-without-mac".into())),
            None => fails.push((format!("resolution {} through {}: the datagram sent through the opened session never reached the network", rid, via.name()), "harness session-datagram-missing".into())),
        },
        _ => {}
    }
}

fn mach_of_mac(macs: &[Vec<u64>], mac: u64) -> Option<usize> {
    macs.iter().position(|ms| ms.contains(&mac))
}

fn run_case(case: &Case) -> CaseReport {
    let mut rep = CaseReport::default();
    for l in case.to_lines() {
        rep.line(l, "cfg");
    }
    let obs = execute(case, RtMode::Paused);
    let macs = &obs.macs;
    rep.line(
        format!("init {} {}", case.mtu.map(|m| m.to_string()).unwrap_or("-".into()), case.slots.iter().map(|s| s.to_string()).collect::<Vec<_>>().join(",")),
        format!("macs {}", macs.iter().map(|ms| ms.iter().map(|m| m.to_string()).collect::<Vec<_>>().join(",")).collect::<Vec<_>>().join(";")),
    );
    let cfg_of: BTreeMap<usize, &Res> = case.resolves.iter().map(|r| (r.rid, r)).collect();
    let sess = sess_macs(&obs.events);
    // natively tracked: local_ips per machine (ip -> subnet), resolver states
    let mut ips: Vec<BTreeMap<u32, Option<(u32, u32)>>> = vec![BTreeMap::new(); case.slots.len()];
    let mut rs: BTreeMap<usize, RState> = BTreeMap::new();
    let owner_of = |ips: &Vec<BTreeMap<u32, Option<(u32, u32)>>>, ip: u32| -> Vec<usize> { (0..ips.len()).filter(|m| ips[*m].contains_key(&ip)).collect() };
    let mut fails: Vec<(String, String)> = vec![];
    let mut dropped_sends: Vec<u64> = vec![]; // times of dropped ARP frames
    // deliveries of ARP packets to taps: (event id, time, machine, sender ip, sender mac)
    let mut learned: Vec<(usize, u64, usize, u32, u64)> = vec![];
    let ev = &obs.events;
    let mut i = 0;
    while i < ev.len() {
        let e = &ev[i];
        let t = e.t_us;
        match &e.ev {
            Ev::Note(s) if s.starts_with("c06 ") => {
                let w: Vec<&str> = s.split_whitespace().collect();
                match w.as_slice() {
                    ["c06", "listen", m, ip] => {
                        let (m, ip): (usize, u32) = (m.parse().unwrap(), ip.parse().unwrap());
                        ips[m].entry(ip).or_insert(None);
                        rep.line(format!("at {} listen {} {}", t, m, ip), "ok");
                    }
                    ["c06", "subnet", m, ip, bits, gw] => {
                        let (m, ip, bits, gw): (usize, u32, u32, u32) = (m.parse().unwrap(), ip.parse().unwrap(), bits.parse().unwrap(), gw.parse().unwrap());
                        ips[m].insert(ip, Some((bits, gw)));
                        rep.line(format!("at {} subnet {} {} {} {}", t, m, ip, bits, gw), "ok");
                    }
                    ["c06", "start", rid] => {
                        let rid: usize = rid.parse().unwrap();
                        let r = cfg_of[&rid];
                        // the property's configuration: the resolver answers for `local` from now on
                        ips[r.m].entry(r.local).or_insert(None);
                        let expected_dest = match ips[r.m][&r.local] {
                            Some((bits, gw)) if (r.local & prefix_mask(bits)) != (r.remote & prefix_mask(bits)) => gw,
                            _ => r.remote,
                        };
                        let mut st = RState {
                            m: r.m,
                            local: r.local,
                            slot: r.slot,
                            expected_dest,
                            dest: None,
                            start_t: t,
                            start_ev: e.id,
                            rounds: vec![],
                            done: None,
                            claimed_at_start: !owner_of(&ips, expected_dest).is_empty(),
                        };
                        // consume the events of the first poll
                        let mut answer = String::from("lost-track");
                        let mut j = i + 1;
                        let mut consumed = i;
                        while j < ev.len() {
                            if let Ev::Note(s2) = &ev[j].ev {
                                let w2: Vec<&str> = s2.split_whitespace().collect();
                                match w2.as_slice() {
                                    ["c06", "round", _m, _l, d, _s, "0"] => {
                                        st.dest = d.parse().ok();
                                        st.rounds.push(ev[j].t_us);
                                        consumed = j;
                                    }
                                    ["c06", "imm", r2, rest @ ..] if r2.parse::<usize>().ok() == Some(rid) => {
                                        let res = parse_answer(rest, rid, &sess);
                                        note_answer(&mut rep, &mut fails, rid, r.via, rest, &sess);
                                        answer = format!("done {}", res_str(&res));
                                        st.done = Some((res, ev[j].t_us, ev[j].id));
                                        consumed = j;
                                        break;
                                    }
                                    ["c06", "pend", r2] if r2.parse::<usize>().ok() == Some(rid) => {
                                        answer = format!("pending {}", st.dest.map(|d| d.to_string()).unwrap_or("?".into()));
                                        consumed = j;
                                        break;
                                    }
                                    _ => break,
                                }
                            } else {
                                break;
                            }
                            j += 1;
                        }
                        rep.line(format!("at {} resolve {} {} {} {} {}", t, rid, r.m, r.local, r.remote, r.slot), answer);
                        if let Some(d) = st.dest {
                            if d != expected_dest {
                                fails.push((
                                    format!("resolution {} ({} -> {}) asks for {} but the subnet configuration prescribes {}", rid, fmt_addr(r.local), fmt_addr(r.remote), fmt_addr(d), fmt_addr(expected_dest)),
                                    "gateway-decision".into(),
                                ));
                            }
                        }
                        rs.insert(rid, st);
                        i = consumed;
                    }
                    ["c06", "round", m, local, dest, slot, k] => {
                        let (m, local, dest, slot, k): (usize, u32, u32, u32, usize) = (m.parse().unwrap(), local.parse().unwrap(), dest.parse().unwrap(), slot.parse().unwrap(), k.parse().unwrap());
                        // which resolution is this?  one of this machine that is waiting, has sent k
                        // requests and whose time-out expires now
                        let cand = rs.iter().find(|(_, st)| {
                            st.m == m && st.local == local && st.slot == slot && st.dest == Some(dest) && st.done.is_none() && st.rounds.len() == k && st.rounds.last().map(|l| l + delay_us()) == Some(t)
                        });
                        match cand.map(|(rid, _)| *rid) {
                            Some(rid) => {
                                rs.get_mut(&rid).unwrap().rounds.push(t);
                                rep.line(format!("at {} round {}", t, rid), format!("request {} {} {}", local, dest, k));
                            }
                            None => {
                                rep.line(format!("at {} round ?", t), format!("request {} {} {}", local, dest, k));
                                fails.push((format!("machine {} sends retry request #{} for {} at {} us which is no resolution's next round", m, k, fmt_addr(dest), t), "stray-round".into()));
                            }
                        }
                    }
                    ["c06", "done", rid, rest @ ..] => {
                        let rid: usize = rid.parse().unwrap();
                        let res = parse_answer(rest, rid, &sess);
                        note_answer(&mut rep, &mut fails, rid, cfg_of[&rid].via, rest, &sess);
                        rep.line(format!("at {} done {}", t, rid), format!("done {}", res_str(&res)));
                        if let Some(st) = rs.get_mut(&rid) {
                            st.done = Some((res, t, e.id));
                        }
                    }
                    _ => {}
                }
            }
            Ev::Wire { to: None, smac, dst, target: Target::Arp, bytes, plan, .. } => {
                let plan_word = if plan == "drop" { "drop" } else { "pass" };
                rep.line(format!("at {} send {} {} {} {}", t, smac, fmt_mac(*dst), hex(bytes), plan_word), "ok");
                rep.count(format!("plan.{}", plan.split(':').next().unwrap_or("")));
                if plan == "drop" {
                    dropped_sends.push(t);
                }
                // every ARP packet carries the sender's own (IP, MAC); replies come from owners only
                match (decode(bytes), mach_of_mac(macs, *smac)) {
                    (Some(p), Some(sm)) => {
                        if p.smac != *smac || !ips[sm].contains_key(&p.sip) {
                            fails.push((
                                format!("machine {} (tap {}) sends an ARP packet announcing {} -> MAC {} which is not its own claimed address/MAC", sm, smac, fmt_addr(p.sip), p.smac),
                                "foreign-mapping".into(),
                            ));
                        }
                        if p.oper == 2 {
                            rep.count("frames.reply");
                            if *dst != Some(p.tmac) {
                                fails.push((format!("ARP reply from machine {} addressed to {:?}, requester is {}", sm, dst, p.tmac), "reply-address".into()));
                            }
                        } else {
                            rep.count("frames.request");
                            if dst.is_some() {
                                fails.push((format!("ARP request from machine {} is not broadcast", sm), "request-not-broadcast".into()));
                            }
                        }
                    }
                    _ => fails.push((format!("undecodable ARP frame {} from tap {}", hex(bytes), smac), "bad-frame".into())),
                }
            }
            Ev::Wire { to: Some(to), smac, dst, target: Target::Arp, bytes, .. } => {
                rep.line(format!("at {} deliver {} {} {} {}", t, smac, fmt_mac(*dst), hex(bytes), to), "ok");
                if let (Some(p), Some(tm)) = (decode(bytes), mach_of_mac(macs, *to)) {
                    learned.push((e.id, t, tm, p.sip, p.smac));
                }
                if let Some(d) = dst {
                    if *d != 0xFFFF_FFFF_FFFF && d != to {
                        fails.push((format!("frame addressed to MAC {} was handed to tap {}", d, to), "misdelivery".into()));
                    }
                }
            }
            _ => {}
        }
        i += 1;
    }
    // ---------- end of run: tables, pending resolutions ----------
    let dump = obs
        .snaps
        .iter()
        .map(|(ipl, tab)| {
            format!(
                "ips[{}] table[{}]",
                ipl.iter().map(|(ip, sn)| format!("{}{}", ip, sn.map(|(m, g)| format!("/{}/{}", m, g)).unwrap_or_default())).collect::<Vec<_>>().join(","),
                tab.iter().map(|(ip, mac)| format!("{}={}", ip, mac.map(|m| m.to_string()).unwrap_or("err".into()))).collect::<Vec<_>>().join(",")
            )
        })
        .collect::<Vec<_>>()
        .join(" | ");
    let pending: Vec<String> = rs.iter().filter(|(_, st)| st.done.is_none()).map(|(rid, _)| rid.to_string()).collect();
    rep.line(format!("end {}", case.dur_us), format!("end {} pending[{}] unseen=0", dump, pending.join(",")));

    // ---------- native oracle: the property, from the configuration ----------
    let owners_final = |ip: u32| owner_of(&ips, ip);
    let mtu_ok = case.mtu.map(|m| m >= 28).unwrap_or(true);
    for (rid, st) in rs.iter() {
        let dest = st.expected_dest;
        let who = owners_final(dest);
        let desc = format!("resolution {} on machine {} of {} (local {})", rid, st.m, fmt_addr(dest), fmt_addr(st.local));
        match &st.done {
            None => {
                if case.dur_us > st.start_t + budget_us() {
                    fails.push((format!("{} started at {} us has not returned at {} us, the retry budget ended at {} us", desc, st.start_t, case.dur_us, st.start_t + budget_us()), "hang".into()));
                }
                rep.count("result.pending-at-end");
            }
            Some((Ok(mac), t, _)) => {
                rep.count("result.ok");
                let good = who.len() == 1 && macs[who[0]].contains(mac);
                if !good {
                    let whose = mach_of_mac(macs, *mac);
                    fails.push((
                        format!("{} returned MAC {} (a tap of machine {:?}); the address is claimed by machine(s) {:?} with MACs {:?}", desc, mac, whose, who, who.iter().map(|o| macs[*o].clone()).collect::<Vec<_>>()),
                        if who.is_empty() { "ok-for-unclaimed".into() } else { "wrong-mac".into() },
                    ));
                }
                if *t > st.start_t + budget_us() {
                    fails.push((format!("{} returned after {} us, beyond the retry budget", desc, t - st.start_t), "late-answer".into()));
                }
                if dest != cfg_of[rid].remote {
                    rep.count("result.ok-gateway");
                }
            }
            Some((Err(()), t, done_ev)) => {
                rep.count("result.err");
                let window_end = st.start_t + budget_us();
                if *t > window_end {
                    fails.push((format!("{} failed after {} us, beyond the retry budget of {} us", desc, t - st.start_t, budget_us()), "late-failure".into()));
                }
                if who.len() == 1 {
                    // (a) an exchange of the budget got through: the owner's mapping reached this
                    //     machine while the budget was running
                    //     (an answer handed over in the very instant the budget ends counts only if
                    //     it was handed over before the call returned)
                    let through = learned
                        .iter()
                        .find(|(id, lt, tm, sip, smac)| *tm == st.m && *sip == dest && *id > st.start_ev && (*lt < window_end || (*lt == window_end && id < done_ev)) && macs[who[0]].contains(smac));
                    if let Some((_, lt, _, _, smac)) = through {
                        let early = *done_ev < through.unwrap().0;
                        fails.push((
                            format!(
                                "{} started at {} us returned Err at {} us although the owner's answer (MAC {}) reached the machine at {} us, within the retry budget (ends {} us){}",
                                desc, st.start_t, t, smac, lt, window_end,
                                if early { "; the call gave up before its own budget was used" } else { "" }
                            ),
                            if early { "err-before-budget-used".into() } else { "err-despite-exchange".into() },
                        ));
                    } else if st.claimed_at_start && mtu_ok && !dropped_sends.iter().any(|d| *d >= st.start_t && *d <= window_end) {
                        // (b) the address was claimed before the call and nothing was lost during
                        //     the budget: the resolution must succeed
                        fails.push((
                            format!("{} started at {} us returned Err at {} us; the address was claimed by machine {} before the call and no frame was lost during the retry budget ({} requests were sent)", desc, st.start_t, t, who[0], st.rounds.len()),
                            if st.rounds.is_empty() { "err-from-stale-cache".into() } else { "err-lossfree".into() },
                        ));
                    }
                }
                // failure only after the full bounded retry period: `RESEND_TRIES` requests,
                // the last of them waited for: never before start + TRIES * DELAY
                // (a frame that does not fit the MTU fails the call at once: excluded)
                if mtu_ok && *t < window_end {
                    fails.push((
                        format!(
                            "{} (through {}) started at {} us gave up at {} us after {} of {} requests; the retry budget ends at {} us",
                            desc, cfg_of[rid].via.name(), st.start_t, t, st.rounds.len(), tries(), window_end
                        ),
                        "err-before-budget-end".into(),
                    ));
                } else if mtu_ok && (st.rounds.len() as u64) < tries() {
                    fails.push((format!("{} (through {}) failed after only {} of {} requests", desc, cfg_of[rid].via.name(), st.rounds.len(), tries()), "err-before-budget-end".into()));
                }
                if who.is_empty() && mtu_ok && st.rounds.len() as u64 == tries() && *t != window_end {
                    fails.push((format!("{} used all {} rounds but failed at {} us instead of exactly {} us", desc, tries(), t, window_end), "failure-time".into()));
                }
            }
        }
        // retry rounds: one request every RESEND_DELAY while waiting, at most RESEND_TRIES
        for (k, rt) in st.rounds.iter().enumerate() {
            if *rt != st.start_t + k as u64 * delay_us() {
                fails.push((format!("{}: request #{} was sent at {} us, expected {} us", desc, k, rt, st.start_t + k as u64 * delay_us()), "round-time".into()));
            }
        }
        if st.rounds.len() as u64 > tries() {
            fails.push((format!("{} sent {} requests, the budget is {}", desc, st.rounds.len(), tries()), "too-many-rounds".into()));
        }
        rep.count(format!("rounds.{}", st.rounds.len()));
    }
    // what the configuration prescribes (`kth` family: which exchange of the budget gets through)
    for x in &case.expect {
        let via = cfg_of.get(&x.rid).map(|r| r.via.name()).unwrap_or("?");
        let got = rs.get(&x.rid).and_then(|st| st.done.clone());
        let want = match x.owner {
            Some(o) => format!("Ok(a MAC of machine {}) at {} us", o, x.t),
            None => format!("Err at {} us", x.t),
        };
        rep.count(format!("expect.{}", if x.owner.is_some() { "ok" } else { "err" }));
        match (&got, x.owner) {
            (Some((Ok(mac), t, _)), Some(o)) => {
                if !macs.get(o).map(|ms| ms.contains(mac)).unwrap_or(false) {
                    fails.push((format!("resolution {} through {}: the loss plan lets exactly one exchange of the retry budget through, expected {}, got MAC {}", x.rid, via, want, mac), "kth-exchange-outcome".into()));
                } else if *t != x.t {
                    fails.push((format!("resolution {} through {}: expected {}, completed at {} us", x.rid, via, want, t), "kth-exchange-time".into()));
                }
            }
            (Some((Err(()), t, _)), None) => {
                if *t != x.t {
                    fails.push((format!("resolution {} through {}: no exchange gets through, expected {}, failed at {} us", x.rid, via, want, t), "kth-exchange-time".into()));
                }
            }
            (Some((r, t, _)), _) => fails.push((
                format!(
                    "resolution {} through {}: the loss plan {}, expected {}, got {} at {} us",
                    x.rid,
                    via,
                    if x.owner.is_some() { "lets one request/reply exchange of the retry budget through" } else { "lets no exchange through" },
                    want,
                    res_str(r),
                    t
                ),
                "kth-exchange-outcome".into(),
            )),
            (None, _) => fails.push((format!("resolution {} through {}: expected {}, the call never returned", x.rid, via, want), "kth-exchange-outcome".into())),
        }
    }
    // agreement: resolutions of one machine for one address that wait at the same time return
    // the same answer
    let v: Vec<(&usize, &RState)> = rs.iter().collect();
    for a in 0..v.len() {
        for b in a + 1..v.len() {
            let (ra, sa) = v[a];
            let (rb, sb) = v[b];
            if sa.m != sb.m || sa.expected_dest != sb.expected_dest || sa.rounds.is_empty() || sb.rounds.is_empty() {
                continue;
            }
            if let (Some((xa, ta, _)), Some((xb, tb, _))) = (&sa.done, &sb.done) {
                let overlap = sa.start_t <= *tb && sb.start_t <= *ta;
                if overlap {
                    rep.count("concurrent-pairs");
                    if let (Ok(ma), Ok(mb)) = (xa, xb) {
                        if ma != mb || ta != tb {
                            fails.push((
                                format!("concurrent resolutions {} and {} of {} on machine {} returned MAC {} at {} us and MAC {} at {} us", ra, rb, fmt_addr(sa.expected_dest), sa.m, ma, ta, mb, tb),
                                "disagreement".into(),
                            ));
                        }
                    }
                }
            }
        }
    }
    // all successful resolutions of one address agree on the owner
    let mut by_dest: BTreeMap<u32, Vec<u64>> = BTreeMap::new();
    for st in rs.values() {
        if let Some((Ok(m), _, _)) = &st.done {
            by_dest.entry(st.expected_dest).or_default().push(*m);
        }
    }
    for (d, ms) in by_dest.iter() {
        let owners: Vec<Option<usize>> = ms.iter().map(|m| mach_of_mac(macs, *m)).collect();
        if owners.windows(2).any(|w| w[0] != w[1]) {
            fails.push((format!("resolutions of {} returned MACs {:?} of different machines", fmt_addr(*d), ms), "disagreement".into()));
        }
    }
    // non-trivial: some resolution needed the wire and an answer came through, plus a fault, a
    // concurrent pair or a gateway substitution
    let waited_ok = rs.values().any(|st| !st.rounds.is_empty() && matches!(st.done, Some((Ok(_), _, _))));
    let spice = !dropped_sends.is_empty() || rep.counts.iter().any(|(k, _)| k == "concurrent-pairs" || k == "result.ok-gateway") || rs.values().any(|st| matches!(st.done, Some((Err(()), _, _))));
    rep.nontrivial = (waited_ok && spice) || !case.expect.is_empty();
    rep.count(format!("machines.{}", case.slots.len()));
    rep.count(format!("resolutions.{}", case.resolves.len().min(9)));
    for (what, ident) in fails {
        rep.fail(what, ident);
    }
    rep
}

// ------------------------------------------------------------------------------------------
// multi_thread runtime (real time): oracle only
// ------------------------------------------------------------------------------------------

/// The same scenario on a multi_thread runtime with `workers` threads.  Time is real and the
/// schedule is whatever the threads do, so nothing is replayed through the model; the oracle
/// keeps the clauses that do not depend on exact instants: an answer is the owner's MAC, an
/// unclaimed address is never answered, only owners announce/answer, no call outlives its budget,
/// a claimed address on a loss-free LAN is resolved, concurrent answers agree.
fn run_case_mt(case: &Case, workers: usize) -> CaseReport {
    let mut rep = CaseReport::default();
    for l in case.to_lines() {
        rep.line(l, "cfg");
    }
    let t_real = std::time::Instant::now();
    let obs = execute(case, RtMode::MultiThread(workers));
    let macs = &obs.macs;
    let cfg_of: BTreeMap<usize, &Res> = case.resolves.iter().map(|r| (r.rid, r)).collect();
    let mut ips: Vec<BTreeMap<u32, Option<(u32, u32)>>> = vec![BTreeMap::new(); case.slots.len()];
    struct R {
        m: usize,
        dest: u32,
        start_t: u64,
        claimed_at_start: bool,
        done: Option<(Result<u64, ()>, u64)>,
    }
    let mut rs: BTreeMap<usize, R> = BTreeMap::new();
    let mut fails: Vec<(String, String)> = vec![];
    let mut dropped: Vec<u64> = vec![];
    let mut learned: Vec<(u64, usize, u32, u64)> = vec![];
    let sess = sess_macs(&obs.events);
    let slack = 400_000u64; // scheduling slack on a loaded machine, in real microseconds
    // ... plus twice the timer lateness the probe measured while the resolution was running
    let lag = |from: u64, to: u64| -> u64 { 2 * obs.probe.iter().filter(|(t, _)| *t >= from && *t <= to + delay_us()).map(|(_, l)| *l).sum::<u64>() };
    rep.count_n("probe.late_ms", obs.probe.iter().map(|(_, l)| *l).sum::<u64>() / 1000);
    for e in &obs.events {
        let t = e.t_us;
        match &e.ev {
            Ev::Note(s) if s.starts_with("c06 ") => {
                let w: Vec<&str> = s.split_whitespace().collect();
                match w.as_slice() {
                    ["c06", "listen", m, ip] => {
                        ips[m.parse::<usize>().unwrap()].entry(ip.parse().unwrap()).or_insert(None);
                    }
                    ["c06", "subnet", m, ip, bits, gw] => {
                        ips[m.parse::<usize>().unwrap()].insert(ip.parse().unwrap(), Some((bits.parse().unwrap(), gw.parse().unwrap())));
                    }
                    ["c06", "start", rid] => {
                        let rid: usize = rid.parse().unwrap();
                        let r = cfg_of[&rid];
                        ips[r.m].entry(r.local).or_insert(None);
                        let dest = match ips[r.m][&r.local] {
                            Some((bits, gw)) if (r.local & prefix_mask(bits)) != (r.remote & prefix_mask(bits)) => gw,
                            _ => r.remote,
                        };
                        let claimed = (0..ips.len()).any(|m| ips[m].contains_key(&dest));
                        rs.insert(rid, R { m: r.m, dest, start_t: t, claimed_at_start: claimed, done: None });
                    }
                    ["c06", "imm", rid, rest @ ..] | ["c06", "done", rid, rest @ ..] => {
                        let rid: usize = rid.parse().unwrap();
                        note_answer(&mut rep, &mut fails, rid, cfg_of[&rid].via, rest, &sess);
                        if let Some(st) = rs.get_mut(&rid) {
                            st.done = Some((parse_answer(rest, rid, &sess), t));
                        }
                    }
                    _ => {}
                }
            }
            Ev::Wire { to: None, smac, dst, target: Target::Arp, bytes, plan, .. } => {
                if plan == "drop" {
                    dropped.push(t);
                }
                match (decode(bytes), mach_of_mac(macs, *smac)) {
                    (Some(p), Some(sm)) => {
                        if p.smac != *smac || !ips[sm].contains_key(&p.sip) {
                            fails.push((format!("machine {} (tap {}) sends an ARP packet announcing {} -> MAC {} which is not its own claimed address/MAC", sm, smac, fmt_addr(p.sip), p.smac), "foreign-mapping".into()));
                        }
                        if p.oper == 2 && *dst != Some(p.tmac) {
                            fails.push((format!("ARP reply from machine {} addressed to {:?}, requester is {}", sm, dst, p.tmac), "reply-address".into()));
                        }
                    }
                    _ => fails.push((format!("undecodable ARP frame {} from tap {}", hex(bytes), smac), "bad-frame".into())),
                }
            }
            Ev::Wire { to: Some(to), target: Target::Arp, bytes, .. } => {
                if let (Some(p), Some(tm)) = (decode(bytes), mach_of_mac(macs, *to)) {
                    learned.push((t, tm, p.sip, p.smac));
                }
            }
            _ => {}
        }
    }
    let end_t = obs.events.last().map(|e| e.t_us).unwrap_or(0);
    let mtu_ok = case.mtu.map(|m| m >= 28).unwrap_or(true);
    let mut summary: Vec<String> = vec![];
    for (rid, st) in rs.iter() {
        let who: Vec<usize> = (0..ips.len()).filter(|m| ips[*m].contains_key(&st.dest)).collect();
        let desc = format!("[multi_thread x{}] resolution {} on machine {} of {}", workers, rid, st.m, fmt_addr(st.dest));
        match &st.done {
            None => {
                summary.push(format!("r{}=pending", rid));
                if end_t > st.start_t + budget_us() + 2 * slack + lag(st.start_t, end_t) {
                    fails.push((format!("{} started at {} us has not returned at {} us (budget {} us)", desc, st.start_t, end_t, budget_us()), "hang".into()));
                }
            }
            Some((Ok(mac), t)) => {
                summary.push(format!("r{}=ok", rid));
                rep.count("result.ok");
                if !(who.len() == 1 && macs[who[0]].contains(mac)) {
                    fails.push((
                        format!("{} returned MAC {} (a tap of machine {:?}); the address is claimed by machine(s) {:?}", desc, mac, mach_of_mac(macs, *mac), who),
                        if who.is_empty() { "ok-for-unclaimed".into() } else { "wrong-mac".into() },
                    ));
                }
                if *t > st.start_t + budget_us() + slack + lag(st.start_t, *t) {
                    fails.push((format!("{} returned after {} us, beyond the retry budget", desc, t - st.start_t), "late-answer".into()));
                }
            }
            Some((Err(()), t)) => {
                summary.push(format!("r{}=err", rid));
                rep.count("result.err");
                if *t > st.start_t + budget_us() + slack + lag(st.start_t, *t) {
                    fails.push((format!("{} failed after {} us, beyond the retry budget of {} us (timer lateness measured meanwhile: {} us)", desc, t - st.start_t, budget_us(), lag(st.start_t, *t) / 2), "late-failure".into()));
                }
                if who.len() == 1 {
                    // the owner's mapping reached the machine clearly before the call gave up
                    if let Some((lt, _, _, smac)) = learned.iter().find(|(lt, tm, sip, smac)| *tm == st.m && *sip == st.dest && *lt > st.start_t + slack / 8 && *lt + slack < *t && macs[who[0]].contains(smac)) {
                        fails.push((format!("{} started at {} us returned Err at {} us although the owner's answer (MAC {}) reached the machine at {} us", desc, st.start_t, t, smac, lt), "err-despite-exchange".into()));
                    } else if st.claimed_at_start && mtu_ok && dropped.is_empty() {
                        fails.push((format!("{} started at {} us returned Err at {} us; the address was claimed before the call and no frame of the run was lost", desc, st.start_t, t), "err-lossfree".into()));
                    }
                }
            }
        }
    }
    let mut by_dest: BTreeMap<u32, Vec<u64>> = BTreeMap::new();
    for st in rs.values() {
        if let Some((Ok(m), _)) = &st.done {
            by_dest.entry(st.dest).or_default().push(*m);
        }
    }
    for (d, ms) in by_dest.iter() {
        let owners: Vec<Option<usize>> = ms.iter().map(|m| mach_of_mac(macs, *m)).collect();
        if owners.windows(2).any(|w| w[0] != w[1]) {
            fails.push((format!("[multi_thread x{}] resolutions of {} returned MACs {:?} of different machines", workers, fmt_addr(*d), ms), "disagreement".into()));
        }
    }
    rep.line(format!("mt {}", workers), summary.join(" "));
    rep.nontrivial = rs.values().any(|st| matches!(st.done, Some((Ok(_), _)))) && case.resolves.len() >= 2;
    rep.count(format!("workers.{}", workers));
    rep.count_n("real_ms", t_real.elapsed().as_millis() as u64);
    for (what, ident) in fails {
        rep.fail(what, ident);
    }
    rep
}

/// scenarios for the real-time runs: everything claimed before the barrier, calls within the
/// first 300 ms, light loss
fn gen_mt(rng: &mut Rng) -> Case {
    let mut c = gen(rng);
    for cl in c.claims.iter_mut() {
        cl.at = None;
    }
    c.claims.sort_by_key(|cl| cl.sub.is_none()); // set_subnet first, so that later plain listens keep it
    for r in c.resolves.iter_mut() {
        r.at = (r.at % (300 * MS)) / MS * MS;
    }
    c.resolves.truncate(5);
    let loss = *rng.pick(&[0u64, 0, 0, 20, 50]);
    c.plan = (0..40).map(|_| if rng.below(100) < loss { Plan::Drop } else if rng.chance(1, 10) { Plan::Delay(*rng.pick(&[MS, 20 * MS, 150 * MS])) } else { Plan::Deliver }).collect();
    c.lat_us = *rng.pick(&[0u64, 0, MS]);
    c.mtu = None;
    c.dur_us = 300 * MS + budget_us() + 1500 * MS;
    c
}

// ------------------------------------------------------------------------------------------
// generator
// ------------------------------------------------------------------------------------------

const MS: u64 = 1000;

fn gen(rng: &mut Rng) -> Case {
    gen_with(rng, false)
}

/// `through_ip`: every resolution of the case goes through the IPv4 layer (run `c06-ip`)
fn gen_with(rng: &mut Rng, through_ip: bool) -> Case {
    let n = match rng.below(10) {
        0..=3 => 2 + rng.below(2) as usize,
        4..=7 => 4 + rng.below(4) as usize,
        _ => 8 + rng.below(5) as usize,
    };
    let slots: Vec<usize> = (0..n).map(|_| if rng.chance(1, 10) { 2 } else { 1 }).collect();
    // address pool: shared prefixes so that masks matter, plus extremes
    let nets: [u32; 5] = [0x0A00_0000, 0x0A00_0100, 0x0A01_0000, 0xC0A8_0100, 0xAC10_0080];
    let mut used: Vec<u32> = vec![];
    let fresh = |rng: &mut Rng, used: &mut Vec<u32>| -> u32 {
        loop {
            let ip = match rng.below(20) {
                0 => 1,
                1 => 0xFFFF_FFFE,
                2 => 0x7FFF_FFFF,
                3 => 0x8000_0000,
                _ => *rng.pick(&nets) + 1 + rng.below(120) as u32,
            };
            if !used.contains(&ip) {
                used.push(ip);
                return ip;
            }
        }
    };
    let mut claims: Vec<Claim> = vec![];
    let mut own: Vec<Vec<u32>> = vec![vec![]; n];
    for m in 0..n {
        let k = 1 + rng.below(3) as usize;
        for _ in 0..k {
            let ip = fresh(rng, &mut used);
            own[m].push(ip);
        }
    }
    let all: Vec<u32> = own.iter().flatten().copied().collect();
    let masks: [u32; 12] = [0, 1, 8, 16, 23, 24, 25, 28, 30, 31, 32, 33];
    for m in 0..n {
        for (j, ip) in own[m].clone().iter().enumerate() {
            // the first address of a machine is there from the start; others may appear later
            let at = if j > 0 && rng.chance(1, 4) { Some(*rng.pick(&[100 * MS, 300 * MS, 1000 * MS, 2500 * MS])) } else { None };
            let sub = if rng.chance(2, 5) {
                let bits = if rng.chance(1, 3) { rng.below(33) as u32 } else { *rng.pick(&masks) };
                let gw = match rng.below(10) {
                    0 => fresh(rng, &mut used), // nobody is the gateway
                    1 => *ip,                   // itself
                    _ => *rng.pick(&all),       // some machine (maybe itself)
                };
                Some((bits, gw))
            } else {
                None
            };
            claims.push(Claim { m, ip: *ip, at, sub });
            // a later plain listen must keep the subnet info; a later set_subnet replaces it
            if rng.chance(1, 12) {
                claims.push(Claim { m, ip: *ip, at: Some(50 * MS), sub: if rng.chance(1, 2) { None } else { Some((24, *rng.pick(&all))) } });
            }
        }
    }
    let k = match rng.below(10) {
        0..=2 => 1,
        3..=7 => 2 + rng.below(3) as usize,
        _ => 5 + rng.below(4) as usize,
    };
    let mut resolves: Vec<Res> = vec![];
    let burst_t = *rng.pick(&[0u64, 0, 10 * MS, 400 * MS]);
    let burst = rng.chance(1, 2);
    let target_pool: Vec<u32> = all.clone();
    let mut rid = 0;
    while resolves.len() < k {
        let m = rng.below(n as u64) as usize;
        let local = if rng.chance(1, 10) {
            let ip = fresh(rng, &mut used); // an address first claimed by resolve itself
            own[m].push(ip);
            ip
        } else {
            *rng.pick(&own[m])
        };
        let remote = match rng.below(20) {
            0 => local,                        // its own address
            1 => *rng.pick(&own[m]),           // another address of itself
            2..=4 => fresh(rng, &mut used),    // nobody's
            _ => *rng.pick(&target_pool),
        };
        let at = if burst && !resolves.is_empty() && rng.chance(2, 3) {
            burst_t
        } else {
            *rng.pick(&[0u64, 0, MS, 10 * MS, 150 * MS, 400 * MS, 1000 * MS, 1900 * MS, 2100 * MS, 3000 * MS])
        };
        let slot = rng.below(slots[m] as u64) as u32;
        resolves.push(Res { rid, m, local, remote, slot, at, via: Via::Arp });
        rid += 1;
        // concurrent resolvers of the same address (same machine or another one)
        if rng.chance(1, 3) && resolves.len() < k {
            let m2 = if rng.chance(1, 2) { m } else { rng.below(n as u64) as usize };
            let l2 = *rng.pick(&own[m2]);
            let at2 = if rng.chance(1, 2) { at } else { at + *rng.pick(&[MS, 100 * MS, 500 * MS, 1900 * MS]) };
            resolves.push(Res { rid, m: m2, local: l2, remote, slot: rng.below(slots[m2] as u64) as u32, at: at2, via: Via::Arp });
            rid += 1;
        }
    }
    let loss = *rng.pick(&[0u64, 0, 10, 30, 50, 80, 100]);
    let delays: [u64; 6] = [MS, 7 * MS, 50 * MS, 150 * MS, 199 * MS, 450 * MS];
    let head_drop = if rng.chance(1, 4) { rng.below(12) as usize } else { 0 };
    let plan: Vec<Plan> = (0..60)
        .map(|i| {
            if i < head_drop || rng.below(100) < loss {
                Plan::Drop
            } else {
                match rng.below(10) {
                    0 => Plan::Delay(*rng.pick(&delays)),
                    1 => Plan::Dup(*rng.pick(&delays)),
                    _ => Plan::Deliver,
                }
            }
        })
        .collect();
    let last = resolves.iter().map(|r| r.at).max().unwrap_or(0);
    let mtu = match rng.below(25) {
        0 | 1 if through_ip => Some(576),
        0 => Some(28),
        1 => Some(27),
        2 => Some(1500),
        _ => None,
    };
    // how each resolution is triggered: directly, or through the IPv4 layer (whole case or mixed);
    // with a tiny MTU the datagram that shows the session's MAC would not fit: direct calls only
    let style = if through_ip { 1 + rng.below(3) } else { rng.below(4) };
    if mtu.map(|m| m >= 100).unwrap_or(true) && style > 0 {
        let mut slot_of: BTreeMap<(usize, u32), u32> = BTreeMap::new();
        for r in resolves.iter_mut() {
            r.via = match style {
                1 => Via::Ip,
                2 => Via::Udp,
                _ if through_ip => *rng.pick(&[Via::Ip, Via::Udp]),
                _ => *rng.pick(&[Via::Arp, Via::Ip, Via::Udp]),
            };
            // a session to a loopback address (127/8) hands its datagrams to the own tap and
            // never shows a MAC on the wire (the resolution itself is done all the same)
            if r.remote >> 24 == 127 {
                r.via = Via::Arp;
            }
            if r.via != Via::Arp {
                // one route per local address: later resolutions from it use the same slot
                r.slot = *slot_of.entry((r.m, r.local)).or_insert(r.slot);
            }
        }
    }
    Case { mtu, lat_us: *rng.pick(&[0u64, 0, MS, 30 * MS]), dur_us: last + budget_us() + 700 * MS, slots, claims, resolves, plan, expect: vec![] }
}

/// The `kth` family: one resolver, one owner, bystanders; in the send order of the ARP frames
/// every round before the k-th loses its request (1 frame) or its reply (2 frames), the k-th
/// exchange gets through, `k = tries + 1` = none does.  `shape`: 0 = requests lost, 1 = replies
/// lost, 2 = alternating, 3 = drawn per round from `bits`.  The expectation is computed here, from
/// the property: Ok(owner) at `at + (k-1) * RESEND_DELAY + 2 * latency`, or Err at
/// `at + RESEND_TRIES * RESEND_DELAY`.
fn kth_case(via: Via, k: u64, shape: u64, bits: u64, lat_us: u64, at: u64, n: usize, subnet: bool, second: Option<(Via, u64)>) -> Case {
    let ip = |s: &str| parse_addr(s).unwrap();
    let (a, b) = (ip("10.0.0.1"), ip("10.0.0.2"));
    let mut claims = vec![
        Claim { m: 0, ip: a, at: None, sub: if subnet { Some((24, ip("10.0.0.254"))) } else { None } },
        Claim { m: 1, ip: b, at: None, sub: None },
    ];
    for m in 2..n {
        claims.push(Claim { m, ip: ip("10.0.0.10") + m as u32, at: None, sub: None });
    }
    let mut plan: Vec<Plan> = vec![];
    let rounds = |k: u64, plan: &mut Vec<Plan>, salt: u64| {
        for j in 1..=tries() {
            if j == k {
                plan.push(Plan::Deliver);
                plan.push(Plan::Deliver);
                break;
            }
            let lose_reply = match shape {
                0 => false,
                1 => true,
                2 => j % 2 == 0,
                _ => (bits >> ((j + salt) % 60)) & 1 == 1,
            };
            if lose_reply {
                plan.push(Plan::Deliver);
            }
            plan.push(Plan::Drop);
        }
    };
    rounds(k, &mut plan, 0);
    let expect_of = |rid: usize, owner: usize, k: u64, at: u64| {
        if k <= tries() {
            Expect { rid, owner: Some(owner), t: at + (k - 1) * delay_us() + 2 * lat_us }
        } else {
            Expect { rid, owner: None, t: at + budget_us() }
        }
    };
    let mut resolves = vec![Res { rid: 0, m: 0, local: a, remote: b, slot: 0, at, via }];
    let mut expect = vec![expect_of(0, 1, k, at)];
    if let Some((via2, k2)) = second {
        // a later resolver on another machine (the owner's table knows nothing of it yet), started
        // after the first budget is over; its rounds continue the plan
        let m2 = if n > 2 { 2 } else { 1 };
        let (l2, r2, o2) = if n > 2 { (ip("10.0.0.10") + 2, b, 1) } else { (b, ip("10.0.0.77"), 0) };
        if n == 2 {
            claims.push(Claim { m: 0, ip: ip("10.0.0.77"), at: None, sub: None });
        }
        let at2 = at + budget_us() + 100 * MS;
        // has machine m2 learned the target's MAC already?  (only from a request the target sent:
        // it sent none, so no)
        rounds(k2, &mut plan, 7);
        resolves.push(Res { rid: 1, m: m2, local: l2, remote: r2, slot: 0, at: at2, via: via2 });
        expect.push(expect_of(1, o2, k2, at2));
    }
    plan.extend((0..4).map(|_| Plan::Drop));
    let last = resolves.iter().map(|r| r.at).max().unwrap_or(0);
    Case { mtu: None, lat_us, dur_us: last + budget_us() + 700 * MS, slots: vec![1; n], claims, resolves, plan, expect }
}

fn gen_kth(rng: &mut Rng) -> Case {
    let via = *rng.pick(&[Via::Ip, Via::Ip, Via::Udp, Via::Udp, Via::Arp]);
    // the ends of the budget are the interesting positions
    let k = match rng.below(4) {
        0 => tries(),
        1 => tries() + 1,
        2 => *rng.pick(&[1, 2, tries().saturating_sub(1).max(1)]),
        _ => 1 + rng.below(tries()),
    };
    let second = if rng.chance(1, 3) { Some((*rng.pick(&[Via::Ip, Via::Udp, Via::Arp]), 1 + rng.below(tries() + 1))) } else { None };
    kth_case(
        via,
        k,
        rng.below(4),
        rng.next(),
        *rng.pick(&[0u64, 0, MS, 30 * MS, 99 * MS]),
        *rng.pick(&[0u64, 0, MS, 150 * MS, 1234 * MS]),
        2 + rng.below(3) as usize,
        rng.chance(1, 3),
        second,
    )
}

/// every position of the retry budget, for both ways through the IPv4 layer (and the direct call
/// as control): k = 1..=RESEND_TRIES and none, requests lost / replies lost
fn kth_systematic() -> Vec<Case> {
    let mut v = vec![];
    for via in [Via::Ip, Via::Udp, Via::Arp] {
        for k in 1..=tries() + 1 {
            for shape in [0u64, 1] {
                if via == Via::Arp && shape == 1 {
                    continue;
                }
                v.push(kth_case(via, k, shape, 0, if shape == 0 { 0 } else { MS }, 0, 2 + (k % 2) as usize, false, None));
            }
        }
    }
    v
}

/// hand-made scenarios (each probes one clause)
fn fixed_cases() -> Vec<Case> {
    let ip = |s: &str| parse_addr(s).unwrap();
    let (a, b, c) = (ip("10.0.0.1"), ip("10.0.0.2"), ip("10.0.1.3"));
    let base = |claims: Vec<Claim>, resolves: Vec<Res>, plan: Vec<Plan>, slots: Vec<usize>| {
        let last = resolves.iter().map(|r| r.at).max().unwrap_or(0);
        Case { mtu: None, lat_us: 0, dur_us: last + budget_us() + 700 * MS, slots, claims, resolves, plan, expect: vec![] }
    };
    let cl = |m, ip, at, sub| Claim { m, ip, at, sub };
    let rs = |rid, m, local, remote, at| Res { rid, m, local, remote, slot: 0, at, via: Via::Arp };
    let via = |mut c: Case, v: Via| {
        for r in c.resolves.iter_mut() {
            r.via = v;
        }
        c
    };
    vec![
        // plain exchange, then a table hit
        base(vec![cl(0, a, None, None), cl(1, b, None, None)], vec![rs(0, 0, a, b, 0), rs(1, 0, a, b, 5 * MS)], vec![], vec![1, 1]),
        // nobody claims the address: Err after exactly the budget; the next call
        base(vec![cl(0, a, None, None), cl(1, b, None, None)], vec![rs(0, 0, a, c, 0), rs(1, 0, a, c, 2500 * MS)], vec![], vec![1, 1]),
        // the owner appears after a failed resolution (stale failure in the table)
        base(vec![cl(0, a, None, None), cl(1, b, Some(2500 * MS), None)], vec![rs(0, 0, a, b, 0), rs(1, 0, a, b, 3000 * MS)], vec![], vec![1, 1]),
        // a resolver that joins shortly before another one gives up
        base(
            vec![cl(0, a, None, None), cl(1, b, None, None)],
            vec![rs(0, 0, a, b, 0), rs(1, 0, a, b, 1900 * MS)],
            (0..10).map(|_| Plan::Drop).chain([Plan::Delay(150 * MS)]).collect(),
            vec![1, 1],
        ),
        // resolving one's own address
        base(vec![cl(0, a, None, None), cl(1, b, None, None)], vec![rs(0, 0, a, a, 0)], vec![], vec![1, 1]),
        // gateway substitution: /24, target outside -> the gateway's MAC; target inside -> its own
        base(
            vec![cl(0, a, None, Some((24, b))), cl(1, b, None, None), cl(2, c, None, None), cl(2, ip("10.0.0.77"), None, None)],
            vec![rs(0, 0, a, c, 0), rs(1, 0, a, ip("10.0.0.77"), 10 * MS)],
            vec![],
            vec![1, 1, 1],
        ),
        // an answer arriving exactly when the last time-out expires
        base(
            vec![cl(0, a, None, None), cl(1, b, None, None)],
            vec![rs(0, 0, a, b, 0), rs(1, 0, a, b, 1000 * MS)],
            (0..14).map(|_| Plan::Drop).chain([Plan::Drop, Plan::Delay(200 * MS)]).collect(),
            vec![1, 1],
        ),
        // an owner with two taps answers twice
        base(vec![cl(0, a, None, None), cl(1, b, None, None)], vec![rs(0, 0, a, b, 0), rs(1, 0, a, b, 0)], vec![], vec![1, 2]),
        // ---- the same clauses with the resolutions triggered through the IPv4 layer ----
        // plain exchange, then a table hit (open returns at once)
        via(base(vec![cl(0, a, None, None), cl(1, b, None, None)], vec![rs(0, 0, a, b, 0), rs(1, 0, a, b, 5 * MS)], vec![], vec![1, 1]), Via::Ip),
        via(base(vec![cl(0, a, None, None), cl(1, b, None, None)], vec![rs(0, 0, a, b, 0), rs(1, 0, a, b, 5 * MS)], vec![], vec![1, 1]), Via::Udp),
        // nobody claims the address: the open call fails after exactly the budget, and again
        via(base(vec![cl(0, a, None, None), cl(1, b, None, None)], vec![rs(0, 0, a, c, 0), rs(1, 0, a, c, 2500 * MS)], vec![], vec![1, 1]), Via::Udp),
        // gateway substitution through the session: datagrams for an off-subnet address go to the gateway's MAC
        via(
            base(
                vec![cl(0, a, None, Some((24, b))), cl(1, b, None, None), cl(2, c, None, None), cl(2, ip("10.0.0.77"), None, None)],
                vec![rs(0, 0, a, c, 0), rs(1, 0, a, ip("10.0.0.77"), 10 * MS)],
                vec![],
                vec![1, 1, 1],
            ),
            Via::Ip,
        ),
        // the answer arrives exactly when the last time-out expires
        via(
            base(vec![cl(0, a, None, None), cl(1, b, None, None)], vec![rs(0, 0, a, b, 0)], (0..9).map(|_| Plan::Drop).chain([Plan::Delay(200 * MS)]).collect(), vec![1, 1]),
            Via::Ip,
        ),
        // two concurrent opens for one address, one direct resolver alongside
        {
            let mut c = base(vec![cl(0, a, None, None), cl(1, b, None, None)], vec![rs(0, 0, a, b, 0), rs(1, 0, a, b, 0), rs(2, 0, a, b, 300 * MS)], (0..3).map(|_| Plan::Drop).collect(), vec![1, 1]);
            c.resolves[0].via = Via::Ip;
            c.resolves[1].via = Via::Udp;
            c
        },
    ]
}

const RULE: &str = "LANs of 2..12 machines (1-2 taps), 1-3 claimed addresses each (some appearing later, 40% with SubnetInfo: masks 0..33, gateway = some machine / nobody / itself), 1..8 resolutions (own, others', unclaimed and off-subnet targets; bursts of concurrent resolvers of one address on one or several machines), fault plan over the ARP frames in send order (loss 0..100%, leading drops, delays 1..450 ms, duplicates), latency 0/1/30 ms, MTU none/1500/28/27; in 3 of 4 cases the resolutions are triggered through the IPv4 layer (Ipv4::open_for_sending / Udp::open_and_listen on a machine whose route has no MAC; all of them, or mixed with direct Arp::resolve calls), the resolved MAC read from the destination of a datagram sent through the opened session; paused-clock runtime; non-trivial = a resolution that had to wait got an answer and the case has a lost frame, a failed resolution, a concurrent pair or a gateway substitution; distinct = hash of the configuration lines";

const RULE_IP: &str = "resolutions triggered THROUGH the IPv4 layer (Ipv4::open_for_sending or Udp::open_and_listen on a machine with ARP and a MAC-less /32 route for the local address; direct Arp::resolve as control): (1) systematically, for each way, every position of the retry budget: only the k-th request/reply exchange gets through for k = 1..=RESEND_TRIES, and none, the earlier rounds losing the request or the reply; (2) generated cases of that family (k biased to the ends of the budget, latency 0..99 ms, start time, 2..4 machines, SubnetInfo, per-round choice of which frame is lost, optionally a second resolver on another machine after the first budget); (3) the generated LANs of the main run with every resolution through IPv4; outcome and completion instant of the open call are compared with the model's `resolve` (replay) and with what the configuration prescribes (Ok(owner) at start + (k-1)*RESEND_DELAY + 2*latency, Err at start + RESEND_TRIES*RESEND_DELAY, never earlier); the MAC is the destination of a datagram sent through the opened session; non-trivial = as in the main run, or any case of the k-th-exchange family; distinct = hash of the configuration lines";

const RULE_MT: &str = "the generator of the main run restricted to claims made before the barrier, <= 5 calls within the first 300 ms, loss 0/20/50 %, on tokio multi_thread runtimes with 2/4/16 workers in real time (run ends when the log is quiet); oracle only (owner's MAC, never an unclaimed address, only owners announce, budget respected with 0.4 s scheduling slack plus twice the timer lateness a probe task measured during the resolution, claimed + loss-free => Ok, agreement); non-trivial = >= 2 calls and an Ok answer";

fn case_of_spec(spec: &str) -> Option<Case> {
    if spec.starts_with("replay") {
        return Case::from_lines(spec.lines().skip(1));
    }
    let w: Vec<&str> = spec.split_whitespace().collect();
    match w.as_slice() {
        ["fixed", k] => fixed_cases().get(k.parse::<usize>().ok()?).cloned(),
        ["gen", seed] => Some(gen(&mut Rng::new(seed.parse().ok()?))),
        ["kth", k] => kth_systematic().get(k.parse::<usize>().ok()?).cloned(),
        ["genk", seed] => Some(gen_kth(&mut Rng::new(seed.parse().ok()?))),
        ["genip", seed] => Some(gen_with(&mut Rng::new(seed.parse().ok()?), true)),
        ["genmt", seed, _workers] => Some(gen_mt(&mut Rng::new(seed.parse().ok()?))),
        _ => None,
    }
}

fn worker_case(spec: &str) -> CaseReport {
    let mt_workers: Option<usize> = match spec.split_whitespace().collect::<Vec<_>>().as_slice() {
        ["genmt", _, w] => w.parse().ok(),
        ["replay", rest @ ..] => rest.iter().find_map(|x| x.strip_prefix("mt=")).and_then(|w| w.parse().ok()),
        _ => None,
    };
    match case_of_spec(spec) {
        Some(c) if mt_workers.is_some() => run_case_mt(&c, mt_workers.unwrap()),
        Some(c) => run_case(&c),
        None => {
            let mut r = CaseReport::default();
            r.line("cfg ?", "bad-spec");
            r
        }
    }
}

pub fn run(args: &Args) {
    if is_worker(args) {
        worker_loop(worker_case);
        return;
    }
    let mut out = Out::new(&args.out);
    let mt = args.prop == "c06-mt";
    let ip = args.prop == "c06-ip";
    let specs: Vec<String> = if let Some(rp) = &args.replay {
        let ops = read_ops(rp);
        let head = match ops.iter().find_map(|l| l.strip_prefix("mt ")) {
            Some(w) if mt => format!("replay mt={}", w.trim()),
            _ => "replay".to_string(),
        };
        vec![format!("{}\n{}", head, ops.into_iter().filter(|l| l.starts_with("cfg ")).collect::<Vec<_>>().join("\n"))]
    } else if mt {
        let mut rng = Rng::new(args.seed);
        (0..args.cases).map(|i| format!("genmt {} {}", rng.next(), [2usize, 4, 16][i as usize % 3])).collect()
    } else if ip {
        // resolutions driven through the IPv4 layer: every position of the retry budget first,
        // then generated `kth` cases and generated LANs whose resolutions all go through IPv4
        let mut rng = Rng::new(args.seed ^ 0x1b06);
        let mut v: Vec<String> = (0..kth_systematic().len()).map(|k| format!("kth {}", k)).collect();
        v.extend((0..args.cases).map(|i| if i % 2 == 0 { format!("genk {}", rng.next()) } else { format!("genip {}", rng.next()) }));
        v
    } else {
        let mut rng = Rng::new(args.seed);
        let mut v: Vec<String> = (0..fixed_cases().len()).map(|k| format!("fixed {}", k)).collect();
        v.extend((0..args.cases).map(|_| format!("gen {}", rng.next())));
        v
    };
    // real-time cases mostly sleep: run more of them side by side
    let (procs, batch) = if mt { (6, 4) } else { (default_workers(), 25) };
    for (c, o) in run_cases(&args.prop, &specs, procs, batch, 120).iter().enumerate() {
        out.begin_case(c as u64);
        match o {
            CaseOutcome::Done(rep) => rep.emit(&mut out),
            died => {
                let (line, ident) = died_ident(died);
                if let Some(case) = case_of_spec(&specs[c]) {
                    for l in case.to_lines() {
                        out.line(&l, "cfg");
                    }
                }
                out.line("crash", &line);
                out.fail(&format!("the simulation process died while running case `{}`: {}", specs[c].lines().next().unwrap_or(""), ident), &ident);
            }
        }
        out.end_case();
    }
    out.finish(if mt {
        RULE_MT
    } else if ip {
        RULE_IP
    } else {
        RULE
    });
}
