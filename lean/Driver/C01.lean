import ElvisVerif.Model.TcpSys
import Driver.Common
/-!
Line protocol of the two-endpoint TCP system (sub-commands `c01*`, also used by `c03*`,
`c12-run*`, `c17*`): one op per line, one answer per line = the op's result, then the canonical
dump of the addressed side (everything `Tcb::verif_snapshot` shows).

Ops (numbers decimal, side `A` or `B`):
`open X iss mtu` · `listen X iss mtu` · `write X len seed` · `writehex X hex` · `read X` ·
`tick X ms` · `emit X` · `deliver X i` · `inject X ctl seq ack wnd len seed` ·
`injecthex X ctl seq ack wnd hex` · `close X` ·
`abort X` · `drop X`.

Large byte strings are printed as `len:fnv1a64`; in the state dump buffers longer than 64 bytes
are hashed over their first and last 32 bytes only (results — `read`, emitted segments — are
always hashed in full); lists longer than 6 entries print their length, an order-sensitive
checksum and the first and last three entries.
-/
namespace Driver.C01
open Elvis.Tcp

def fnv (bs : List UInt8) : UInt64 :=
  bs.foldl (fun h b => (h ^^^ b.toUInt64) * 0x100000001b3) 0xcbf29ce484222325

def hex16 (h : UInt64) : String :=
  String.ofList ((List.range 16).map fun i => Driver.hexDigit ((h >>> (UInt64.ofNat (60 - 4 * i))).toNat % 16))

def full (bs : List UInt8) : String := s!"{bs.length}:{hex16 (fnv bs)}"

def cheap (bs : List UInt8) : String :=
  let n := bs.length
  if n ≤ 64 then full bs else s!"{n}:{hex16 (fnv (bs.take 32 ++ bs.drop (n - 32)))}"

/-- payload generator shared with the harness: LCG `x := x*1103515245 + 12345 (mod 2^32)`,
    byte = bits 16..23 -/
def genBytes (len seed : Nat) : List UInt8 :=
  let rec go : Nat → UInt32 → List UInt8 → List UInt8
    | 0, _, acc => acc.reverse
    | n + 1, x, acc =>
      let x := x * 1103515245 + 12345
      go n x ((x >>> 16).toUInt8 :: acc)
  go len (UInt32.ofNat seed) []

def hdrStr (h : Hdr) : String :=
  s!"{h.srcPort.toNat}.{h.dstPort.toNat}.{h.seq.toNat}.{h.ack.toNat}.{h.dataOffset.toNat}.{h.ctl.toNat}.{h.wnd.toNat}.{h.urg.toNat}.{h.checksum.toNat}"

/-- `[e1,e2,…]`, abbreviated beyond six entries; `w` = per-entry weight for the checksum -/
def listStr {α : Type} (xs : List α) (f : α → String) (w : α → Nat) : String :=
  let n := xs.length
  if n ≤ 6 then "[" ++ ",".intercalate (xs.map f) ++ "]"
  else
    let agg := (xs.foldl (fun (acc : Nat × Nat) x => (acc.1 + 1, (acc.2 + (acc.1 + 1) * w x) % 4294967296)) (0, 0)).2
    "[n=" ++ toString n ++ " agg=" ++ toString agg ++ " " ++ ",".intercalate ((xs.take 3).map f) ++ ",..," ++
      ",".intercalate ((xs.drop (n - 3)).map f) ++ "]"

def segWeight (s : Segment) : Nat := s.hdr.seq.toNat + s.hdr.ack.toNat + s.hdr.ctl.toNat + s.text.length

def emittedStr (segs : List Segment) : String :=
  let hx := segs.foldl (fun (h : UInt64) s => h ^^^ fnv s.text) 0
  listStr segs (fun s => s!"{hdrStr s.hdr}/{full s.text}") segWeight ++ s!" hx={hex16 hx}"

def stateStr : State → String
  | .SynSent => "SynSent" | .SynReceived => "SynReceived" | .Established => "Established"
  | .FinWait1 => "FinWait1" | .FinWait2 => "FinWait2" | .CloseWait => "CloseWait"
  | .Closing => "Closing" | .LastAck => "LastAck" | .TimeWait => "TimeWait"

def tcbStr (t : Tcb) : String :=
  let init := match t.initiation with | .Listen => "L" | .Open => "O"
  let rtx := listStr t.outgoing.retransmit
    (fun x => s!"{hdrStr x.segment.hdr}/{cheap x.segment.text}/{if x.needsTransmit then 1 else 0}")
    (fun x => segWeight x.segment + (if x.needsTransmit then 1 else 0))
  let one := listStr t.outgoing.oneshot hdrStr (fun h => h.seq.toNat + h.ack.toNat + h.ctl.toNat)
  let heap := listStr t.incoming.segments (fun s => s!"{hdrStr s.hdr}/{cheap s.text}") segWeight
  let tw := match t.timeouts.timeWait with | none => "-" | some v => toString v
  s!"st={stateStr t.state} init={init} mtu={t.mtu.toNat} " ++
  s!"snd={t.snd.una.toNat},{t.snd.nxt.toNat},{t.snd.wnd.toNat},{t.snd.wl1.toNat},{t.snd.wl2.toNat},{t.snd.iss.toNat} " ++
  s!"rcv={t.rcv.irs.toNat},{t.rcv.nxt.toNat},{t.rcv.wnd.toNat} ot={cheap t.outgoing.text} rtx={rtx} one={one} " ++
  s!"heap={heap} it={cheap t.incoming.text} rto={t.timeouts.retransmission} tw={tw}"

def sideStr (sd : Side) : String :=
  match sd.tcb, sd.listen with
  | some t, _ => tcbStr t
  | none, some (iss, mtu) => s!"listen({iss.toNat},{mtu.toNat})"
  | none, none => "none"

def resStr : Res → String
  | .ok => "ok"
  | .noTcb => "notcb"
  | .noSeg => "noseg"
  | .read bytes => s!"read {full bytes}"
  | .tick .Ignore => "ignore"
  | .tick .CloseConnection => "close"
  | .emitted first segs => s!"emit {first} {emittedStr segs}"
  | .arrived .Ok => "ok"
  | .arrived .Close => "close"
  | .listenTcb => "tcb"
  | .response i h => s!"response {i} {hdrStr h}"
  | .nothing => "none"
  | .closed .Ok => "ok"
  | .closed .ConnectionClosing => "closing"
  | .closed .CloseConnection => "closeconn"

def parseSide : String → Option SideId
  | "A" => some .A
  | "B" => some .B
  | _ => none

def seqOf (n : Nat) : Seq := BitVec.ofNat 32 n
def u16Of (n : Nat) : U16 := BitVec.ofNat 16 n

def parseOp : List String → Option Op
  | ["open", x, iss, mtu] => do pure (.open (← parseSide x) (seqOf (← iss.toNat?)) (u16Of (← mtu.toNat?)))
  | ["listen", x, iss, mtu] => do pure (.listen (← parseSide x) (seqOf (← iss.toNat?)) (u16Of (← mtu.toNat?)))
  | ["write", x, len, seed] => do pure (.write (← parseSide x) (genBytes (← len.toNat?) (← seed.toNat?)))
  | ["writehex", x, h] => do pure (.write (← parseSide x) (← Driver.parseHex h))
  | ["read", x] => do pure (.read (← parseSide x))
  | ["tick", x, ms] => do pure (.tick (← parseSide x) (← ms.toNat?))
  | ["emit", x] => do pure (.emit (← parseSide x))
  | ["deliver", x, i] => do pure (.deliver (← parseSide x) (← i.toNat?))
  | ["inject", x, ctl, seq, ack, wnd, len, seed] => do
    let sd ← parseSide x
    pure (.inject sd (forge sd ((← ctl.toNat?) % 64) (← seq.toNat?) (← ack.toNat?) (← wnd.toNat?)
      (genBytes (← len.toNat?) (← seed.toNat?))))
  | ["injecthex", x, ctl, seq, ack, wnd, h] => do
    let sd ← parseSide x
    pure (.inject sd (forge sd ((← ctl.toNat?) % 64) (← seq.toNat?) (← ack.toNat?) (← wnd.toNat?)
      (← Driver.parseHex h)))
  | ["close", x] => do pure (.close (← parseSide x))
  | ["abort", x] => do pure (.abort (← parseSide x))
  | ["drop", x] => do pure (.drop (← parseSide x))
  | _ => none

structure St where
  sys : Sys := {}
  dead : Bool := false

def step (st : St) (ws : List String) : St × String :=
  match ws with
  | ["case", id] => ({}, s!"case {id}")
  | _ =>
    if st.dead then (st, "dead") else
    match parseOp ws with
    | none => (st, "bad-op")
    | some op =>
      let x := op.side
      let name := match x with | .A => "A" | .B => "B"
      match st.sys.step op with
      | .ok (sys, r) => ({ st with sys := sys }, s!"{resStr r} | {name} {sideStr (sys.side x)}")
      | .error e => ({ st with dead := true }, s!"err {e}")

def dispatch (sub : String) (i o : IO.FS.Stream) : Option (IO Unit) :=
  if sub.startsWith "c01" then some (Driver.loop i o step {}) else none

end Driver.C01
