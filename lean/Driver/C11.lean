import ElvisVerif.Model.Reasm
import Driver.Common
import Driver.C10
/-! Line-protocol handlers for C11 (sub-commands `c11` / `c11-*`).

```
case <id>
dgram <11 header fields> <body>      (oracle bookkeeping only; the model answers `ok`)
pkt <ihl> <tos> <tl> <ident> <fo> <flags> <ttl> <proto> <cksum> <src> <dst> <body>
cull <src> <dst> <proto> <ident> <epoch> <token#>
```
`pkt` = `Reassembly::receive_packet`, `cull` = `Reassembly::maybe_cull_segment` (`token#` is for
the harness oracle only).  Every answer ends with the number of allocated buffers. -/
namespace Driver.C11
open Elvis.Frag Elvis.Reasm

/-- the behaviour of the code currently in the repository -/
def cfg : Cfg := Cfg.fixed

def showId (id : BufId) : String := s!"{id.src},{id.dst},{id.proto},{id.ident}"

def showOut (r : Reassembly) : Out → String
  | .res (.complete h b) => s!"C{Driver.C10.showFrag (h, b)} n={r.segments.length}"
  | .res (.incomplete t id e) => s!"I {t} {showId id} {e} n={r.segments.length}"
  | .panic e => s!"P:{e} n={r.segments.length}"
  | .culled a b => s!"cull {if a then 1 else 0} {if b then 1 else 0} n={r.segments.length}"

def parseOp : List String → Option Op
  | "pkt" :: rest => do
    let b ← rest.getLast?
    let h ← Driver.C10.parseHdr rest.dropLast
    let body ← Driver.C10.parseBody b
    pure (.pkt h body)
  | ["cull", src, dst, proto, ident, epoch, _tok] => do
    pure (.cull ⟨← src.toNat?, ← dst.toNat?, ← proto.toNat?, ← ident.toNat?⟩ (← epoch.toNat?))
  | _ => none

def step (r : Reassembly) (ws : List String) : Reassembly × String :=
  match ws with
  | ["case", id] => (Reassembly.new, s!"case {id}")
  | "dgram" :: _ => (r, "ok")
  | _ =>
    match parseOp ws with
    | none => (r, "bad-op")
    | some op =>
      let (r', o) := Elvis.Reasm.step cfg r op
      (r', showOut r' o)

def dispatch (sub : String) (i o : IO.FS.Stream) : Option (IO Unit) :=
  if sub == "c11" || sub.startsWith "c11-" then some (Driver.loop i o step Reassembly.new) else none

end Driver.C11
