/-!
# Model of the simulated link: `Network`, `PciSession::send_pci`, `Network::send`, `PciSession::receive`

Import-free (linked into the native driver).  Mirrors

* `Network::next_mac` / `register_tap` / `PciSession::new` — MACs from the `next_mac` counter
* `PciSession::send_pci` — length check against the MTU FIRST, then the frame goes to the network
* `Network::send` — (loss) → throughput: wait for the permit (FIFO), hold it for the
  transmission time, release → latency → unicast lookup or broadcast fan-out
* `PciSession::receive` — the tap hands message + `DemuxInfo` to the protocol named in the frame

Time is virtual microseconds.  tokio timers (modelled, not verified): a `sleep(d)` with `d > 0`
started at instant `t` wakes at the next millisecond tick at or after `t + d` (`wake`); all
timers of this code start on a tick.  The permit (`tokio::sync::Notify`) is handed to waiters
in FIFO order, so frames are served in the order they reach `Network::send` — that order (the
tokio scheduler's choice among tasks runnable at the same instant) is an INPUT of the model.
The unseeded draws (`rand::random`) of loss, throughput and latency are explicit `Choice`s.
-/
namespace Elvis.Link

abbrev Mac := Nat

def broadcastMac : Mac := 0xFFFFFFFFFFFF       -- Network::BROADCAST_MAC
def nsPerSec : Nat := 1000000000
def nsPerMs : Nat := 1000000
def usPerMs : Nat := 1000

structure Net where
  mtu : Nat
  /-- latency base / randomness, microseconds -/
  latBase : Nat
  latRand : Nat
  /-- throughput base / randomness, bytes per second; base 0 and randomness 0 = unlimited -/
  thrBase : Nat
  thrRand : Nat
  /-- `Network.next_mac` -/
  nextMac : Nat := 0
  /-- registered taps (keys of `Network.taps`), in attachment order -/
  taps : List Mac := []
deriving Repr

/-- `PciSession::new`: take the counter value, bump the counter, register the tap -/
def attach (n : Net) : Net × Mac :=
  ({ n with nextMac := n.nextMac + 1, taps := n.taps ++ [n.nextMac] }, n.nextMac)

def attachMany : Net → Nat → Net
  | n, 0 => n
  | n, k + 1 => attachMany (attach n).1 k

structure Frame where
  sender : Mac
  /-- `None` = broadcast -/
  dest : Option Mac
  msg : List UInt8
deriving Repr, DecidableEq

inductive SendErr
  | mtu (limit : Nat)
deriving Repr, DecidableEq

/-- `PciSession::send_pci`: `.ok f` = the delivery handed to `Network::send` (spawned) -/
def sendPci (n : Net) (f : Frame) : Except SendErr Frame :=
  if f.msg.length > n.mtu then .error (.mtu n.mtu) else .ok f

/-- the taps `Network::send` hands the frame to -/
def recipients (n : Net) (dest : Option Mac) : List Mac :=
  match dest with
  | none => n.taps
  | some d => if d = broadcastMac then n.taps else if d ∈ n.taps then [d] else []

/-- what the protocol named in the frame sees at one tap (`DemuxInfo` + message) -/
structure Received where
  tap : Mac
  source : Mac
  destination : Option Mac
  mtu : Nat
  msg : List UInt8
deriving Repr, DecidableEq

/-- fan-out + `PciSession::receive` -/
def deliver (n : Net) (f : Frame) : List Received :=
  (recipients n f.dest).map fun t => { tap := t, source := f.sender, destination := f.dest, mtu := n.mtu, msg := f.msg }

/-! ## Timing -/

def ceilMs (us : Nat) : Nat := (us + (usPerMs - 1)) / usPerMs * usPerMs

/-- instant at which a `sleep(d)` started at `now` completes -/
def wake (now d : Nat) : Nat := if d = 0 then now else ceilMs (now + d)

/-- the unseeded random draws of one `Network::send` -/
structure Choice where
  lost : Bool
  /-- `Throughput::next()` -/
  thr : Nat
  /-- `Latency::next()`, microseconds -/
  lat : Nat
deriving Repr

/-- the draws the configuration allows -/
def Choice.valid (n : Net) (c : Choice) : Prop :=
  (if n.thrRand = 0 then c.thr = n.thrBase else n.thrBase ≤ c.thr ∧ c.thr < n.thrBase + n.thrRand) ∧
  n.latBase ≤ c.lat ∧ c.lat ≤ n.latBase + n.latRand

/-- state of the medium: when the permit is free again, and the sub-millisecond transmission
time carried over from earlier frames (nanoseconds, `< 10^6`) -/
structure Medium where
  free : Nat := 0
  carry : Nat := 0
deriving Repr

structure Timing where
  /-- got the permit -/
  start : Nat
  /-- released the permit (end of transmission) -/
  done : Nat
  /-- handed to the taps -/
  deliver : Nat
deriving Repr

/-- nanoseconds of medium time charged to a frame: `len * 10^9 / thr + carry` -/
def txNs (len thr carry : Nat) : Nat := len * nsPerSec / thr + carry

/-- throughput + latency part of `Network::send` for a frame that reaches it at `t0` -/
def transmit (m : Medium) (t0 len : Nat) (c : Choice) : Medium × Timing :=
  if c.thr = 0 then (m, ⟨t0, t0, wake t0 c.lat⟩)
  else
    let ns := txNs len c.thr m.carry
    let start := max t0 m.free
    let done := wake start (ns / nsPerMs * usPerMs)
    ({ free := done, carry := ns % nsPerMs }, ⟨start, done, wake done c.lat⟩)

/-- one frame handed to `Network::send` at `t0` (in queue order) -/
structure Send where
  t0 : Nat
  frame : Frame
  choice : Choice
deriving Repr

structure WireOut where
  frame : Frame
  timing : Timing
  received : List Received
deriving Repr

/-- `Network::send` for a sequence of frames in the order they reach it; lost frames vanish -/
def runSends (n : Net) : Medium → List Send → List WireOut
  | _, [] => []
  | m, s :: rest =>
    if s.choice.lost then runSends n m rest
    else
      let r := transmit m s.t0 s.frame.msg.length s.choice
      { frame := s.frame, timing := r.2, received := deliver n s.frame } :: runSends n r.1 rest

/-! ## Interval version used by the driver when draws are unknown (variable settings) -/

structure MediumI where
  freeLo : Nat := 0
  freeHi : Nat := 0
  carryLo : Nat := 0
  carryHi : Nat := 0
deriving Repr

structure TimingI where
  deliverLo : Nat
  deliverHi : Nat
deriving Repr

def thrLo (n : Net) : Nat := n.thrBase
def thrHi (n : Net) : Nat := if n.thrRand = 0 then n.thrBase else n.thrBase + n.thrRand - 1

def transmitI (n : Net) (m : MediumI) (t0 len : Nat) : MediumI × TimingI :=
  if n.thrBase = 0 then (m, ⟨wake t0 n.latBase, wake t0 (n.latBase + n.latRand)⟩)
  else
    let nsLo := txNs len (thrHi n) m.carryLo
    let nsHi := txNs len (thrLo n) m.carryHi
    let doneLo := wake (max t0 m.freeLo) (nsLo / nsPerMs * usPerMs)
    let doneHi := wake (max t0 m.freeHi) (nsHi / nsPerMs * usPerMs)
    let exact := n.thrRand = 0 ∧ m.carryLo = m.carryHi
    ({ freeLo := doneLo, freeHi := doneHi,
       carryLo := if exact then nsLo % nsPerMs else 0,
       carryHi := if exact then nsLo % nsPerMs else nsPerMs - 1 },
     ⟨wake doneLo n.latBase, wake doneHi (n.latBase + n.latRand)⟩)

end Elvis.Link
