import ElvisVerif.Lemmas.TcpRelFwd2
/-!
# Forward evaluation of the three-way handshake (active / passive open)

* `open_eq` — `Tcb::open`, explicitly (`openT`);
* `segments_quiet_eq` — `segments()` when the segmentizing loop does nothing (no text, or window 0 in SYN-SENT);
* `listen_eq` — the LISTEN handler on a SYN (`listenT`: SYN-RECEIVED, the SYN-ACK queued, the SYN parked
  without its SYN bit);
* `arrive_synack_synsent` — the SYN-ACK in SYN-SENT: ESTABLISHED, an ACK queued (`synAckT`);
* `arrive_ack_synrcvd` — the ACK in SYN-RECEIVED with the parked SYN still in the reorder heap: the parked
  segment is processed first and changes nothing, then ESTABLISHED (`estT`).
-/
namespace Elvis.Tcp
open Elvis.ModCmp
namespace Tcb
open Elvis.Tcp.Fin

/-- the SYN of an active open -/
def synHdr (lp rp : U16) (iss : Seq) : Hdr := (((Hdr.builder lp rp iss).withSyn).withWnd ({} : Rcv).wnd).built

/-- the TCB `Tcb::open` returns -/
def openT (lp rp : U16) (iss : Seq) (mtu : U16) : Tcb :=
  { localPort := lp, remotePort := rp, mtu := mtu, initiation := .Open, state := .SynSent,
    snd := { iss := iss, una := iss, nxt := iss + 1 }, rcv := {},
    outgoing := { retransmit := [Transmit.new ⟨synHdr lp rp iss, []⟩] } }

theorem open_eq (lp rp : U16) (iss : Seq) (mtu : U16) : Tcb.open lp rp iss mtu = .ok (openT lp rp iss mtu) := by
  unfold Tcb.open
  dsimp only
  rw [enqueue_eq]
  unfold enqueueBuilt
  rw [if_pos (by simp [Hdr.built, Hdr.withSyn, Hdr.withWnd, headerBuilder])]
  rfl

theorem segments_quiet_eq (t : Tcb)
    (hseg : segmentizeIfOpen ({ t with outgoing.oneshot := [] } : Tcb) = .ok ({ t with outgoing.oneshot := [] } : Tcb))
    (hp : t.finPending = false) : t.segments = .ok (emitT t, emitOut t) := by
  unfold segments
  dsimp only
  rw [hseg]
  dsimp only
  rw [hp]
  unfold finIfPending
  rw [if_neg Bool.false_ne_true]
  dsimp only
  unfold emitT emitOut
  split <;> rfl

/-- `segments()` in SYN-SENT while the peer's window is unknown (0): only the SYN -/
theorem segments_synsent_eq (t : Tcb) (hst : t.state = .SynSent) (hw : t.snd.wnd = 0)
    (hm : ¬ t.mtu.toNat < SPACE_FOR_HEADERS) : t.segments = .ok (emitT t, emitOut t) := by
  refine segments_quiet_eq t ?_ ?_
  · exact segmentizeIfOpen_synSent ({ t with outgoing.oneshot := [] } : Tcb) hst hw hm
  · rw [finPending_eq, hst]; rfl

/-! ## LISTEN -/

def lsnSynAck (g : Segment) (iss : Seq) : Hdr :=
  ((((Hdr.builder g.hdr.dstPort g.hdr.srcPort iss).withSyn).withAck (g.hdr.seq + 1)).withWnd ({} : Rcv).wnd).built

/-- the SYN as the LISTEN handler parks it: SYN and ACK bits cleared -/
def parkedSyn (g : Segment) : Segment :=
  ⟨{ g.hdr with ctl := { g.hdr.ctl with syn := false, ack := false } }, g.text⟩

/-- the TCB the LISTEN handler creates for a SYN -/
def listenT (g : Segment) (iss : Seq) (mtu : U16) : Tcb :=
  { localPort := g.hdr.dstPort, remotePort := g.hdr.srcPort, mtu := mtu, initiation := .Listen, state := .SynReceived,
    snd := { iss := iss, una := iss, nxt := iss + 1, wnd := g.hdr.wnd, wl1 := g.hdr.seq, wl2 := iss },
    rcv := { irs := g.hdr.seq, nxt := g.hdr.seq + 1 },
    outgoing := { retransmit := [Transmit.new ⟨lsnSynAck g iss, []⟩] },
    incoming := { segments := [parkedSyn g] } }

theorem listen_eq (g : Segment) (iss : Seq) (mtu : U16) (hrst : g.hdr.ctl.rst = false) (hack : g.hdr.ctl.ack = false)
    (hsyn : g.hdr.ctl.syn = true) :
    segmentArrivesListen g iss mtu = .ok (some (.Tcb (listenT g iss mtu))) := by
  unfold segmentArrivesListen
  dsimp only
  rw [if_neg (by simp [hrst]), if_neg (by simp [hack]), if_pos hsyn, enqueue_eq]
  dsimp only
  unfold enqueueBuilt
  rw [if_pos (by simp [Hdr.built, Hdr.withSyn, Hdr.withAck, Hdr.withWnd, headerBuilder])]
  rfl

/-! ## the SYN-ACK in SYN-SENT -/

/-- `segment_arrives` in SYN-SENT with an empty reorder heap: the segment is processed at once -/
theorem arrive_single_synsent (t : Tcb) (g : Segment) (hst : t.state = .SynSent) (hheap : t.incoming.segments = [])
    (t' : Tcb) (r : ProcessSegmentResult) (hp : t.processSegment g = .ok (t', r)) (hr : r.shouldDeleteTcb = false) :
    t.segmentArrives g = .ok (t', .Ok) := by
  have hh' : t'.incoming.segments = [] := by rw [processSegment_heap _ _ _ _ hp, hheap]
  cases t with
  | mk lp rp mtu ini st snd rcv out inc tmo =>
    cases inc with
    | mk segs text =>
      simp only at hst hheap
      subst hst
      subst hheap
      unfold segmentArrives
      dsimp only
      rw [if_pos rfl]
      dsimp only
      rw [C01.push_nil]
      have h2 : [g].length + 1 = 2 := rfl
      rw [h2]
      unfold drain
      dsimp only
      rw [C01.peek_single]
      dsimp only
      rw [C01.pop_single]
      simp only [ne_eq, not_true_eq_false, decide_false, Bool.false_and, Bool.false_eq_true, if_false]
      have e' : processSegment
          ({ localPort := lp, remotePort := rp, mtu := mtu, initiation := ini, state := .SynSent, snd := snd, rcv := rcv,
             outgoing := out, incoming := { segments := [], text := text }, timeouts := tmo } : Tcb) g = .ok (t', r) := hp
      rw [e']
      dsimp only
      rw [hr]
      simp only [Bool.false_eq_true, if_false]
      unfold drain
      rw [hh']
      rfl

/-- the TCB after the SYN-ACK, before the ACK is queued -/
def synAckT0 (t : Tcb) (g : Segment) : Tcb :=
  let s1 : Tcb := (({ t with snd.una := g.hdr.ack } : Tcb).removeAckedFromRetransmission g.hdr.ack)
  ({ s1 with rcv.irs := g.hdr.seq, rcv.nxt := g.hdr.seq + 1, snd.wnd := g.hdr.wnd, snd.wl1 := g.hdr.seq, snd.wl2 := g.hdr.ack, state := .Established } : Tcb)

/-- the TCB after the SYN-ACK -/
def synAckT (t : Tcb) (g : Segment) : Tcb :=
  ({ synAckT0 t g with outgoing.oneshot := (synAckT0 t g).outgoing.oneshot ++ [(synAckT0 t g).ackHdr.built] } : Tcb)

theorem arrive_synack_synsent (t : Tcb) (g : Segment) (hst : t.state = .SynSent) (hheap : t.incoming.segments = [])
    (hrst : g.hdr.ctl.rst = false) (hsyn : g.hdr.ctl.syn = true) (hfin : g.hdr.ctl.fin = false)
    (hack : g.hdr.ctl.ack = true) (htext : g.text = [])
    (h1 : modBounded t.snd.nxt .Lt g.hdr.ack .Leq t.snd.iss = false)
    (h2 : modBounded t.snd.una .Lt g.hdr.ack .Leq t.snd.nxt = true)
    (h3 : modGt g.hdr.ack t.snd.iss = true) :
    t.segmentArrives g = .ok (synAckT t g, .Ok) := by
  have c1 : seqCheck t g.hdr (BitVec.ofNat 32 g.text.length) = .ok (t, none) := by
    unfold seqCheck; rw [hst]
  have c2 : ackBlock t g.hdr = .ok ((({ t with snd.una := g.hdr.ack } : Tcb).removeAckedFromRetransmission g.hdr.ack), none) := by
    unfold ackBlock
    rw [if_neg (by simp [hack]), hst]
    dsimp only
    rw [if_neg (by simp [h1]), if_pos h2, if_pos hsyn]
  have c3 : ∀ u : Tcb, rstBlock u g.hdr = .ok (u, none) := by
    intro u
    unfold rstBlock
    rw [if_pos (by simp [hrst])]
  have c4 : synBlock (({ t with snd.una := g.hdr.ack } : Tcb).removeAckedFromRetransmission g.hdr.ack) g.hdr =
      .ok (synAckT t g, none) := by
    unfold synBlock
    rw [if_neg (by simp [hsyn])]
    have hs1 : (({ t with snd.una := g.hdr.ack } : Tcb).removeAckedFromRetransmission g.hdr.ack).state = .SynSent := hst
    rw [hs1]
    dsimp only
    rw [if_pos (by exact h3), enqueueThen_eq, enqueueBuilt_ack]
    simp only [hack, if_true]
    rfl
  have c5 : ∀ u : Tcb, textBlock u g.hdr g.text (BitVec.ofNat 32 g.text.length) = .ok (u, none) := by
    intro u
    unfold textBlock
    rw [if_pos (by rw [htext]; rfl)]
  have hps : t.processSegment g = .ok (synAckT t g, .Success) := by
    unfold processSegment
    dsimp only
    rw [c1, andThen_none, c2, andThen_none, c3, andThen_none, c4, andThen_none, c5, andThen_none,
      finBlock_nofin _ _ _ hfin]
  exact arrive_single_synsent t g hst hheap _ _ hps rfl

/-! ## the ACK in SYN-RECEIVED, with the parked SYN in the reorder heap -/

theorem push_two (p g : Segment) (h : segLe g p = true) : LHeap.push segLe [p] g = [p, g] := by
  unfold LHeap.push LHeap.siftUp LHeap.siftUpAux
  simp [h]

theorem pop_two (p g : Segment) : LHeap.pop segLe [p, g] = (some p, [g]) := by
  simp [LHeap.pop, LHeap.siftDownToBottom, LHeap.siftDownAux, LHeap.siftUp, LHeap.siftUpAux]

theorem peek_two (p g : Segment) : LHeap.peek [p, g] = some p := rfl

theorem modGt_pred (a b : Seq) (h : a + 1 = b) : modGt a b = false := by
  subst h
  unfold modGt modLt
  have : a + 1 - a = 1 := by bv_omega
  rw [this]
  decide

theorem modLt_succ (a : Seq) : modLt (a + 1) a = false := by
  unfold modLt
  have : a + 1 - a = 1 := by bv_omega
  rw [this]
  decide

/-- a segment without any control bit and without text one below `RCV.NXT` is processed without effect -/
theorem process_parked (t : Tcb) (p : Segment) (hns : t.state ≠ .SynSent) (hw : t.rcv.wnd = 65535#16)
    (hack : p.hdr.ctl.ack = false) (hrst : p.hdr.ctl.rst = false) (hsyn : p.hdr.ctl.syn = false)
    (hfin : p.hdr.ctl.fin = false) (htext : p.text = []) (hseq : p.hdr.seq + 1 = t.rcv.nxt) :
    t.processSegment p = .ok (t, .Success) := by
  have hw0 : ¬ t.rcv.wnd = 0 := by rw [hw]; decide
  have hin : t.isInRcvWindow p.hdr.seq = true := by
    rw [isInRcvWindow_iff]
    right
    rw [← hseq]
    have : p.hdr.seq - (p.hdr.seq + 1) = 4294967295#32 := by bv_omega
    rw [this]; rfl
  have hok : t.isSeqOk (BitVec.ofNat 32 p.text.length) p.hdr.seq p.hdr.ctl.syn p.hdr.ctl.fin = .ok true := by
    unfold isSeqOk
    rw [htext, hsyn, hfin]
    simp only [List.length_nil, BitVec.toNat_ofNat, Nat.zero_mod, Bool.toNat_false, Nat.add_zero]
    rw [if_neg (by omega), if_pos trivial, if_neg hw0, hin]
  have c2 : ackBlock t p.hdr = .ok (t, none) := by
    unfold ackBlock
    rw [if_pos (by simp [hack])]
  have hps := process_tail t t p hns hns hok hrst hsyn htext c2
  rw [finBlock_nofin _ _ _ hfin] at hps
  exact hps

/-- block 2 in SYN-RECEIVED for the ACK of the SYN-ACK -/
theorem ackBlock_synrcvd (t : Tcb) (g : Hdr) (hst : t.state = .SynReceived) (hack : g.ctl.ack = true)
    (hnew : modLeq g.ack t.snd.una = false) (hb : modBounded t.snd.una .Lt g.ack .Leq t.snd.nxt = true) :
    ackBlock t g = .ok (aepT ({ t with state := .Established, snd.wnd := g.wnd, snd.wl1 := g.seq, snd.wl2 := g.ack } : Tcb) g, none) := by
  unfold ackBlock
  rw [if_neg (by simp [hack]), hst]
  dsimp only
  rw [if_pos hb]
  unfold afterAckEstablished
  rw [aep_new ({ t with state := .Established, snd.wnd := g.wnd, snd.wl1 := g.seq, snd.wl2 := g.ack } : Tcb) g hnew hb]
  simp

/-- the TCB after the ACK of the SYN-ACK: ESTABLISHED -/
def estT (t : Tcb) (g : Segment) : Tcb :=
  aepT ({ t with incoming := { segments := [], text := t.incoming.text }, state := .Established, snd.wnd := g.hdr.wnd, snd.wl1 := g.hdr.seq, snd.wl2 := g.hdr.ack } : Tcb) g.hdr

theorem arrive_ack_synrcvd (t : Tcb) (p g : Segment) (hst : t.state = .SynReceived) (hw : t.rcv.wnd = 65535#16)
    (hheap : t.incoming.segments = [p])
    (pack : p.hdr.ctl.ack = false) (prst : p.hdr.ctl.rst = false) (psyn : p.hdr.ctl.syn = false)
    (pfin : p.hdr.ctl.fin = false) (ptext : p.text = []) (pseq : p.hdr.seq + 1 = t.rcv.nxt)
    (hrst : g.hdr.ctl.rst = false) (hsyn : g.hdr.ctl.syn = false) (hfin : g.hdr.ctl.fin = false)
    (hack : g.hdr.ctl.ack = true) (htext : g.text = []) (hseq : g.hdr.seq = t.rcv.nxt)
    (hnew : modLeq g.hdr.ack t.snd.una = false)
    (hb : modBounded t.snd.una .Lt g.hdr.ack .Leq t.snd.nxt = true) :
    t.segmentArrives g = .ok (estT t g, .Ok) := by
  have hns : t.state ≠ .SynSent := by rw [hst]; simp
  have hok := isSeqOk_ack_nxt t g hw hsyn hfin htext hseq
  have hle : segLe g p = true := by
    unfold segLe
    rw [hseq, ← pseq, modLt_succ]
    simp
  cases t with
  | mk lp rp mtu ini st snd rcv out inc tmo =>
    cases inc with
    | mk segs text =>
      simp only at hst hheap hw pseq hseq hnew hb
      subst hst
      subst hheap
      unfold segmentArrives
      dsimp only
      rw [if_neg (by simp), hok]
      dsimp only
      rw [push_two p g hle]
      have h3 : [p, g].length + 1 = 3 := rfl
      rw [h3]
      -- the parked SYN first
      unfold drain
      dsimp only
      rw [peek_two]
      dsimp only
      rw [modGt_pred _ _ pseq, pop_two]
      simp only [Bool.and_false, Bool.false_eq_true, if_false]
      have e1 := process_parked
        ({ localPort := lp, remotePort := rp, mtu := mtu, initiation := ini, state := .SynReceived, snd := snd, rcv := rcv,
           outgoing := out, incoming := { segments := [g], text := text }, timeouts := tmo } : Tcb) p (by simp) hw
        pack prst psyn pfin ptext pseq
      rw [e1]
      dsimp only
      simp only [ProcessSegmentResult.shouldDeleteTcb, Bool.false_eq_true, if_false]
      -- then the ACK
      unfold drain
      dsimp only
      rw [C01.peek_single]
      dsimp only
      rw [hseq, C01.modGt_self, C01.pop_single]
      simp only [Bool.and_false, Bool.false_eq_true, if_false]
      have c2 := ackBlock_synrcvd ({ localPort := lp, remotePort := rp, mtu := mtu, initiation := ini, state := .SynReceived, snd := snd, rcv := rcv, outgoing := out, incoming := { segments := [], text := text }, timeouts := tmo } : Tcb) g.hdr rfl hack hnew hb
      have e2 := process_tail ({ localPort := lp, remotePort := rp, mtu := mtu, initiation := ini, state := .SynReceived, snd := snd, rcv := rcv, outgoing := out, incoming := { segments := [], text := text }, timeouts := tmo } : Tcb) _ g (by simp) (by intro h; cases h) hok hrst hsyn htext c2
      rw [finBlock_nofin _ _ _ hfin] at e2
      rw [e2]
      dsimp only
      simp only [ProcessSegmentResult.shouldDeleteTcb, Bool.false_eq_true, if_false]
      unfold drain
      rfl

end Tcb
end Elvis.Tcp
