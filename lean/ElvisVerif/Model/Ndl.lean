import ElvisVerif.Generated.NdlCert
/-!
# Model of the NDL (network description language) parser — `sim/elvis/src/ndl/parsing/*`

Text is `List Char`.  Two stages that compose to `core_parser`:

1. **line lexer** `generalParser` = `general_parser` (`parser_util.rs`): `section` (`[` … first `]`),
   `get_type` (the `alt` of type tags, in the order and with the matcher the *source* uses —
   both come from `Generated/NdlCert.lean`), `arguments` (`many0` of
   `<separators>key='value'` with the `\'` escape), duplicate-argument check, trailing newline
   counting.
2. **indentation-driven tree builder** = `core_parser` / `networks_parser` / `network_parser` /
   `machines_parser` / `machine_parser` / `machine_{networks,protocols,applications}_parser`.

nom combinators are structurally recursive functions; the `while` loops carry fuel
(`Fail.fuel` when it runs out — `Props/C14c.lean` proves it never does).
Every `unimplemented!`, `unwrap`, byte-index slice and checked addition is a `Panic` site.
Error *messages* are abstracted to an `ErrKind` (the harness classifies the real message).

Assumed library behaviour (exercised by the correspondence runs, not proved):
nom 7.1.3 `delimited/char/take_until/take_while1/many0/separated_pair/escaped/none_of/tag/alt`
as read from its source; `char::eq_ignore_ascii_case`; `str::replace`; `HashMap` as a finite map
(association list, insertion order, unique keys — order is never observable: the driver sorts).
`usize as i32` casts are exact for texts shorter than 2^31 bytes (the only texts modelled).
-/
namespace Elvis.Ndl
open Elvis.Gen.Ndl

abbrev Text := List Char

/-- `enum DecType` (parsing_data.rs) -/
inductive DecType
  | template | networks | network | ip | machines | machine
  | protocols | protocol | applications | application
deriving DecidableEq, Repr, Inhabited

/-- the Rust identifier of a variant (also the spelling `render` uses for the type tag) -/
def DecType.name : DecType → Text
  | .template => ['T','e','m','p','l','a','t','e']
  | .networks => ['N','e','t','w','o','r','k','s']
  | .network => ['N','e','t','w','o','r','k']
  | .ip => ['I','P']
  | .machines => ['M','a','c','h','i','n','e','s']
  | .machine => ['M','a','c','h','i','n','e']
  | .protocols => ['P','r','o','t','o','c','o','l','s']
  | .protocol => ['P','r','o','t','o','c','o','l']
  | .applications => ['A','p','p','l','i','c','a','t','i','o','n','s']
  | .application => ['A','p','p','l','i','c','a','t','i','o','n']

def DecType.all : List DecType :=
  [.template, .networks, .network, .ip, .machines, .machine, .protocols, .protocol,
   .applications, .application]

/-- variant identifier → variant -/
def DecType.ofName (n : Text) : Option DecType := DecType.all.find? (fun d => d.name == n)

inductive Panic
  /-- `_ => unimplemented!("No other dec types supported")` in `DecType::from` -/
  | decTypeFrom
  /-- nom `tag_no_case`: `i.take_split(tag_len)` with `tag_len` off a char boundary of the input -/
  | tagSplit
  /-- `&remaining_string[num_tabs as usize..]` -/
  | sliceTabs
  /-- `remaining_string[num_new_line..]` -/
  | sliceNewlines
  /-- `*line_num += num_new_line as i32` (overflow checks on) -/
  | lineOverflow
  /-- `req.iter().position(..).unwrap()` -/
  | reqPosition
deriving DecidableEq, Repr

inductive ErrKind
  /-- nom error of `section`: no `[` first, or no `]` -/
  | section
  /-- nom error of `get_type`: no tag matches -/
  | dectype
  /-- "extra argument at" -/
  | extraArg
  /-- "duplicate argument" -/
  | dupArg
  /-- "Invalid tab count. Expected n tabs, got m tabs." -/
  | tabs
  /-- `network_parser`: "expected n tabs and got m tabs instead." -/
  | expectedTabs
  /-- `machine_*_parser`: "Invalid formatting" -/
  | formatting
  /-- "expected type X and got type Y instead." -/
  | wrongType
  /-- `machine_parser`: "Unexpected type" (not one of the three sections, or a section twice) -/
  | unexpected
  /-- `core_parser`: "Cannot declare X here." -/
  | cannotDeclare
  /-- "Unable to insert Network into Networks due to duplicate id" -/
  | dupId
  /-- "Unable to parse Network in Networks due to missing id." -/
  | missingId
  /-- "Failed to include all required types for machine." -/
  | required
deriving DecidableEq, Repr

inductive Fail
  /-- `Err(String)`; `line` is `*line_num` for the lexer's own messages, 0 elsewhere -/
  | err (k : ErrKind) (line : Nat)
  | panic (p : Panic)
  /-- the model's loop fuel ran out (never happens: `Props/C14c.lean`) -/
  | fuel
deriving DecidableEq, Repr

abbrev R := Except Fail

deriving instance DecidableEq for Except

/-- `HashMap<String, String>`: insertion order, keys unique -/
abbrev Params := List (Text × Text)

def Params.get? (p : Params) (k : Text) : Option Text := (p.find? (fun e => e.1 == k)).map (·.2)
def Params.has (p : Params) (k : Text) : Bool := p.any (fun e => e.1 == k)

/-! ## Stage 1: the line lexer -/

/-- `take_until(c)`: text before the first `c`, and the text from that `c` on; `none` = nom Error -/
def takeUntil (c : Char) : Text → Option (Text × Text)
  | [] => none
  | x :: r => if x = c then some ([], x :: r) else
      match takeUntil c r with
      | some (a, b) => some (x :: a, b)
      | none => none

/-- `delimited(char('['), take_until("]"), char(']'))`: (inside, after the `]`) -/
def sectionP : Text → Option (Text × Text)
  | '[' :: r =>
    match takeUntil ']' r with
    | some (inside, _ :: after) => some (inside, after)
    | _ => none
  | _ => none

/-- number of UTF-8 bytes of a text -/
def utf8Len (t : Text) : Nat := (t.map Char.utf8Size).sum

/-- `&s[n..]` on a `str`: `none` (= panic) when `n` is past the end or inside a character -/
def byteDrop : Nat → Text → Option Text
  | 0, s => some s
  | _ + 1, [] => none
  | n + 1, c :: r => if c.utf8Size ≤ n + 1 then byteDrop (n + 1 - c.utf8Size) r else none

/-- the local `keyword(kw)` matcher (after the fix of F-C14-3): `kw` at the start of the input,
    ASCII case ignored (`char::eq_ignore_ascii_case`); the rest of the input -/
def keyword : Text → Text → Option Text
  | [], i => some i
  | _ :: _, [] => none
  | k :: ks, c :: cs => if c.toLower = k.toLower then keyword ks cs else none

/-- Rust `a.to_lowercase().ne(b.to_lowercase())` negated, for an ASCII letter `b`: besides the two
    ASCII cases, U+212A KELVIN SIGN lower-cases to `k` (checked on all of `char` by the harness) -/
def uniLowerEq (a b : Char) : Bool :=
  a.toLower == b.toLower || (a == Char.ofNat 0x212A && b.toLower == 'k')

inductive TagRes
  | ok (rest : Text) (matched : Text)
  | error
  | panic
deriving DecidableEq, Repr

/-- nom 7 `tag_no_case(tag)` on `&str`: `compare_no_case` zips the *chars*, compares the *byte*
    lengths, then `take_split(tag.len())` splits at a *byte* index -/
def nomTagNoCase (tag i : Text) : TagRes :=
  if (i.zip tag).any (fun p => !uniLowerEq p.1 p.2) then .error
  else if utf8Len i < utf8Len tag then .error
  else match byteDrop (utf8Len tag) i with
    | some rest => .ok rest (i.take (i.length - rest.length))
    | none => .panic

/-- one alternative of `get_type` under the matcher the source uses -/
def matchTag (matcher : String) (tag i : Text) : TagRes :=
  if matcher = "keyword" then
    match keyword tag i with
    | some rest => .ok rest tag
    | none => .error
  else nomTagNoCase tag i

/-- `str::to_lowercase` restricted to what reaches it here (ASCII letters; U+212A → `k`) -/
def lowerText (t : Text) : Text := t.map fun c => if c == Char.ofNat 0x212A then 'k' else c.toLower

/-- `DecType::from(&str)` over the extracted table; the fall-through is the `unimplemented!` -/
def decTypeFromWith (table : List (Text × Text)) (matched : Text) : R DecType :=
  match table.find? (fun e => e.1 == lowerText matched) with
  | some e =>
    match DecType.ofName e.2 with
    | some d => .ok d
    | none => .error (.panic .decTypeFrom)
  | none => .error (.panic .decTypeFrom)

/-- `alt((..))` then `.map(|(next, res)| (next, res.into()))` -/
def getTypeWith (matcher : String) (table : List (Text × Text)) : List Text → Text → Nat → R (Text × DecType)
  | [], _, line => .error (.err .dectype line)
  | tag :: tags, i, line =>
    match matchTag matcher tag i with
    | .ok rest matched =>
      match decTypeFromWith table matched with
      | .ok d => .ok (rest, d)
      | .error e => .error e
    | .error => getTypeWith matcher table tags i line
    | .panic => .error (.panic .tagSplit)

/-- `get_type` as the current source has it -/
def getType (i : Text) (line : Nat) : R (Text × DecType) :=
  getTypeWith tagMatcher decTypeTable tagAlt i line

/-- `is_space(chr as u8) || is_newline(chr as u8)`: the cast keeps the low byte only -/
def isSep (c : Char) : Bool :=
  let b := c.toNat % 256
  b == 32 || b == 9 || b == 10

/-- `escaped(none_of("\\'"), '\\', tag("'"))`: (consumed, rest); `none` = nom Error.
    (Its `index == 0` Error case is folded in: `alt(.., tag(""))` then yields the same pair.) -/
def escBody : Text → Option (Text × Text)
  | [] => some ([], [])
  | c :: r =>
    if c = '\\' then
      match r with
      | q :: r' =>
        if q = '\'' then
          match escBody r' with
          | some (v, t) => some (c :: q :: v, t)
          | none => none
        else none
      | [] => none
    else if c = '\'' then some ([], c :: r)
    else
      match escBody r with
      | some (v, t) => some (c :: v, t)
      | none => none

/-- `alt((escaped(..), tag("")))` -/
def valueBody (s : Text) : Text × Text :=
  match escBody s with
  | some p => p
  | none => ([], s)

/-- `take_while1(check_space_or_newline)`: the rest after a non-empty run of separators -/
def skipSeps1 (s : Text) : Option Text :=
  match s with
  | c :: r => if isSep c then some (r.dropWhile isSep) else none
  | [] => none

/-- one `separated_pair(preceded(seps1, take_until("=")), char('='), delimited(', value, '))` -/
def argument (s : Text) : Option ((Text × Text) × Text) :=
  match skipSeps1 s with
  | none => none
  | some r1 =>
    match takeUntil '=' r1 with
    | none => none
    | some (key, r2) =>
      match r2 with
      | _ :: q :: r3 =>
        if q = '\'' then
          match valueBody r3 with
          | (val, q' :: r5) => if q' = '\'' then some ((key, val), r5) else none
          | (_, []) => none
        else none
      | _ => none

/-- `many0(argument)`: stops at the first Error, keeping the input of the failed element -/
def argumentsFuel : Nat → Text → Text × List (Text × Text)
  | 0, s => (s, [])
  | fuel + 1, s =>
    match argument s with
    | none => (s, [])
    | some (kv, rest) =>
      let (r, kvs) := argumentsFuel fuel rest
      (r, kv :: kvs)

def arguments (s : Text) : Text × List (Text × Text) := argumentsFuel s.length s

/-- the insertion loop of `general_parser`; `none` = "duplicate argument" -/
def insertAll : List (Text × Text) → Params → Option Params
  | [], acc => some acc
  | (k, v) :: r, acc => if acc.has k then none else insertAll r (acc ++ [(k, v)])

def countNl (s : Text) : Nat := (s.takeWhile (· = '\n')).length
def countTabs (s : Text) : Nat := (s.takeWhile (· = '\t')).length

/-- largest `i32` -/
def i32Max : Nat := 2147483647

structure LexOk where
  dectype : DecType
  params : Params
  rest : Text
  line : Nat
deriving DecidableEq, Repr

/-- `general_parser(s, &mut line_num)` -/
def generalParser (s : Text) (line : Nat) : R LexOk :=
  match sectionP s with
  | none => .error (.err .section line)
  | some (inside, after) =>
    match getType inside line with
    | .error e => .error e
    | .ok (r1, dt) =>
      let (r2, args) := arguments r1
      if r2 ≠ [] then .error (.err .extraArg line) else
      match insertAll args [] with
      | none => .error (.err .dupArg line)
      | some params =>
        let n := countNl after
        if line + n > i32Max then .error (.panic .lineOverflow) else
        match byteDrop n after with
        | none => .error (.panic .sliceNewlines)
        | some rest => .ok ⟨dt, params, rest, line + n⟩

/-! ## Stage 2: the tree builder -/

/-- `IP`, `MachineNetwork`, `Protocol`, `Application`: a type and its arguments -/
structure Leaf where
  dectype : DecType
  options : Params
deriving DecidableEq, Repr

structure Network where
  dectype : DecType
  options : Params
  ip : List Leaf
deriving DecidableEq, Repr

/-- `Machine` with its `Interfaces` flattened; `options` is always `Some(args)` in the code -/
structure Machine where
  dectype : DecType
  options : Params
  networks : List Leaf
  protocols : List Leaf
  applications : List Leaf
deriving DecidableEq, Repr

/-- `Sim`; `networks` is the `HashMap<String, Network>` -/
structure Sim where
  networks : List (Text × Network)
  machines : List Machine
deriving DecidableEq, Repr

/-- the loop shared by `network_parser` (IPs) and `machine_{networks,protocols,applications}_parser`:
    lines of type `exp` at exactly `nt` tabs; stops at the first line with fewer tabs -/
def leafLoop (exp : DecType) (nt : Nat) : Nat → Text → Nat → R (List Leaf × Text × Nat)
  | 0, _, _ => .error .fuel
  | fuel + 1, s, line =>
    if s = [] then .ok ([], s, line) else
    match byteDrop nt s with
    | none => .error (.panic .sliceTabs)
    | some body =>
      match generalParser body line with
      | .error e => .error e
      | .ok r =>
        if r.dectype ≠ exp then .error (.err .wrongType 0) else
        let t := countTabs r.rest
        if t < nt then .ok ([⟨r.dectype, r.params⟩], r.rest, r.line)
        else if t > nt then .error (.err .tabs 0)
        else
          match leafLoop exp nt fuel r.rest r.line with
          | .error e => .error e
          | .ok (ls, rest, line') => .ok (⟨r.dectype, r.params⟩ :: ls, rest, line')

/-- the leaf-list parsers: first the `t != num_tabs` check (its message differs: `first`) -/
def leafList (exp : DecType) (first : ErrKind) (nt : Nat) (s : Text) (line : Nat) :
    R (List Leaf × Text × Nat) :=
  if countTabs s ≠ nt then .error (.err first 0) else leafLoop exp nt (s.length + 1) s line

/-- `network_parser` -/
def networkParser (args : Params) (nt : Nat) (s : Text) (line : Nat) : R (Network × Text × Nat) :=
  match leafList .ip .expectedTabs nt s line with
  | .error e => .error e
  | .ok (ips, rest, line') => .ok (⟨.network, args, ips⟩, rest, line')

/-- the `while` loop of `networks_parser`; `seen` is the map built so far -/
def networksLoop (nt : Nat) : Nat → Text → Nat → List (Text × Network) →
    R (List (Text × Network) × Text × Nat)
  | 0, _, _, _ => .error .fuel
  | fuel + 1, s, line, seen =>
    if s = [] then .ok (seen, s, line) else
    let t := countTabs s
    if t < nt then .ok (seen, s, line)
    else if t > nt then .error (.err .tabs 0)
    else
      match byteDrop nt s with
      | none => .error (.panic .sliceTabs)
      | some body =>
        match generalParser body line with
        | .error e => .error e
        | .ok r =>
          if r.dectype = .network then
            match networkParser r.params (nt + 1) r.rest r.line with
            | .error e => .error e
            | .ok (net, rest, line') =>
              match net.options.get? ['i', 'd'] with
              | none => .error (.err .missingId 0)
              | some id =>
                if seen.any (fun e => e.1 == id) then .error (.err .dupId 0)
                else networksLoop nt fuel rest line' (seen ++ [(id, net)])
          else .error (.err .wrongType 0)

def networksParser (nt : Nat) (s : Text) (line : Nat) : R (List (Text × Network) × Text × Nat) :=
  networksLoop nt (s.length + 1) s line []

/-- the sections `machine_parser` requires (from the source) -/
def requiredSections : List DecType := machineRequired.filterMap DecType.ofName

structure MAcc where
  req : List DecType
  nets : List Leaf
  prots : List Leaf
  apps : List Leaf
deriving DecidableEq, Repr

/-- the `while` loop of `machine_parser` -/
def machineLoop (nt : Nat) : Nat → Text → Nat → MAcc → R (MAcc × Text × Nat)
  | 0, _, _, _ => .error .fuel
  | fuel + 1, s, line, a =>
    if s = [] then .ok (a, s, line) else
    let t := countTabs s
    if t < nt then .ok (a, s, line)
    else if t > nt then .error (.err .tabs 0)
    else
      match byteDrop nt s with
      | none => .error (.panic .sliceTabs)
      | some body =>
        match generalParser body line with
        | .error e => .error e
        | .ok r =>
          if a.req.contains r.dectype then
            match a.req.idxOf? r.dectype with
            | none => .error (.panic .reqPosition)
            | some i =>
              let req' := a.req.eraseIdx i
              match r.dectype with
              | .networks =>
                match leafList .network .formatting (nt + 1) r.rest r.line with
                | .error e => .error e
                | .ok (ls, rest, line') => machineLoop nt fuel rest line' { a with req := req', nets := a.nets ++ ls }
              | .protocols =>
                match leafList .protocol .formatting (nt + 1) r.rest r.line with
                | .error e => .error e
                | .ok (ls, rest, line') => machineLoop nt fuel rest line' { a with req := req', prots := a.prots ++ ls }
              | .applications =>
                match leafList .application .formatting (nt + 1) r.rest r.line with
                | .error e => .error e
                | .ok (ls, rest, line') => machineLoop nt fuel rest line' { a with req := req', apps := a.apps ++ ls }
              | _ => .error (.err .unexpected 0)
          else .error (.err .unexpected 0)

/-- `machine_parser` -/
def machineParser (args : Params) (nt : Nat) (s : Text) (line : Nat) : R (Machine × Text × Nat) :=
  match machineLoop nt (s.length + 1) s line ⟨requiredSections, [], [], []⟩ with
  | .error e => .error e
  | .ok (a, rest, line') =>
    if a.req ≠ [] then .error (.err .required 0)
    else .ok (⟨.machine, args, a.nets, a.prots, a.apps⟩, rest, line')

/-- the `while` loop of `machines_parser` -/
def machinesLoop (nt : Nat) : Nat → Text → Nat → R (List Machine × Text × Nat)
  | 0, _, _ => .error .fuel
  | fuel + 1, s, line =>
    if s = [] then .ok ([], s, line) else
    let t := countTabs s
    if t < nt then .ok ([], s, line)
    else if t > nt then .error (.err .tabs 0)
    else
      match byteDrop nt s with
      | none => .error (.panic .sliceTabs)
      | some body =>
        match generalParser body line with
        | .error e => .error e
        | .ok r =>
          if r.dectype = .machine then
            match machineParser r.params (nt + 1) r.rest r.line with
            | .error e => .error e
            | .ok (m, rest, line') =>
              match machinesLoop nt fuel rest line' with
              | .error e => .error e
              | .ok (ms, rest', line'') => .ok (m :: ms, rest', line'')
          else .error (.err .wrongType 0)

def machinesParser (nt : Nat) (s : Text) (line : Nat) : R (List Machine × Text × Nat) :=
  machinesLoop nt (s.length + 1) s line

/-- `for new_nets in n.0 { if networks.contains_key(..) { return Err } networks.insert(..) }` -/
def mergeNets : List (Text × Network) → List (Text × Network) → R (List (Text × Network))
  | acc, [] => .ok acc
  | acc, (id, n) :: r =>
    if acc.any (fun e => e.1 == id) then .error (.err .dupId 0) else mergeNets (acc ++ [(id, n)]) r

/-- the `while` loop of `core_parser` (text already normalised) -/
def coreLoop : Nat → Text → Nat → List (Text × Network) → List Machine → R Sim
  | 0, _, _, _, _ => .error .fuel
  | fuel + 1, s, line, nets, ms =>
    if s = [] then .ok ⟨nets, ms⟩ else
    match generalParser s line with
    | .error e => .error e
    | .ok r =>
      match r.dectype with
      | .template => coreLoop fuel r.rest r.line nets ms
      | .networks =>
        match networksParser 1 r.rest r.line with
        | .error e => .error e
        | .ok (ns, rest, line') =>
          match mergeNets nets ns with
          | .error e => .error e
          | .ok nets' => coreLoop fuel rest line' nets' ms
      | .machines =>
        match machinesParser 1 r.rest r.line with
        | .error e => .error e
        | .ok (m, rest, line') => coreLoop fuel rest line' nets (ms ++ m)
      | _ => .error (.err .cannotDeclare 0)

/-- `core_parser` on normalised text -/
def build (s : Text) : R Sim := coreLoop (s.length + 1) s 1 [] []

/-- `.replace('\r', "")` -/
def dropCR (s : Text) : Text := s.filter (· ≠ '\r')

/-- `.replace("    ", "\t")` (leftmost, non-overlapping) as a one-pass scanner: `k` < 4 spaces are
    pending; the fourth becomes a tab, any other character releases them -/
def fourSpFrom : Nat → Text → Text
  | k, [] => List.replicate k ' '
  | k, c :: r =>
    if c = ' ' then (if k = 3 then '\t' :: fourSpFrom 0 r else fourSpFrom (k + 1) r)
    else List.replicate k ' ' ++ c :: fourSpFrom 0 r

def fourSp (s : Text) : Text := fourSpFrom 0 s

def normalise (s : Text) : Text := fourSp (dropCR s)

/-- `core_parser` from the file's text on -/
def parse (text : Text) : R Sim := build (normalise text)

/-! ## Rendering -/

inductive Layout
  | tabs | spaces | crlf
deriving DecidableEq, Repr

def renderArgs (ps : Params) : Text :=
  ps.flatMap fun kv => ' ' :: (kv.1 ++ '=' :: '\'' :: (kv.2 ++ ['\'']))

/-- `[Type k='v' …]` -/
def renderLine (dt : DecType) (ps : Params) : Text := '[' :: (dt.name ++ (renderArgs ps ++ [']']))

def indent : Layout → Nat → Text
  | .spaces, n => List.replicate (4 * n) ' '
  | _, n => List.replicate n '\t'

def eol : Layout → Text
  | .crlf => ['\r', '\n']
  | _ => ['\n']

def line (lay : Layout) (depth : Nat) (dt : DecType) (ps : Params) : Text :=
  indent lay depth ++ (renderLine dt ps ++ eol lay)

def renderLeaves (lay : Layout) (depth : Nat) (ls : List Leaf) : Text :=
  ls.flatMap fun l => line lay depth l.dectype l.options

def renderNetwork (lay : Layout) (n : Network) : Text :=
  line lay 1 .network n.options ++ renderLeaves lay 2 n.ip

def renderMachine (lay : Layout) (m : Machine) : Text :=
  line lay 1 .machine m.options ++
  (line lay 2 .networks [] ++ (renderLeaves lay 3 m.networks ++
  (line lay 2 .protocols [] ++ (renderLeaves lay 3 m.protocols ++
  (line lay 2 .applications [] ++ renderLeaves lay 3 m.applications)))))

/-- one `[Networks]` block with every network, then one `[Machines]` block with every machine -/
def render (lay : Layout) (s : Sim) : Text :=
  line lay 0 .networks [] ++ ((s.networks.flatMap fun e => renderNetwork lay e.2) ++
  (line lay 0 .machines [] ++ s.machines.flatMap (renderMachine lay)))

end Elvis.Ndl
