import ElvisVerif.Props.C03FinData
/-!
# C01 — stream safety and exactly-once when the applications call `close()`

`c01_safety` / `c01_exactly_once` (`Props/C01Safety.lean`) quantify over runs in which nobody closes (no FIN
is ever formed; every TCB stays in SYN-SENT / SYN-RECEIVED / ESTABLISHED).  The theorems here remove that
restriction: `Fin.FinRun` adds `close` by either side at any time.  Proof: the stream invariant
generalised to all eleven states (`Lemmas/TcpFinInv.lean` … `Lemmas/TcpFinRun.lean`).
-/
namespace Elvis.Tcp
open Elvis.ModCmp Elvis.Tcp.Tcb Elvis.Tcp.Fin

/-- **C01 safety with `close()`**: any run of C01 ops from the empty system (`C01.RunOk`: `open` / `listen`
    of a still unused side at any point, writes of any size in any state, reads, ticks, emits, drops,
    deliveries of ANY history element to the endpoint it is addressed to) followed by any `FinRun` (the
    same ops without `open` / `listen`, plus `close` by either side at any time), H31 on the final logs
    (fewer than 2^31 bytes submitted per direction): `delivered_B` is a prefix of `submitted_A` and
    `delivered_A` is a prefix of `submitted_B`; and when an endpoint's state shows FIN received
    (CLOSE-WAIT, LAST-ACK, CLOSING, TIME-WAIT), what it has delivered and buffered is ALL the peer
    submitted. -/
theorem c01_safety_with_close (iss : SideId → Seq) (ops : List Op) (hok : C01.RunOk iss {} ops)
    (sys0 sys : Sys) (rs : List Res) (e : Sys.run {} ops = .ok (sys0, rs)) (hrun : FinRun sys0 sys)
    (h31 : C01.Lt31 sys) :
    sys.b.delivered <+: sys.a.submitted ∧ sys.a.delivered <+: sys.b.submitted ∧
    ∀ x t, (sys.side x).tcb = some t → finRcvd t.state = true →
      (sys.side x).delivered ++ t.incoming.text = (sys.side x.peer).submitted := by
  have hi := InvF.of_inv (C01.run_inv (C01.Inv.init iss) hok e (Lt31.of_finRun hrun h31))
  obtain ⟨fin, h, _⟩ := finRun_inv hi hrun h31
  exact ⟨(h.side .B).pre, (h.side .A).pre, fun x t ht hf => (C03.eof_of_invF h x t ht hf).1⟩

/-- **exactly-once with `close()`** (same runs): for a TCB of side `x` out of SYN-SENT,
    `delivered_x ++ buffered` is a prefix of `submitted_peer` and
    `RCV.NXT = ISS_peer + 1 + |delivered_x ++ buffered| + [state shows FIN received]`: one sequence number per
    byte, each byte once, one for the SYN, one for the FIN. -/
theorem c01_exactly_once_with_close (iss : SideId → Seq) (ops : List Op) (hok : C01.RunOk iss {} ops)
    (sys0 sys : Sys) (rs : List Res) (e : Sys.run {} ops = .ok (sys0, rs)) (hrun : FinRun sys0 sys)
    (h31 : C01.Lt31 sys) (x : SideId) (t : Tcb) (ht : (sys.side x).tcb = some t) (hns : t.state ≠ .SynSent) :
    (sys.side x).delivered ++ t.incoming.text <+: (sys.side x.peer).submitted ∧
    t.rcv.nxt = iss x.peer + 1 + BitVec.ofNat 32
      ((sys.side x).delivered.length + t.incoming.text.length + (finRcvd t.state).toNat) := by
  have hi := InvF.of_inv (C01.run_inv (C01.Inv.init iss) hok e (Lt31.of_finRun hrun h31))
  obtain ⟨fin, h, _⟩ := finRun_inv hi hrun h31
  obtain ⟨i, _⟩ := (h.side x).tcb t ht
  exact ⟨(i.rcv1 hns).2, (i.rcv1 hns).1⟩

end Elvis.Tcp
