import ElvisVerif.Model.Dns
/-!
Helper lemmas for C20: the part of the DNS wire format the exchange relies on round-trips
(`fromBytes (build m ++ rest) = some m` for well-formed `m`), what a successful parse guarantees
about its fields, and table/socket-list facts.
-/
namespace Elvis.Dns

/-! ### primitive codecs -/

theorem toNat_ofNat_lt {n : Nat} (h : n < 256) : (UInt8.ofNat n).toNat = n :=
  UInt8.toNat_ofNat_of_lt' (by simpa [UInt8.size] using h)

theorem takeU16_u16be (n : Nat) (h : n < 65536) (r : Bytes) : takeU16 (u16be n ++ r) = some (n, r) := by
  have h1 : (UInt8.ofNat (n / 256)).toNat = n / 256 := toNat_ofNat_lt (by omega)
  have h2 : (UInt8.ofNat (n % 256)).toNat = n % 256 := toNat_ofNat_lt (by omega)
  simp only [u16be, List.cons_append, List.nil_append, takeU16, h1, h2]
  congr 2
  omega

theorem takeU32_u32be (n : Nat) (h : n < 4294967296) (r : Bytes) : takeU32 (u32be n ++ r) = some (n, r) := by
  have h1 : (UInt8.ofNat (n / 16777216)).toNat = n / 16777216 := toNat_ofNat_lt (by omega)
  have h2 : (UInt8.ofNat (n / 65536 % 256)).toNat = n / 65536 % 256 := toNat_ofNat_lt (by omega)
  have h3 : (UInt8.ofNat (n / 256 % 256)).toNat = n / 256 % 256 := toNat_ofNat_lt (by omega)
  have h4 : (UInt8.ofNat (n % 256)).toNat = n % 256 := toNat_ofNat_lt (by omega)
  simp only [u32be, List.cons_append, List.nil_append, takeU32, h1, h2, h3, h4]
  congr 2
  omega

theorem takeU16_lt {b r : Bytes} {n : Nat} (h : takeU16 b = some (n, r)) : n < 65536 := by
  match b, h with
  | x :: y :: _, h =>
    simp only [takeU16, Option.some.injEq, Prod.mk.injEq] at h
    have := x.toNat_lt
    have := y.toNat_lt
    omega

theorem takeU32_lt {b r : Bytes} {n : Nat} (h : takeU32 b = some (n, r)) : n < 4294967296 := by
  match b, h with
  | x :: y :: z :: w :: _, h =>
    simp only [takeU32, Option.some.injEq, Prod.mk.injEq] at h
    have := x.toNat_lt
    have := y.toNat_lt
    have := z.toNat_lt
    have := w.toNat_lt
    omega

theorem takeName_append (n : Bytes) (h : delim ∉ n) (r : Bytes) : takeName (n ++ delim :: r) = some (n, r) := by
  induction n with
  | nil => simp [takeName]
  | cons c t ih =>
    have hc : c ≠ delim := fun e => h (by simp [e])
    have ht : delim ∉ t := fun e => h (by simp [e])
    simp only [List.cons_append, takeName, hc, if_false, ih ht]

theorem takeName_no_delim {b n r : Bytes} (h : takeName b = some (n, r)) : delim ∉ n := by
  induction b generalizing n r with
  | nil => simp [takeName] at h
  | cons c t ih =>
    simp only [takeName] at h
    by_cases hc : c = delim
    · simp only [hc, if_true, Option.some.injEq, Prod.mk.injEq] at h
      rw [← h.1]; simp
    · simp only [hc, if_false] at h
      cases ht : takeName t with
      | none => simp [ht] at h
      | some p =>
        obtain ⟨n', r'⟩ := p
        simp only [ht, Option.some.injEq, Prod.mk.injEq] at h
        rw [← h.1]
        intro hm
        rcases List.mem_cons.1 hm with e | e
        · exact hc e.symm
        · exact ih ht e

theorem takeN_append (d r : Bytes) : takeN d.length (d ++ r) = some (d, r) := by
  induction d with
  | nil => simp [takeN]
  | cons c t ih => simp only [List.length_cons, List.cons_append, takeN, ih]

theorem takeN_length {k : Nat} {b d r : Bytes} (h : takeN k b = some (d, r)) : d.length = k := by
  induction k generalizing b d r with
  | zero => simp only [takeN, Option.some.injEq, Prod.mk.injEq] at h; rw [← h.1]; rfl
  | succ k ih =>
    cases b with
    | nil => simp [takeN] at h
    | cons c t =>
      simp only [takeN] at h
      cases ht : takeN k t with
      | none => simp [ht] at h
      | some p =>
        obtain ⟨d', r'⟩ := p
        simp only [ht, Option.some.injEq, Prod.mk.injEq] at h
        rw [← h.1, List.length_cons, ih ht]

/-! ### messages -/

/-- the fields of a message fit their wire widths and its names carry no delimiter -/
structure DnsMsg.WF (m : DnsMsg) : Prop where
  id : m.header.id < 65536
  properties : m.header.properties < 65536
  qdcount : m.header.qdcount < 65536
  ancount : m.header.ancount < 65536
  nscount : m.header.nscount < 65536
  arcount : m.header.arcount < 65536
  qname : delim ∉ m.question.qname
  qtype : m.question.qtype < 65536
  qclass : m.question.qclass < 65536
  name : delim ∉ m.answer.name
  recType : m.answer.recType < 65536
  cls : m.answer.cls < 65536
  ttl : m.answer.ttl < 4294967296
  rdlength : m.answer.rdlength = m.answer.rdata.length
  rdfits : m.answer.rdata.length < 65536

/-- decoding what was encoded (followed by anything) gives the message back -/
theorem fromBytes_build (m : DnsMsg) (wf : m.WF) (rest : Bytes) : fromBytes (m.build ++ rest) = some m := by
  obtain ⟨⟨id, pr, qd, an, ns, ar⟩, ⟨qn, qt, qc⟩, ⟨nm, rt, cl, ttl, rdl, rd⟩⟩ := m
  obtain ⟨h1, h2, h3, h4, h5, h6, h7, h8, h9, h10, h11, h12, h13, h14, h15⟩ := wf
  simp only at h1 h2 h3 h4 h5 h6 h7 h8 h9 h10 h11 h12 h13 h14 h15
  subst h14
  simp only [DnsMsg.build, Header.build, Question.build, Record.build, List.append_assoc, List.cons_append, List.nil_append]
  unfold fromBytes
  simp only [takeU16_u16be _ h1, takeU16_u16be _ h2, takeU16_u16be _ h3, takeU16_u16be _ h4, takeU16_u16be _ h5,
    takeU16_u16be _ h6, takeName_append _ h7, takeU16_u16be _ h8, takeU16_u16be _ h9, takeName_append _ h10,
    takeU16_u16be _ h11, takeU16_u16be _ h12, takeU32_u32be _ h13, takeU16_u16be _ h15, takeN_append]

theorem fromBytes_build' (m : DnsMsg) (wf : m.WF) : fromBytes m.build = some m := by
  simpa using fromBytes_build m wf []

/-- whatever `from_bytes` accepts is well-formed -/
theorem fromBytes_wf {b : Bytes} {m : DnsMsg} (h : fromBytes b = some m) : m.WF := by
  unfold fromBytes at h
  split at h
  · cases h
  rename_i id b1 h1
  split at h
  · cases h
  rename_i pr b2 h2
  split at h
  · cases h
  rename_i qd b3 h3
  split at h
  · cases h
  rename_i an b4 h4
  split at h
  · cases h
  rename_i ns b5 h5
  split at h
  · cases h
  rename_i ar b6 h6
  split at h
  · cases h
  rename_i qn b7 h7
  split at h
  · cases h
  rename_i qt b8 h8
  split at h
  · cases h
  rename_i qc b9 h9
  split at h
  · cases h
  rename_i nm b10 h10
  split at h
  · cases h
  rename_i rt b11 h11
  split at h
  · cases h
  rename_i cl b12 h12
  split at h
  · cases h
  rename_i ttl b13 h13
  split at h
  · cases h
  rename_i rdl b14 h14
  split at h
  · cases h
  rename_i rd b15 h15
  simp only [Option.some.injEq] at h
  subst h
  have hl := takeN_length h15
  exact ⟨takeU16_lt h1, takeU16_lt h2, takeU16_lt h3, takeU16_lt h4, takeU16_lt h5, takeU16_lt h6,
    takeName_no_delim h7, takeU16_lt h8, takeU16_lt h9, takeName_no_delim h10, takeU16_lt h11, takeU16_lt h12,
    takeU32_lt h13, hl.symm, by rw [hl]; exact takeU16_lt h14⟩

theorem length_u16be (n : Nat) : (u16be n).length = 2 := rfl
theorem length_u32be (n : Nat) : (u32be n).length = 4 := rfl

theorem length_queryBytes (name : Bytes) (id : Nat) : (queryBytes name id).length = 32 + 2 * name.length := by
  simp only [queryBytes, createRequest, DnsMsg.build, Header.build, Question.build, Record.build, Header.new, Question.new,
    Record.new, Addr.toBytes, List.length_append, length_u16be, length_u32be, List.length_cons, List.length_nil]
  omega

/-! ### the messages of the exchange are well-formed -/

theorem createRequest_wf {name : Bytes} {id : Nat} (hn : delim ∉ name) (hid : id < 65536) : (createRequest name id).WF := by
  refine ⟨hid, ?_, ?_, ?_, ?_, ?_, hn, ?_, ?_, hn, ?_, ?_, ?_, ?_, ?_⟩ <;>
    simp [createRequest, Header.new, Question.new, Record.new, Addr.toBytes]

theorem createResponse_wf {q : DnsMsg} (wf : q.WF) (a : Addr) : (createResponse q a).WF := by
  refine ⟨wf.id, ?_, ?_, ?_, ?_, ?_, wf.qname, ?_, ?_, wf.name, ?_, ?_, wf.ttl, ?_, ?_⟩ <;>
    simp [createResponse, Header.new, Question.new, Record.new, Addr.toBytes]

theorem addrOfRdata_toBytes (a : Addr) : addrOfRdata a.toBytes = some a := rfl

/-! ### tables -/

theorem Table.get_put (t : Table) (n k : Bytes) (a : Addr) :
    (t.put n a).get k = if n = k then some a else t.get k := rfl

theorem Table.get_append (t u : Table) (k : Bytes) :
    Table.get (t ++ u) k = match Table.get t k with | some a => some a | none => Table.get u k := by
  induction t with
  | nil => rfl
  | cons e t ih =>
    obtain ⟨k', v⟩ := e
    simp only [List.cons_append, Table.get]
    by_cases h : k' = k
    · simp [h]
    · simp only [h, if_false]; exact ih

/-! ### socket list -/

theorem findSock_mem {socks : List Sock} {c p : Nat} {so : Sock} (h : findSock socks c p = some so) :
    so ∈ socks ∧ so.client = c ∧ so.port = p := by
  unfold findSock at h
  have h1 := List.mem_of_find?_eq_some h
  have h2 := List.find?_some h
  simp only [Bool.and_eq_true, decide_eq_true_eq] at h2
  exact ⟨h1, h2.1, h2.2⟩

theorem findSock_append_of_some {socks : List Sock} {c p : Nat} {so : Sock} (h : findSock socks c p = some so) (x : Sock) :
    findSock (socks ++ [x]) c p = some so := by
  unfold findSock at *
  rw [List.find?_append, h]; rfl

theorem findSock_append_new {socks : List Sock} {c p : Nat} (x : Sock) (hx : x.client = c ∧ x.port = p)
    (hfresh : ∀ so ∈ socks, so.client = c → so.port ≠ p) : findSock (socks ++ [x]) c p = some x := by
  unfold findSock
  have hnone : socks.find? (fun s => decide (s.client = c) && decide (s.port = p)) = none := by
    rw [List.find?_eq_none]
    intro so hso hp
    simp only [Bool.and_eq_true, decide_eq_true_eq] at hp
    exact hfresh so hso hp.1 hp.2
  rw [List.find?_append, hnone]
  simp [hx.1, hx.2]

theorem findSock_markDone {socks : List Sock} {c p c' p' : Nat} {so : Sock} (h : findSock socks c p = some so) :
    ∃ so', findSock (markDone socks c' p') c p = some so' ∧ so'.name = so.name ∧ so'.id = so.id := by
  unfold findSock markDone at *
  induction socks with
  | nil => simp at h
  | cons x t ih =>
    simp only [List.map_cons, List.find?_cons] at h ⊢
    by_cases hx : (decide (x.client = c) && decide (x.port = p)) = true
    · simp only [hx] at h
      cases h
      by_cases hd : (decide (so.client = c') && decide (so.port = p')) = true
      · refine ⟨{ so with done := true }, ?_, rfl, rfl⟩
        simp only [hd, if_true]
        simp only [hx]
      · refine ⟨so, ?_, rfl, rfl⟩
        simp only [hd]
        simp only [Bool.false_eq_true, if_false, hx]
    · have hx' : (decide (x.client = c) && decide (x.port = p)) = false := by simpa using hx
      simp only [hx'] at h
      obtain ⟨so', h1, h2⟩ := ih h
      refine ⟨so', ?_, h2⟩
      by_cases hd : (decide (x.client = c') && decide (x.port = p')) = true
      · simp only [hd, if_true, hx']; exact h1
      · simp only [hd, Bool.false_eq_true, if_false, hx']; exact h1

end Elvis.Dns
