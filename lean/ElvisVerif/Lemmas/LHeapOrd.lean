import ElvisVerif.Lemmas.Heap
import ElvisVerif.Lemmas.ListHeap
/-!
# The list model of `BinaryHeap` refines the array model, also under a comparison that is a total
preorder only on the elements present

`Base/ListHeap.lean` (used by the TCB model) and `Base/Heap.lean` (for which `Lemmas/Heap.lean` proves the heap
invariant) model the same algorithm.  Here: `push` / `pop` of the list model under `le` equal `push` / `pop` of the
array model under `le'` whenever `le` and `le'` agree on the elements involved (`Agree`).  With `le'` a total
preorder this transports `IsHeap` and "the root is a maximum" to the list model under a comparison such as the
TCB's circular sequence order, which is a total preorder only on a window of 2^31 sequence numbers.
-/
namespace Elvis.LHeap
variable {α : Type}

/-- the two comparisons agree on the elements of `l` -/
def Agree (le le' : α → α → Bool) (l : List α) : Prop := ∀ a ∈ l, ∀ b ∈ l, le a b = le' a b

theorem Agree.perm {le le' : α → α → Bool} {l l' : List α} (h : Agree le le' l) (p : l'.Perm l) : Agree le le' l' :=
  fun a ha b hb => h a (p.mem_iff.1 ha) b (p.mem_iff.1 hb)

theorem swap_toArray (l : List α) (i j : Nat) (hi : i < l.length) (hj : j < l.length) :
    (swap l i j).toArray = l.toArray.swap i j (by simpa using hi) (by simpa using hj) := by
  unfold swap
  rw [dif_pos ⟨hi, hj⟩]
  apply Array.ext
  · simp
  · intro k h1 h2
    simp [List.getElem_set]

theorem siftUpF_congr (le : α → α → Bool) (fuel : Nat) {d d' : Array α} (e : d = d') (pos : Nat) (h : pos < d.size)
    (h' : pos < d'.size) : Heap.siftUpF le fuel d pos h = Heap.siftUpF le fuel d' pos h' := by
  subst e; rfl

theorem siftDownF_congr (le : α → α → Bool) (fuel : Nat) {d d' : Array α} (e : d = d') (pos : Nat) (h : pos < d.size)
    (h' : pos < d'.size) : Heap.siftDownF le fuel d pos h = Heap.siftDownF le fuel d' pos h' := by
  subst e; rfl

theorem siftDownF_congr' (le : α → α → Bool) {fuel fuel' : Nat} (ef : fuel = fuel') {d d' : Array α} (e : d = d')
    (pos : Nat) (h : pos < d.size) (h' : pos < d'.size) :
    Heap.siftDownF le fuel d pos h = Heap.siftDownF le fuel' d' pos h' := by
  subst e; subst ef; rfl

theorem siftUpAux_toArray (le le' : α → α → Bool) : ∀ (fuel : Nat) (l : List α) (pos : Nat) (h : pos < l.length),
    Agree le le' l →
    (siftUpAux le 0 fuel l pos).toArray = Heap.siftUpF le' fuel l.toArray pos (by simpa using h) := by
  intro fuel
  induction fuel with
  | zero => intro l pos h _; rfl
  | succ n ih =>
    intro l pos h ha
    unfold siftUpAux Heap.siftUpF
    by_cases hp : 0 < pos
    · have hpar : (pos - 1) / 2 < l.length := by omega
      rw [if_pos hp, dif_pos hp]
      simp only [List.getElem?_eq_getElem h, List.getElem?_eq_getElem hpar]
      have hag : le l[pos] l[(pos - 1) / 2] = le' l[pos] l[(pos - 1) / 2] :=
        ha _ (List.getElem_mem h) _ (List.getElem_mem hpar)
      simp only [List.getElem_toArray]
      rw [hag]
      split
      · rfl
      · rw [ih (swap l pos ((pos - 1) / 2)) ((pos - 1) / 2) (by rw [swap_length]; exact hpar)
          (ha.perm (swap_perm _ _ _))]
        exact siftUpF_congr le' n (swap_toArray l pos ((pos - 1) / 2) h hpar) _ _ _
    · rw [if_neg hp, dif_neg hp]

theorem siftDownAux_toArray (le le' : α → α → Bool) : ∀ (fuel : Nat) (l : List α) (pos : Nat) (h : pos < l.length),
    Agree le le' l →
    (siftUpAux le 0 (siftDownAux le fuel l pos).2 (siftDownAux le fuel l pos).1 (siftDownAux le fuel l pos).2).toArray =
      Heap.siftDownF le' fuel l.toArray pos (by simpa using h) := by
  intro fuel
  induction fuel with
  | zero =>
    intro l pos h ha
    unfold siftDownAux Heap.siftDownF Heap.siftUp
    exact siftUpAux_toArray le le' pos l pos h ha
  | succ n ih =>
    intro l pos h ha
    unfold siftDownAux Heap.siftDownF
    simp only [List.size_toArray]
    by_cases h2 : 2 * pos + 2 < l.length
    · have hc0 : 2 * pos + 1 < l.length := by omega
      rw [if_pos (by omega), dif_pos h2]
      simp only [List.getElem?_eq_getElem hc0, List.getElem?_eq_getElem h2]
      have hag : le l[2 * pos + 1] l[2 * pos + 1 + 1] = le' l[2 * pos + 1] l[2 * pos + 2] :=
        ha _ (List.getElem_mem hc0) _ (List.getElem_mem h2)
      simp only [List.getElem_toArray]
      rw [hag]
      split
      · rw [ih (swap l pos (2 * pos + 1 + 1)) (2 * pos + 1 + 1) (by rw [swap_length]; exact h2)
          (ha.perm (swap_perm _ _ _))]
        exact siftDownF_congr le' n (swap_toArray l pos (2 * pos + 2) h h2) _ _ _
      · rw [ih (swap l pos (2 * pos + 1)) (2 * pos + 1) (by rw [swap_length]; exact hc0)
          (ha.perm (swap_perm _ _ _))]
        exact siftDownF_congr le' n (swap_toArray l pos (2 * pos + 1) h hc0) _ _ _
    · rw [if_neg (by omega), dif_neg h2]
      by_cases h1 : 2 * pos + 2 = l.length
      · have hc0 : 2 * pos + 1 < l.length := by omega
        rw [if_pos (by omega), dif_pos h1]
        unfold Heap.siftUp
        rw [siftUpAux_toArray le le' (2 * pos + 1) (swap l pos (2 * pos + 1)) (2 * pos + 1)
          (by rw [swap_length]; exact hc0) (ha.perm (swap_perm _ _ _))]
        exact siftUpF_congr le' _ (swap_toArray l pos (2 * pos + 1) h hc0) _ _ _
      · rw [if_neg (by omega), dif_neg h1]
        unfold Heap.siftUp
        exact siftUpAux_toArray le le' pos l pos h ha

/-- **`push` of the list model is `push` of the array model** -/
theorem push_toArray (le le' : α → α → Bool) (l : List α) (x : α) (ha : Agree le le' (l ++ [x])) :
    (push le l x).toArray = Heap.push le' l.toArray x := by
  unfold push siftUp Heap.push Heap.siftUp
  rw [siftUpAux_toArray le le' l.length (l ++ [x]) l.length (by simp) ha]
  exact siftUpF_congr le' _ (by simp) _ _ _

/-- **`pop` of the list model is `pop` of the array model** -/
theorem pop_toArray (le le' : α → α → Bool) (l : List α) (ha : Agree le le' l) :
    (pop le l).1 = (Heap.pop le' l.toArray).1 ∧ (pop le l).2.toArray = (Heap.pop le' l.toArray).2 := by
  cases l with
  | nil => exact ⟨rfl, rfl⟩
  | cons a t =>
    cases t with
    | nil => exact ⟨rfl, rfl⟩
    | cons b u =>
      have hlast : (a :: b :: u).getLast? = some ((b :: u).getLast (by simp)) := by
        simp [List.getLast?_eq_some_getLast]
      have hdrop : (a :: b :: u).dropLast = a :: (b :: u).dropLast := rfl
      unfold pop Heap.pop
      rw [hlast]
      simp only [hdrop]
      have hsz : ¬ (a :: b :: u).toArray.size = 0 := by simp
      rw [dif_neg hsz]
      have hsz' : ¬ (a :: b :: u).toArray.pop.size = 0 := by simp
      simp only [dif_neg hsz']
      refine ⟨by simp, ?_⟩
      unfold siftDownToBottom siftUp Heap.siftDownToBottom
      have hag : Agree le le' ((b :: u).getLast (by simp) :: (b :: u).dropLast) := by
        intro x hx y hy
        have hsub : ∀ z ∈ ((b :: u).getLast (by simp) :: (b :: u).dropLast), z ∈ a :: b :: u := by
          intro z hz
          rcases List.mem_cons.1 hz with rfl | hz
          · exact List.mem_cons_of_mem _ (List.getLast_mem _)
          · exact List.mem_cons_of_mem _ (List.dropLast_subset _ hz)
        exact ha x (hsub x hx) y (hsub y hy)
      rw [siftDownAux_toArray le le' _ _ 0 (by simp) hag]
      have hE : ((b :: u).getLast (by simp) :: (b :: u).dropLast).toArray =
          (a :: b :: u).toArray.pop.set 0 ((a :: b :: u).toArray[(a :: b :: u).toArray.size - 1]'(by simp)) (by simp) := by
        simp [List.getLast_eq_getElem]
      exact siftDownF_congr' le' (by simp) hE _ _ _

/-! ## the heap invariant and the maximal root, transported -/

open Heap in
theorem push_isHeap {le le' : α → α → Bool} (tp : TotalPreorder le') (l : List α) (x : α)
    (ha : Agree le le' (l ++ [x])) (hh : IsHeap le' l.toArray) : IsHeap le' (push le l x).toArray := by
  rw [push_toArray le le' l x ha]
  exact push_heap tp _ x hh

open Heap in
/-- `pop` returns a maximum of `le'` and leaves a heap -/
theorem pop_isHeap {le le' : α → α → Bool} (tp : TotalPreorder le') (l : List α) (t : α) (r : List α)
    (h : pop le l = (some t, r)) (ha : Agree le le' l) (hh : IsHeap le' l.toArray) :
    IsHeap le' r.toArray ∧ ∀ y ∈ l, le' y t = true := by
  obtain ⟨e1, e2⟩ := pop_toArray le le' l ha
  rw [h] at e1 e2
  have hpos : 0 < l.toArray.size := by
    cases l with
    | nil => simp [pop] at h
    | cons a u => simp
  obtain ⟨x, d', ep, _, hd', hmax, _⟩ := pop_spec tp l.toArray hh hpos
  rw [ep] at e1 e2
  simp only at e1 e2
  cases e1
  refine ⟨by rw [e2]; exact hd', fun y hy => hmax y (by simpa using hy)⟩

open Heap in
/-- the root of a heap is a maximum of `le'` -/
theorem peek_max {le' : α → α → Bool} (tp : TotalPreorder le') (l : List α) (t : α) (h : peek l = some t)
    (hh : IsHeap le' l.toArray) : ∀ y ∈ l, le' y t = true := by
  intro y hy
  obtain ⟨i, hi, rfl⟩ := List.getElem_of_mem hy
  have := root_max tp l.toArray hh i (by simpa using hi)
  cases l with
  | nil => simp [peek] at h
  | cons a u =>
    simp only [peek, List.head?_cons, Option.some.injEq] at h
    subst h
    simpa using this

open Heap in
theorem isHeap_nil (le' : α → α → Bool) : IsHeap le' ([] : List α).toArray := by
  intro i hi; simp at hi

open Heap in
theorem isHeap_single (le' : α → α → Bool) (a : α) : IsHeap le' [a].toArray := by
  intro i hi hpos
  simp at hi
  omega

end Elvis.LHeap
