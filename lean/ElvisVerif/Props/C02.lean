import ElvisVerif.Lemmas.Socket
/-!
# C02 — Socket I/O across the full stack is intact, ordered and bounded

Over the model of `Model/Socket.lean` (which follows socket.rs / socket_api.rs / socket_session.rs /
tcp_session.rs / udp.rs; disciplines and capacities are regenerated from the source into
`Generated/SocketCert.lean` on every check):

* `c02_recv_stream`, `c02_recv_successive`, `c02_recv_msg` — reads never lose, duplicate or
  reorder bytes (all queues, all read sizes, induction over the queue and over the reads)
* `c02_recv_bound`, `c02_recv_exact` — a read of `n` returns at most `n` bytes, and exactly the
  first `n` pending ones when it does not wait; `c02_recv_bound_counterexample` is the original
  code (F-C02-1, fixed)
* `c02_session_fifo`, `c02_replay_fifo`, `c02_overrun_counterexample` — SocketSession is FIFO
  while its channel is not overrun; beyond the capacity a whole message vanishes (F-C02-3, known)
* `c02_demux_exact`, `c02_demux_unknown` — demux touches exactly the session of the 4-tuple
* `c02_accept_replay` (+ `_counterexample`, `_stranded_counterexample`: F-C02-4)
* `c02_order` (+ `c02_order_counterexample`: F-C02-2) — writes reach the TCB in program order
* `c02_datagram` — a queued datagram is exactly one sent payload, from the connected peer
* `c02_stream_end_to_end` — composition, TCB as reliable in-order pipe (= property C01, assumed)
-/
namespace Elvis.Sock

/-! ## (i) Socket::recv -/

/-- one read, any variant of the comparison: what comes out plus what stays equals what was there -/
theorem c02_recv_stream_any (rem : Bool) (stored : Option Msg) (queue : List Msg) (n : Nat) (blocking : Bool) :
    (recvWith rem stored queue n blocking).out
      ++ pending (recvWith rem stored queue n blocking).stored (recvWith rem stored queue n blocking).queue
    = pending stored queue := by
  unfold recvWith
  cases stored with
  | none => simpa using recvLoop_stream rem n blocking queue [] none (.inl rfl)
  | some m =>
    by_cases h : m.length ≤ n
    · simp only [h, if_true]
      rw [recvLoop_stream rem n blocking queue m none (.inl rfl)]
      simp [pending]
    · simp only [h, if_false]
      rw [recvLoop_stream rem n blocking queue (m.take n) (some (m.drop n))
            (.inr (by simp [List.length_take]; omega))]
      simp only [pending_some]
      rw [← List.append_assoc, List.take_append_drop]

/-- the code as it is: successive reads never lose, duplicate or reorder bytes -/
theorem c02_recv_stream (stored : Option Msg) (queue : List Msg) (n : Nat) (blocking : Bool) :
    (recv stored queue n blocking).out
      ++ pending (recv stored queue n blocking).stored (recv stored queue n blocking).queue
    = pending stored queue :=
  c02_recv_stream_any _ stored queue n blocking

/-- a sequence of reads with sizes `ns` (a read that would wait returns nothing) -/
def readSeq (stored : Option Msg) (queue : List Msg) : List (Nat × Bool) → List Bytes × Option Msg × List Msg
  | [] => ([], stored, queue)
  | (n, b) :: rest =>
    let r := recv stored queue n b
    let t := readSeq r.stored r.queue rest
    (r.out :: t.1, t.2.1, t.2.2)

theorem c02_recv_successive (ns : List (Nat × Bool)) : ∀ (stored : Option Msg) (queue : List Msg),
    (readSeq stored queue ns).1.flatten ++ pending (readSeq stored queue ns).2.1 (readSeq stored queue ns).2.2
      = pending stored queue := by
  induction ns with
  | nil => intro s q; simp [readSeq]
  | cons x rest ih =>
    intro s q
    obtain ⟨n, b⟩ := x
    simp only [readSeq, List.flatten_cons, List.append_assoc]
    rw [ih, c02_recv_stream]

/-- F-C02-1 (original code: each dequeued message compared with `n`): stored remainder of 2
bytes, one queued message of 4 bytes, `recv(4)` returns 6 bytes -/
theorem c02_recv_bound_counterexample :
    (recvWith false (some [1, 2]) [[3, 4, 5, 6]] 4 false).out = [1, 2, 3, 4, 5, 6] := by decide

/-- what the original comparison did guarantee -/
theorem c02_recv_bound_original (stored : Option Msg) (queue : List Msg) (n : Nat) (blocking : Bool) :
    (recvWith false stored queue n blocking).out.length ≤ 2 * n - 1 := by
  unfold recvWith
  cases stored with
  | none => exact recvLoop_bound_orig n blocking queue [] none (by simp)
  | some m =>
    by_cases h : m.length ≤ n
    · simp only [h, if_true]
      apply recvLoop_bound_orig
      omega
    · simp only [h, if_false]
      apply recvLoop_bound_orig
      simp [List.length_take]; omega

theorem recvWith_bound_fixed (stored : Option Msg) (queue : List Msg) (n : Nat) (blocking : Bool) :
    (recvWith true stored queue n blocking).out.length ≤ n := by
  unfold recvWith
  cases stored with
  | none => exact recvLoop_bound_fixed n blocking queue [] none (by simp)
  | some m =>
    by_cases h : m.length ≤ n
    · simp only [h, if_true]
      exact recvLoop_bound_fixed n blocking queue m none h
    · simp only [h, if_false]
      apply recvLoop_bound_fixed
      simp [List.length_take]; omega

/-- the comparison the source uses now (regenerated from socket.rs on every check) -/
theorem c02_recv_compares_with_remaining : Gen.recvComparesWithRemaining = true := by decide

/-- a read that asks for at most `n` bytes never returns more than `n` -/
theorem c02_recv_bound (stored : Option Msg) (queue : List Msg) (n : Nat) (blocking : Bool) :
    (recv stored queue n blocking).out.length ≤ n := by
  unfold recv
  rw [c02_recv_compares_with_remaining]
  exact recvWith_bound_fixed stored queue n blocking

theorem recvWith_full (rem : Bool) (stored : Option Msg) (queue : List Msg) (n : Nat) (blocking : Bool) :
    n ≤ (recvWith rem stored queue n blocking).out.length
      ∨ ((recvWith rem stored queue n blocking).stored = none ∧ (recvWith rem stored queue n blocking).queue = []) := by
  unfold recvWith
  cases stored with
  | none => exact recvLoop_full rem n blocking queue [] none (.inl rfl)
  | some m =>
    by_cases h : m.length ≤ n
    · simp only [h, if_true]
      exact recvLoop_full rem n blocking queue m none (.inl rfl)
    · simp only [h, if_false]
      exact recvLoop_full rem n blocking queue _ _ (.inr (by simp [List.length_take]; omega))

/-- a read returns exactly the first `n` pending bytes (all of them when fewer are pending);
when it would wait (`blocked`) nothing was pending and nothing is returned -/
theorem c02_recv_exact (stored : Option Msg) (queue : List Msg) (n : Nat) (blocking : Bool) :
    (recv stored queue n blocking).out = (pending stored queue).take n := by
  have hs := c02_recv_stream stored queue n blocking
  have hb := c02_recv_bound stored queue n blocking
  have hf := recvWith_full Gen.recvComparesWithRemaining stored queue n blocking
  rw [← hs]
  rcases hf with hf | ⟨h1, h2⟩
  · have : (recv stored queue n blocking).out.length = n := by unfold recv at hb ⊢; omega
    rw [List.take_append_of_le_length (by omega), List.take_of_length_le (by omega)]
  · unfold recv at hb ⊢
    rw [h1, h2]
    simp only [pending_none, List.flatten_nil, List.append_nil]
    rw [List.take_of_length_le hb]

example : (recv (some [1, 2]) [[3, 4, 5, 6]] 4 false).out = [1, 2, 3, 4]
    ∧ (recv (some [1, 2]) [[3, 4, 5, 6]] 4 false).stored = some [5, 6] := by decide

/-- `recv_msg` hands out whole messages in order -/
theorem c02_recv_msg (stored : Option Msg) (queue : List Msg) (blocking : Bool) (m : Msg)
    (s' : Option Msg) (q' : List Msg) (h : recvMsg stored queue blocking = .msg m s' q') :
    m ++ pending s' q' = pending stored queue := by
  unfold recvMsg at h
  cases stored with
  | some x => simp at h; obtain ⟨rfl, rfl, rfl⟩ := h; simp [pending]
  | none =>
    cases queue with
    | nil => simp at h; split at h <;> cases h
    | cons x q => simp at h; obtain ⟨rfl, rfl, rfl⟩ := h; simp [pending]

/-! ## (ii) SocketSession: bounded channel + unbounded pre-accept store -/

/-- `SocketSession::receive` puts the message at the END of the channel (active socket with
room) or of the pre-accept store (no socket yet), or refuses it; nothing else moves -/
theorem c02_session_fifo (cap : Nat) (s : Session) (m : Msg) :
    ((s.receive cap m) = ({ s with chan := s.chan ++ [m] }, .queued) ∧ s.active = true ∧ s.rxClosed = false ∧ s.chan.length < cap)
    ∨ ((s.receive cap m) = ({ s with pre := s.pre ++ [m] }, .stored) ∧ s.active = false)
    ∨ ((s.receive cap m) = (s, .full) ∧ s.active = true ∧ s.rxClosed = false ∧ cap ≤ s.chan.length)
    ∨ ((s.receive cap m) = (s, .closed) ∧ s.active = true ∧ s.rxClosed = true) := by
  unfold Session.receive
  cases ha : s.active <;> cases hc : s.rxClosed <;> simp
  by_cases h : s.chan.length < cap
  · simp [h]
  · simp [h]; omega

/-- F-C02-3 (known): `try_send` on the bounded channel — once `cap` messages wait for a slow
reader the next one is dropped whole (for TCP: a hole in the byte stream) -/
theorem c02_overrun_drops (s : Session) (m : Msg) (ha : s.active = true) (hc : s.rxClosed = false)
    (hfull : s.chan.length = Gen.socketChannelCapacity) :
    s.receive Gen.socketChannelCapacity m = (s, .full) := by
  unfold Session.receive
  simp [ha, hc, hfull]

/-- `receive_stored_messages` moves the whole store behind the channel contents, in order, when it fits -/
theorem c02_replay_fifo (cap : Nat) (s : Session) (ha : s.active = true) (h : s.chan.length + s.pre.length ≤ cap) :
    s.receiveStored cap = ({ s with chan := s.chan ++ s.pre, pre := [] }, true) := by
  unfold Session.receiveStored
  simp only [ha, if_true]
  rw [replayLoop_fits cap s.pre s.chan h]

/-- … and when it does not fit, `accept()` fails (`unwrap` of `Err`) and the message popped last is lost -/
theorem c02_replay_overflow_counterexample :
    (Session.receiveStored 2 { active := true, pre := [[1], [2], [3], [4]] })
      = ({ active := true, chan := [[1], [2]], pre := [[4]] }, false) := by decide

/-! ## (iii) SocketAPI demux: exactly the session of the 4-tuple -/

theorem c02_demux_exact (cap : Nat) (a : Api) (id : Endpoints) (m : Msg) (s : Session)
    (h : a.session? id = some s) :
    (a.demux cap id m).1.session? id = some (s.receive cap m).1
    ∧ (a.demux cap id m).2 = .delivered (s.receive cap m).2
    ∧ ∀ id', id' ≠ id → (a.demux cap id m).1.session? id' = a.session? id' := by
  unfold Api.demux
  simp only [h]
  exact ⟨session_setSession_self _ _ _, (by first | trivial | rfl), fun id' h' => session_setSession_other _ h' _⟩

/-- no session for the 4-tuple: other sessions are untouched; the message either opens a new
pre-accept session holding exactly that message, or is refused -/
theorem c02_demux_unknown (cap : Nat) (a : Api) (id : Endpoints) (m : Msg) (h : a.session? id = none) :
    (∀ id', id' ≠ id → (a.demux cap id m).1.session? id' = a.session? id')
    ∧ (((a.demux cap id m).2 = .newSession ∧ (a.demux cap id m).1.session? id = some { pre := [m] })
       ∨ (((a.demux cap id m).2 = .missingSession ∨ (a.demux cap id m).2 = .backlogFull) ∧ (a.demux cap id m).1 = a)) := by
  unfold Api.demux
  simp only [h]
  cases hb : a.binding? id.loc with
  | none => exact ⟨fun _ _ => rfl, .inr ⟨.inl (by first | trivial | rfl), (by first | trivial | rfl)⟩⟩
  | some b =>
    by_cases hl : b.pending.length < b.cap
    · simp only [hl, if_true]
      refine ⟨fun id' h' => ?_, .inl ⟨(by first | trivial | rfl), session_setSession_self _ _ _⟩⟩
      rw [session_setSession_other _ h', session_setBinding]
    · simp only [hl, if_false]
      exact ⟨fun _ _ => (by first | trivial | rfl), .inr ⟨.inr (by first | trivial | rfl), (by first | trivial | rfl)⟩⟩

/-- shape of `SocketAPI::demux` in the source: exact 4-tuple, else listen binding exact then
`0.0.0.0:port`; the message is stored and the backlog `try_send` done before the session is
inserted; `SocketSession::receive` runs under the sessions read lock -/
theorem c02_demux_certificate : Gen.demuxLookupShape = true ∧ Gen.demuxReceivesUnderReadLock = true := by decide

/-! ## accept(): replay of the messages stored before the socket existed -/

theorem arun_append (cap : Nat) (s : Session) (l1 l2 : List AStep) :
    s.arun cap (l1 ++ l2) = (s.arun cap l1).arun cap l2 := by
  simp [Session.arun, List.foldl_append]

theorem arun_arrive_inactive (cap : Nat) (l : List Msg) : ∀ (s : Session), s.active = false →
    s.arun cap (l.map .arrive) = { s with pre := s.pre ++ l } := by
  induction l with
  | nil => intro s _; simp [Session.arun]
  | cons m l ih =>
    intro s hs
    have h1 : s.astep cap (.arrive m) = { s with pre := s.pre ++ [m] } := by
      simp [Session.astep, Session.receive, hs]
    simp only [List.map_cons, Session.arun, List.foldl_cons, h1]
    have := ih { s with pre := s.pre ++ [m] } hs
    simp only [Session.arun] at this
    rw [this]; simp

theorem arun_arrive_active (cap : Nat) (l : List Msg) : ∀ (s : Session), s.active = true → s.rxClosed = false →
    s.chan.length + l.length ≤ cap → s.arun cap (l.map .arrive) = { s with chan := s.chan ++ l } := by
  induction l with
  | nil => intro s _ _ _; simp [Session.arun]
  | cons m l ih =>
    intro s ha hc hl
    simp only [List.length_cons] at hl
    have hlt : s.chan.length < cap := by omega
    have h1 : s.astep cap (.arrive m) = { s with chan := s.chan ++ [m] } := by
      simp [Session.astep, Session.receive, ha, hc, hlt]
    simp only [List.map_cons, Session.arun, List.foldl_cons, h1]
    have := ih { s with chan := s.chan ++ [m] } ha hc (by simp; omega)
    simp only [Session.arun] at this
    rw [this]; simp

/-- activation + replay as one indivisible block: whatever arrived before `accept()`, whatever
other threads try to deliver while it runs (`between`) and whatever arrives later end up in the
new socket's queue in arrival order, the stored ones first -/
theorem c02_accept_replay_atomic (cap : Nat) (before between after : List Msg)
    (h : before.length + between.length + after.length ≤ cap) :
    Session.arun cap {} (before.map .arrive ++ acceptSteps true between ++ after.map .arrive)
      = { active := true, rxClosed := false, chan := before ++ between ++ after, pre := [] } := by
  rw [arun_append, arun_append, arun_arrive_inactive cap before {} rfl]
  simp only [acceptSteps, if_true]
  rw [arun_append]
  have h2 : Session.arun cap { pre := [] ++ before } [AStep.activate, AStep.replay]
      = { active := true, rxClosed := false, chan := before, pre := [] } := by
    simp only [Session.arun, List.foldl_cons, List.foldl_nil, Session.astep]
    have := c02_replay_fifo cap { active := true, rxClosed := false, chan := [], pre := before } rfl (by simp; omega)
    simp at this
    simp [this]
  rw [h2, arun_arrive_active cap between _ rfl rfl (by simp; omega)]
  rw [arun_arrive_active cap after _ rfl rfl (by simp; omega)]

/-- where the source replays the stored messages now (regenerated on every check) -/
theorem c02_accept_replay_under_lock : Gen.acceptReplayUnderLock = true := by decide

/-- the code as it is: messages stored before `accept()` reach the new socket's queue in arrival
order and before any later message -/
theorem c02_accept_replay (before between after : List Msg)
    (h : before.length + between.length + after.length ≤ Gen.socketChannelCapacity) :
    Session.arun Gen.socketChannelCapacity {}
        (before.map .arrive ++ acceptSteps Gen.acceptReplayUnderLock between ++ after.map .arrive)
      = { active := true, rxClosed := false, chan := before ++ between ++ after, pre := [] } := by
  rw [c02_accept_replay_under_lock]
  exact c02_accept_replay_atomic _ before between after h

example : Session.arun Gen.socketChannelCapacity {}
      ([[1], [2, 3]].map .arrive ++ acceptSteps Gen.acceptReplayUnderLock [[4]] ++ [[5]].map .arrive)
    = { active := true, chan := [[1], [2, 3], [4], [5]] } := by decide

/-- F-C02-4 (original code: activation in `get_socket_session`, replay afterwards in `accept`, no
lock over both): a segment delivered in between overtakes the stored ones -/
theorem c02_accept_replay_counterexample :
    (Session.arun 255 {} ([[1]].map .arrive ++ acceptSteps false [[2]])).chan = [[2], [1]] := by decide

/-- F-C02-4, second half: a `receive` that saw `upstream = None` just before the activation
pushes onto the store after the replay; nothing ever moves it to the socket -/
theorem c02_accept_stranded_counterexample :
    Session.arun 255 {} [.activate, .replay, .storeLate [9], .arrive [10]]
      = { active := true, chan := [[10]], pre := [[9]] } := by decide

/-! ## (iv) order of writes into the TCB -/

/-- every hop from `Socket::send` to the instruction queue is a plain call and the queue never
makes a sender wait -/
def SyncDiscipline (d : Discipline) : Prop :=
  d.socketSendSpawns = false ∧ d.tcpSendSpawns = false ∧ d.cap = none

structure HandInv (h : Hand) : Prop where
  tasksA : h.tasksA = []
  tasksB : outsOf h.tasksB = []
  waiters : h.waiters = []
  order : outsOf h.tcb ++ outsOf h.chan = List.range h.issued

theorem enqueue_sync {d : Discipline} (hd : SyncDiscipline d) (h : Hand) (hw : h.waiters = []) (i : Instr) :
    h.enqueue d i = { h with chan := h.chan ++ [i] } := by
  unfold Hand.enqueue
  simp [hw, hd.2.2, hasRoom]

theorem hand_step_inv {d : Discipline} (hd : SyncDiscipline d) (h : Hand) (inv : HandInv h) (s : HStep) :
    HandInv (h.step d s) := by
  cases s with
  | write =>
    simp only [Hand.step, hd.1, Bool.false_eq_true, if_false, Hand.sessionEnqueue, hd.2.1]
    rw [enqueue_sync hd { h with issued := h.issued + 1 } inv.waiters]
    refine ⟨inv.tasksA, inv.tasksB, inv.waiters, ?_⟩
    simp only [outsOf_append, outsOf, List.range_succ]
    rw [← List.append_assoc, inv.order]
  | runA k =>
    simp only [Hand.step, inv.tasksA]
    simpa using inv
  | runB k =>
    simp only [Hand.step]
    cases hk : h.tasksB[k]? with
    | none => simpa using inv
    | some i =>
      obtain ⟨j, rfl⟩ := outsOf_getElem_nil inv.tasksB hk
      simp only []
      rw [enqueue_sync hd { h with tasksB := h.tasksB.eraseIdx k } inv.waiters]
      refine ⟨inv.tasksA, outsOf_eraseIdx_nil inv.tasksB k, inv.waiters, ?_⟩
      simpa [outsOf_append, outsOf] using inv.order
  | segment j =>
    simp only [Hand.step, Hand.sessionEnqueue]
    cases d.tcpRecvSpawns with
    | true =>
      simp only [if_true]
      refine ⟨inv.tasksA, ?_, inv.waiters, inv.order⟩
      simp [outsOf_append, outsOf, inv.tasksB]
    | false =>
      simp only [Bool.false_eq_true, if_false]
      rw [enqueue_sync hd h inv.waiters]
      refine ⟨inv.tasksA, inv.tasksB, inv.waiters, ?_⟩
      simpa [outsOf_append, outsOf] using inv.order
  | tcbTask =>
    simp only [Hand.step]
    cases hc : h.chan with
    | nil => simpa using inv
    | cons i rest =>
      have hw := inv.waiters
      have ho := inv.order
      rw [hc] at ho
      rw [hw]
      refine ⟨inv.tasksA, inv.tasksB, rfl, ?_⟩
      cases i <;> simpa [outsOf_append, outsOf] using ho

theorem hand_run_inv {d : Discipline} (hd : SyncDiscipline d) (l : List HStep) : ∀ (h : Hand), HandInv h →
    HandInv (h.run d l) := by
  induction l with
  | nil => intro h inv; exact inv
  | cons s l ih => intro h inv; exact ih _ (hand_step_inv hd h inv s)

theorem handInv_init : HandInv {} := ⟨rfl, rfl, rfl, rfl⟩

/-- synchronous hand-off: for EVERY interleaving of the application, incoming segments, their
enqueue tasks and the TCP session task, the writes that reached `Tcb::send` are exactly the first
writes of the program, in program order -/
theorem c02_order_sync {d : Discipline} (hd : SyncDiscipline d) (sched : List HStep) :
    (Hand.run d {} sched).tcbWrites <+: List.range (Hand.run d {} sched).issued :=
  ⟨outsOf (Hand.run d {} sched).chan, (hand_run_inv hd sched {} handInv_init).order⟩

/-- what the source does now (regenerated from socket.rs / tcp_session.rs on every check) -/
theorem c02_handoff_is_synchronous : SyncDiscipline codeDiscipline := by
  unfold SyncDiscipline codeDiscipline; decide

/-- the code as it is: the sequence of writes reaching the TCB equals program order, whatever
the scheduler does -/
theorem c02_order (sched : List HStep) :
    (Hand.run codeDiscipline {} sched).tcbWrites <+: List.range (Hand.run codeDiscipline {} sched).issued :=
  c02_order_sync c02_handoff_is_synchronous sched

/-- … and nothing is parked on the way: whatever was issued is in the queue or at the TCB -/
theorem c02_order_complete (sched : List HStep) :
    (Hand.run codeDiscipline {} sched).tcbWrites ++ outsOf (Hand.run codeDiscipline {} sched).chan
      = List.range (Hand.run codeDiscipline {} sched).issued :=
  (hand_run_inv c02_handoff_is_synchronous sched {} handInv_init).order

example : (Hand.run codeDiscipline {} [.write, .segment 0, .write, .tcbTask, .tcbTask, .write, .tcbTask]).tcbWrites = [0, 1] := by decide

/-- F-C02-2 (original code: `tokio::spawn` in `Socket::send` and again in `TcpSession::send`, bounded
queue of 8): two back-to-back writes, the scheduler runs the second task first -/
theorem c02_order_counterexample :
    (Hand.run ⟨true, true, true, some 8⟩ {}
      [.write, .write, .runA 1, .runA 0, .runB 0, .runB 0, .tcbTask, .tcbTask]).tcbWrites = [1, 0] := by decide

/-- either spawn alone is enough to lose the order -/
theorem c02_order_counterexample_inner_spawn :
    (Hand.run ⟨false, true, false, none⟩ {} [.write, .write, .runB 1, .runB 0, .tcbTask, .tcbTask]).tcbWrites = [1, 0] := by decide

theorem c02_order_counterexample_outer_spawn :
    (Hand.run ⟨true, false, false, none⟩ {} [.write, .write, .runA 1, .runA 0, .tcbTask, .tcbTask]).tcbWrites = [1, 0] := by decide

/-! ## (v) datagrams -/

/-- ports are `u16` in the code -/
def WellFormed (id : Endpoints) : Prop := id.loc.port < 65536 ∧ id.rem.port < 65536

def Endpoints.reverse (id : Endpoints) : Endpoints := ⟨id.rem, id.loc⟩

/-- `Udp::demux` of what `UdpSession::send` produced gives back exactly the payload, and the
endpoints as seen from the receiver -/
theorem udp_roundtrip (id : Endpoints) (p : Bytes) (cks : Nat) (d : IpDgram) (hw : WellFormed id)
    (h : udpSend id p cks = some d) : udpDemux d = some (id.reverse, p) := by
  unfold udpSend at h
  split at h
  · rename_i hlen
    cases h
    obtain ⟨⟨la, lp⟩, ⟨ra, rp⟩⟩ := id
    simp only [WellFormed] at hw
    simp only [udpDemux, udpHeader, be16, List.cons_append, List.nil_append, List.length_cons]
    have h1 := rd16_be16 lp hw.1
    have h2 := rd16_be16 rp hw.2
    have h3 := rd16_be16 (p.length + Gen.udpHeaderOctets) hlen
    have h8 : Gen.udpHeaderOctets = 8 := by decide
    rw [h1, h2, h3, h8]
    simp [Endpoints.reverse]
  · cases h

structure UWorld where
  /-- every `UdpSession::send` so far: (the sending session's endpoints, payload) -/
  sent : List (Endpoints × Bytes) := []
  /-- every datagram ever handed to IPv4 -/
  wire : List IpDgram := []
  /-- the socket layer of the receiving machine -/
  api : Api := {}

inductive UStep
  /-- some UDP session somewhere sends `p` -/
  | send (id : Endpoints) (p : Bytes) (cks : Nat)
  /-- IPv4 hands datagram number `i` up on this machine (any order, any number of times) -/
  | deliver (i : Nat)
  /-- the socket of session `id` takes the oldest message out of its queue -/
  | consume (id : Endpoints)
  /-- `SocketAPI::notify` / `listen`-free bookkeeping that creates an empty session -/
  | openSession (id : Endpoints)

def UWorld.step (cap : Nat) (w : UWorld) : UStep → UWorld
  | .send id p cks =>
    if id.loc.port < 65536 ∧ id.rem.port < 65536 then
      match udpSend id p cks with
      | some d => { w with sent := w.sent ++ [(id, p)], wire := w.wire ++ [d] }
      | none => w
    else w
  | .deliver i =>
    match w.wire[i]? with
    | some d => { w with api := w.api.udpArrive cap d }
    | none => w
  | .consume id =>
    match w.api.session? id with
    | some s => { w with api := w.api.setSession id { s with chan := s.chan.drop 1 } }
    | none => w
  | .openSession id =>
    match w.api.session? id with
    | some _ => w
    | none => { w with api := w.api.setSession id { active := true } }

def UWorld.run (cap : Nat) (w : UWorld) (l : List UStep) : UWorld := l.foldl (UWorld.step cap) w

structure UInv (w : UWorld) : Prop where
  wire : ∀ d ∈ w.wire, ∃ e ∈ w.sent, udpDemux d = some (e.1.reverse, e.2)
  queued : ∀ id s, w.api.session? id = some s → ∀ m ∈ s.chan ++ s.pre, (id.reverse, m) ∈ w.sent

theorem mem_receive (cap : Nat) (s : Session) (x m : Msg)
    (h : m ∈ (s.receive cap x).1.chan ++ (s.receive cap x).1.pre) : m ∈ s.chan ++ s.pre ∨ m = x := by
  rcases c02_session_fifo cap s x with h1 | h1 | h1 | h1
  · rw [h1.1] at h
    simp only [List.mem_append, List.mem_singleton] at h ⊢
    rcases h with (h | h) | h
    · exact .inl (.inl h)
    · exact .inr h
    · exact .inl (.inr h)
  · rw [h1.1] at h
    simp only [List.mem_append, List.mem_singleton] at h ⊢
    rcases h with h | h | h
    · exact .inl (.inl h)
    · exact .inl (.inr h)
    · exact .inr h
  · rw [h1.1] at h; exact .inl h
  · rw [h1.1] at h; exact .inl h

theorem reverse_reverse (id : Endpoints) : id.reverse.reverse = id := rfl

theorem ustep_inv (cap : Nat) (w : UWorld) (inv : UInv w) (s : UStep) : UInv (w.step cap s) := by
  cases s with
  | send id p cks =>
    simp only [UWorld.step]
    split
    · rename_i hw
      cases hs : udpSend id p cks with
      | none => exact inv
      | some d =>
        refine ⟨?_, ?_⟩
        · intro d' hd'
          simp only [List.mem_append, List.mem_singleton] at hd'
          rcases hd' with hd' | rfl
          · obtain ⟨e, he, h⟩ := inv.wire d' hd'
            exact ⟨e, by simp [he], h⟩
          · exact ⟨(id, p), by simp, udp_roundtrip id p cks d' hw hs⟩
        · intro id' s' hs' m hm
          have := inv.queued id' s' hs' m hm
          simp [this]
    · exact inv
  | deliver i =>
    simp only [UWorld.step]
    cases hi : w.wire[i]? with
    | none => exact inv
    | some d =>
      obtain ⟨e, he, hde⟩ := inv.wire d (List.mem_of_getElem? hi)
      refine ⟨inv.wire, ?_⟩
      intro id s hs m hm
      simp only [Api.udpArrive, hde] at hs
      by_cases hid : id = e.1.reverse
      · subst hid
        cases hold : w.api.session? e.1.reverse with
        | some s0 =>
          have hx := (c02_demux_exact cap w.api e.1.reverse e.2 s0 hold).1
          rw [hx] at hs
          cases hs
          rcases mem_receive cap s0 e.2 m hm with h | h
          · exact inv.queued _ s0 hold m h
          · subst h; rw [reverse_reverse]; exact he
        | none =>
          rcases (c02_demux_unknown cap w.api e.1.reverse e.2 hold).2 with ⟨_, h⟩ | ⟨_, h⟩
          · rw [h] at hs
            cases hs
            simp at hm
            subst hm; rw [reverse_reverse]; exact he
          · rw [h, hold] at hs; cases hs
      · have hother : (w.api.demux cap e.1.reverse e.2).1.session? id = w.api.session? id := by
          cases hold : w.api.session? e.1.reverse with
          | some s0 => exact (c02_demux_exact cap w.api e.1.reverse e.2 s0 hold).2.2 id hid
          | none => exact (c02_demux_unknown cap w.api e.1.reverse e.2 hold).1 id hid
        rw [hother] at hs
        exact inv.queued id s hs m hm
  | consume id =>
    simp only [UWorld.step]
    cases hold : w.api.session? id with
    | none => exact inv
    | some s0 =>
      refine ⟨inv.wire, ?_⟩
      intro id' s' hs' m hm
      by_cases hid : id' = id
      · subst hid
        rw [session_setSession_self] at hs'
        cases hs'
        apply inv.queued _ s0 hold m
        simp only [List.mem_append] at hm ⊢
        rcases hm with hm | hm
        · exact .inl (List.mem_of_mem_drop hm)
        · exact .inr hm
      · rw [session_setSession_other _ hid] at hs'
        exact inv.queued id' s' hs' m hm
  | openSession id =>
    simp only [UWorld.step]
    cases hold : w.api.session? id with
    | some _ => exact inv
    | none =>
      refine ⟨inv.wire, ?_⟩
      intro id' s' hs' m hm
      by_cases hid : id' = id
      · subst hid
        rw [session_setSession_self] at hs'
        cases hs'
        simp at hm
      · rw [session_setSession_other _ hid] at hs'
        exact inv.queued id' s' hs' m hm

theorem urun_inv (cap : Nat) (l : List UStep) : ∀ (w : UWorld), UInv w → UInv (w.run cap l) := by
  induction l with
  | nil => intro w inv; exact inv
  | cons s l ih => intro w inv; exact ih _ (ustep_inv cap w inv s)

/-- a datagram in the queue (or pre-accept store) of a socket with 4-tuple `id` is the payload of
exactly one `send` of a session whose local endpoint is the socket's remote one and whose remote
endpoint is the socket's local one — for every interleaving of sends by anybody, deliveries in
any order / any number of times (loss, duplication, reordering), and reads.  Never a fragment,
never a concatenation, never somebody else's datagram.
ASSUMPTION (C10/C11/C08): IPv4 hands up the bytes and addresses it was given, or nothing. -/
theorem c02_datagram (sched : List UStep) (id : Endpoints) (s : Session) (m : Msg)
    (hs : (UWorld.run Gen.socketChannelCapacity {} sched).api.session? id = some s)
    (hm : m ∈ s.chan ++ s.pre) :
    (id.reverse, m) ∈ (UWorld.run Gen.socketChannelCapacity {} sched).sent :=
  (urun_inv _ sched {} ⟨(by intro d hd; cases hd), (by intro id s hs; cases hs)⟩).queued id s hs m hm

example :
    let a : Endpoints := ⟨⟨1, 5000⟩, ⟨2, 6000⟩⟩   -- A's socket: local 1:5000, remote 2:6000
    let w := UWorld.run Gen.socketChannelCapacity {}
      [.openSession a.reverse, .send a [7, 8] 0, .send ⟨⟨3, 5000⟩, ⟨2, 6000⟩⟩ [9] 0, .deliver 1, .deliver 0, .deliver 0]
    -- B's socket (connected to A) got A's datagram twice (duplicate delivery) and not C's
    (w.api.session? a.reverse).map (·.chan) = some [[7, 8], [7, 8]] := by decide

/-! ## (vi) end to end: writes → hand-off → TCP pipe → socket session → reads -/

theorem submitted_eq_take (e : E2E) (hi : HandInv e.hand) (hl : e.hand.issued = e.writes.length) :
    e.submitted = (e.writes.take e.hand.tcbWrites.length).flatten := by
  unfold E2E.submitted
  have h1 : e.hand.tcbWrites = List.range e.hand.tcbWrites.length := prefix_of_range hi.order
  have h2 : e.hand.tcbWrites.length ≤ e.writes.length := by
    have := congrArg List.length hi.order
    simp only [List.length_append, List.length_range] at this
    unfold Hand.tcbWrites; omega
  conv => lhs; rw [h1]
  rw [map_getD_range e.writes _ h2]

/-- invariant of the composed system (everything after `overrun` is void: a message was dropped) -/
structure EInv (e : E2E) : Prop where
  hand : HandInv e.hand
  issued : e.hand.issued = e.writes.length
  deliv : e.delivered ≤ e.submitted.length
  inactive : e.overrun = false → e.sess.active = false → e.sess.chan = [] ∧ e.stored = none ∧ e.read = []
  active : e.overrun = false → e.sess.active = true → e.sess.pre = [] ∧ e.sess.rxClosed = false
  stream : e.overrun = false → e.read ++ e.inSocket = e.submitted.take e.delivered

theorem einv_init : EInv {} := by
  refine ⟨handInv_init, rfl, ?_, fun _ _ => ⟨rfl, rfl, rfl⟩, ?_, ?_⟩
  · simp [E2E.submitted, Hand.tcbWrites, outsOf]
  · intro _ h; cases h
  · intro _; simp [E2E.inSocket, pending, E2E.submitted, Hand.tcbWrites, outsOf]

theorem hand_step_issued (d : Discipline) (h : Hand) (st : HStep) (hne : st ≠ .write) :
    (h.step d st).issued = h.issued := by
  cases st with
  | write => exact absurd rfl hne
  | runA k =>
    simp only [Hand.step, Hand.sessionEnqueue, Hand.enqueue]
    repeat' split
    all_goals rfl
  | runB k =>
    simp only [Hand.step, Hand.enqueue]
    repeat' split
    all_goals rfl
  | segment j =>
    simp only [Hand.step, Hand.sessionEnqueue, Hand.enqueue]
    repeat' split
    all_goals rfl
  | tcbTask =>
    simp only [Hand.step]
    repeat' split
    all_goals rfl

theorem estep_hand_inv {d : Discipline} (hd : SyncDiscipline d) (cap : Nat) (rem : Bool) (e : E2E) (inv : EInv e)
    (st : HStep) (hne : st ≠ .write) : EInv (e.step d cap rem (.hand st)) := by
  have hstep : e.step d cap rem (.hand st) = { e with hand := e.hand.step d st } := by
    cases st <;> first | rfl | exact absurd rfl hne
  rw [hstep]
  have hh := hand_step_inv hd e.hand inv.hand st
  have hiss := hand_step_issued d e.hand st hne
  obtain ⟨x, hx⟩ := hand_step_tcb d e.hand st
  have hs' : ({ e with hand := e.hand.step d st } : E2E).submitted
      = e.submitted ++ ((outsOf x).map fun w => e.writes.getD w []).flatten := by
    simp [E2E.submitted, Hand.tcbWrites, hx, outsOf_append]
  refine ⟨hh, by rw [hiss]; exact inv.issued, ?_, inv.inactive, inv.active, ?_⟩
  · rw [hs']; simp only [List.length_append]; have := inv.deliv; omega
  · intro ho
    rw [hs', List.take_append_of_le_length inv.deliv]
    exact inv.stream ho

theorem estep_inv {d : Discipline} (hd : SyncDiscipline d) (cap : Nat) (rem : Bool) (e : E2E) (inv : EInv e)
    (s : EStep) : EInv (e.step d cap rem s) := by
  have hsub := submitted_eq_take e inv.hand inv.issued
  cases s with
  | write b =>
    have hh := hand_step_inv hd e.hand inv.hand .write
    have htcb : (e.hand.step d .write).tcb = e.hand.tcb := by
      simp only [Hand.step, hd.1, Bool.false_eq_true, if_false, Hand.sessionEnqueue, hd.2.1]
      rw [enqueue_sync hd { e.hand with issued := e.hand.issued + 1 } inv.hand.waiters]
    have hiss : (e.hand.step d .write).issued = e.hand.issued + 1 := by
      simp only [Hand.step, hd.1, Bool.false_eq_true, if_false, Hand.sessionEnqueue, hd.2.1]
      rw [enqueue_sync hd { e.hand with issued := e.hand.issued + 1 } inv.hand.waiters]
    have hs' : (e.step d cap rem (.write b)).submitted = e.submitted := by
      have h1 := submitted_eq_take (e.step d cap rem (.write b)) hh (by simp [E2E.step, hiss, inv.issued])
      rw [h1, hsub]
      simp only [E2E.step, Hand.tcbWrites, htcb]
      have h2 : (outsOf e.hand.tcb).length ≤ e.writes.length := by
        have := congrArg List.length inv.hand.order
        simp only [List.length_append, List.length_range] at this
        have := inv.issued; omega
      rw [List.take_append_of_le_length h2]
    refine ⟨hh, by simp [E2E.step, hiss, inv.issued], ?_, inv.inactive, inv.active, ?_⟩
    · rw [hs']; exact inv.deliv
    · intro ho; rw [hs']; exact inv.stream ho
  | hand hs =>
    by_cases hw : hs = .write
    · subst hw; exact inv
    · exact estep_hand_inv hd cap rem e inv hs hw
  | chunk k =>
    simp only [E2E.step]
    generalize hcdef : (e.submitted.drop e.delivered).take k = c
    split
    · exact inv
    · have hd' := inv.deliv
      have hc : c.length ≤ e.submitted.length - e.delivered := by
        rw [← hcdef]; simp [List.length_take]; omega
      have htake : e.submitted.take (e.delivered + c.length) = e.submitted.take e.delivered ++ c := by
        rw [← hcdef]; exact take_add_chunk e.submitted e.delivered k hd'
      rcases c02_session_fifo cap e.sess c with h1 | h1 | h1 | h1 <;> rw [h1.1] <;> dsimp only
      · refine ⟨inv.hand, inv.issued, ?_, ?_, ?_, ?_⟩
        · show e.delivered + c.length ≤ e.submitted.length; omega
        · intro _ ha; dsimp only at ha; rw [h1.2.1] at ha; cases ha
        · intro ho _
          have ho' : e.overrun = false := by simpa using ho
          exact inv.active ho' h1.2.1
        · intro ho
          have ho' : e.overrun = false := by simpa using ho
          show e.read ++ E2E.inSocket _ = e.submitted.take (e.delivered + c.length)
          rw [htake, ← inv.stream ho']
          simp [E2E.inSocket, pending, (inv.active ho' h1.2.1).1]
      · refine ⟨inv.hand, inv.issued, ?_, ?_, ?_, ?_⟩
        · show e.delivered + c.length ≤ e.submitted.length; omega
        · intro ho _
          have ho' : e.overrun = false := by simpa using ho
          exact inv.inactive ho' h1.2
        · intro _ ha; dsimp only at ha; rw [h1.2] at ha; cases ha
        · intro ho
          have ho' : e.overrun = false := by simpa using ho
          have hp := inv.inactive ho' h1.2
          show e.read ++ E2E.inSocket _ = e.submitted.take (e.delivered + c.length)
          rw [htake, ← inv.stream ho']
          simp [E2E.inSocket, pending, hp.1, hp.2.1]
      · refine ⟨inv.hand, inv.issued, ?_, ?_, ?_, ?_⟩
        · show e.delivered + c.length ≤ e.submitted.length; omega
        · intro ho; simp at ho
        · intro ho; simp at ho
        · intro ho; simp at ho
      · refine ⟨inv.hand, inv.issued, ?_, ?_, ?_, ?_⟩
        · show e.delivered + c.length ≤ e.submitted.length; omega
        · intro ho; simp at ho
        · intro ho; simp at ho
        · intro ho; simp at ho
  | accept =>
    simp only [E2E.step]
    split
    · exact inv
    · rename_i hna
      have hna' : e.sess.active = false := by simpa using hna
      generalize hr : Session.receiveStored cap { e.sess with active := true, rxClosed := false, chan := [] } = r
      have hrs : r.2 = true → r.1 = { active := true, rxClosed := false, chan := e.sess.pre, pre := [] } := by
        intro h
        rw [← hr] at h ⊢
        simp only [Session.receiveStored, if_true] at h ⊢
        rw [replayLoop_true cap _ _ h]
        simp
      refine ⟨inv.hand, inv.issued, inv.deliv, ?_, ?_, ?_⟩
      · intro ho ha
        dsimp only at ho ha
        have h2 : r.2 = true := by
          cases h : r.2
          · rw [h] at ho; simp at ho
          · rfl
        rw [hrs h2] at ha; cases ha
      · intro ho _
        dsimp only at ho ⊢
        have h2 : r.2 = true := by
          cases h : r.2
          · rw [h] at ho; simp at ho
          · rfl
        rw [hrs h2]; exact ⟨rfl, rfl⟩
      · intro ho
        dsimp only at ho
        have h2 : r.2 = true := by
          cases h : r.2
          · rw [h] at ho; simp at ho
          · rfl
        have ho' : e.overrun = false := by rw [h2] at ho; simpa using ho
        have hi := inv.inactive ho' hna'
        show e.read ++ E2E.inSocket _ = e.submitted.take e.delivered
        rw [← inv.stream ho']
        simp [E2E.inSocket, hrs h2, pending, hi.1, hi.2.1]
  | recv n =>
    simp only [E2E.step]
    split
    · exact inv
    · rename_i ha
      have ha' : e.sess.active = true := by simpa using ha
      have hrs := c02_recv_stream_any rem e.stored e.sess.chan n false
      generalize recvWith rem e.stored e.sess.chan n false = r at hrs
      refine ⟨inv.hand, inv.issued, inv.deliv, ?_, ?_, ?_⟩
      · intro _ hina
        dsimp only at hina
        rw [ha'] at hina; cases hina
      · intro ho _
        exact inv.active ho ha'
      · intro ho
        have hp := (inv.active ho ha').1
        show (e.read ++ r.out) ++ E2E.inSocket _ = e.submitted.take e.delivered
        rw [← inv.stream ho]
        simp only [E2E.inSocket, hp, List.flatten_nil, List.append_nil, List.append_assoc]
        rw [hrs]

theorem erun_inv {d : Discipline} (hd : SyncDiscipline d) (cap : Nat) (rem : Bool) (l : List EStep) :
    ∀ (e : E2E), EInv e → EInv (e.run d cap rem l) := by
  induction l with
  | nil => intro e inv; exact inv
  | cons s l ih => intro e inv; exact ih _ (estep_inv hd cap rem e inv s)

/-- Composition, for every schedule of: application writes, the hand-off steps (in any
interleaving with incoming segments), the TCP pipe releasing the next bytes in chunks of any size
(ASSUMPTION C01: the TCB is a reliable in-order byte pipe), `accept()`, reads of any sizes.
If the receive channel is never overrun, then what has been read so far followed by what still
waits inside the socket is exactly the first `delivered` bytes of the concatenation of the writes
in program order. -/
theorem c02_stream_end_to_end (sched : List EStep)
    (hno : (E2E.run codeDiscipline Gen.socketChannelCapacity Gen.recvComparesWithRemaining {} sched).overrun = false) :
    let e := E2E.run codeDiscipline Gen.socketChannelCapacity Gen.recvComparesWithRemaining {} sched
    e.read ++ e.inSocket = e.writes.flatten.take e.delivered := by
  intro e
  have inv := erun_inv c02_handoff_is_synchronous Gen.socketChannelCapacity Gen.recvComparesWithRemaining sched {} einv_init
  have hst := inv.stream hno
  have hsub := submitted_eq_take e inv.hand inv.issued
  show e.read ++ e.inSocket = _
  rw [hst]
  have hpre : e.submitted <+: e.writes.flatten := by
    rw [hsub]
    refine ⟨(e.writes.drop e.hand.tcbWrites.length).flatten, ?_⟩
    rw [← List.flatten_append, List.take_append_drop]
  obtain ⟨t, ht⟩ := hpre
  rw [← ht, List.take_append_of_le_length inv.deliv]

/-- the stream the reader has seen is a prefix of the concatenation of the writes -/
theorem c02_stream_prefix (sched : List EStep)
    (hno : (E2E.run codeDiscipline Gen.socketChannelCapacity Gen.recvComparesWithRemaining {} sched).overrun = false) :
    (E2E.run codeDiscipline Gen.socketChannelCapacity Gen.recvComparesWithRemaining {} sched).read
      <+: (E2E.run codeDiscipline Gen.socketChannelCapacity Gen.recvComparesWithRemaining {} sched).writes.flatten := by
  have h := c02_stream_end_to_end sched hno
  simp only at h
  exact ⟨_, by rw [← List.append_assoc, h, List.take_append_drop]⟩

example :
    let e := E2E.run codeDiscipline Gen.socketChannelCapacity Gen.recvComparesWithRemaining {}
      [.write [1, 2, 3], .write [4, 5], .hand .tcbTask, .chunk 2, .hand .tcbTask, .accept, .chunk 9, .recv 2, .recv 2, .recv 2]
    e.overrun = false ∧ e.read = [1, 2, 3, 4, 5] := by decide

/-- F-C02-3 beyond the hypothesis (capacity 1 for brevity, the theorem `c02_overrun_drops` is
the statement for the real capacity): the second chunk finds the channel full and vanishes; the
reader sees 1, 3 — a hole in the stream -/
theorem c02_overrun_counterexample :
    let e := E2E.run ⟨false, false, false, none⟩ 1 true {}
      [.write [1], .write [2], .write [3], .hand .tcbTask, .hand .tcbTask, .hand .tcbTask, .accept,
       .chunk 1, .chunk 1, .recv 10, .chunk 1, .recv 10]
    e.overrun = true ∧ e.read = [1, 3] := by decide

end Elvis.Sock
