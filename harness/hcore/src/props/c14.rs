//! C14: correspondence + oracle runs (sub-commands `c14-*`).
//!
//! This file is shared by two builders; each keeps its sub-commands in its own module:
//!   * `codec_b`  — ARP / DNS / DHCP codecs: `c14-arp`, `c14-dns`, `c14-dhcp` (malformed stream,
//!                  C14 "no byte string makes a decoder panic" + the demux functions that decode
//!                  untrusted datagrams) and `c14-rt-arp`, `c14-rt-dns`, `c14-rt-dhcp`
//!                  (round-trip stream, the C08 clauses of these three codecs).
//!   * (IPv4 / UDP / TCP: `c14-ipv4`, `c14-udp`, `c14-tcp` — other builder)
use hcommon::*;

// ---- decoder totality for IPv4 / UDP / TCP (builder codec-a) --------------------------------
// malformed stream: random bytes, every truncation of valid packets, single-field mutations,
// extreme length fields; generators/executor/oracle shared with C08 (`c08.rs`, `c08_exec.rs`).

fn run_c14_ipv4(args: &Args) {
    super::c08::run_proto(args, "ipv4", super::c08::Mode::C14)
}

fn run_c14_udp(args: &Args) {
    super::c08::run_proto(args, "udp", super::c08::Mode::C14)
}

fn run_c14_tcp(args: &Args) {
    super::c08::run_proto(args, "tcp", super::c08::Mode::C14)
}

// ---- end of the IPv4 / UDP / TCP part --------------------------------------------------------

pub fn run(args: &Args) {
    match args.prop.as_str() {
        "c14-ipv4" => run_c14_ipv4(args),
        "c14-udp" => run_c14_udp(args),
        "c14-tcp" => run_c14_tcp(args),
        p if codec_b::SUBS.contains(&p) => codec_b::run(args),
        _ => {
            eprintln!("hcore: {} not implemented yet", args.prop);
            std::process::exit(2);
        }
    }
}

/// ARP / DNS / DHCP codecs.
#[path = "c14b.rs"]
pub mod codec_b;
