import ElvisVerif.Lemmas.ModCmp
/-!
# Sequence-number arithmetic in offset form

`off base x` = how far `x` is ahead of `base` on the circle.  All facts are staged as the
project's proof discipline demands: a tiny `bv_omega` cancellation, `generalize`, then `omega`
over naturals with at most a few `% 2^32` terms.
-/
namespace Elvis.Tcp
open Elvis.ModCmp

/-- distance of `x` ahead of `base` on the sequence circle -/
def off (base x : BitVec 32) : Nat := (x - base).toNat

theorem off_lt (base x : BitVec 32) : off base x < 4294967296 := (x - base).isLt

theorem off_self (base : BitVec 32) : off base base = 0 := by
  unfold off
  have : base - base = 0 := by bv_omega
  rw [this]; rfl

/-- adding `k` moves the offset by `k` when nothing wraps -/
theorem off_add (base x : BitVec 32) (k : Nat) (h : off base x + k < 4294967296) :
    off base (x + BitVec.ofNat 32 k) = off base x + k := by
  unfold off at *
  have e : x + BitVec.ofNat 32 k - base = (x - base) + BitVec.ofNat 32 k := by bv_omega
  rw [e]
  generalize x - base = d at h ⊢
  simp only [BitVec.toNat_add, BitVec.toNat_ofNat]
  omega

theorem off_add_one (base x : BitVec 32) (h : off base x + 1 < 4294967296) :
    off base (x + 1) = off base x + 1 := by
  have := off_add base x 1 h
  simpa using this

/-- two points less than 2^31 ahead of `base`: the circular "greater" is the linear one -/
theorem modGt_iff_off (base a b : BitVec 32) (ha : off base a < 2147483648) (hb : off base b < 2147483648) :
    modGt a b = true ↔ off base b < off base a := by
  unfold modGt
  rw [modLt_iff]
  unfold off at *
  have e : a - b = (a - base) - (b - base) := by bv_omega
  rw [e]
  generalize a - base = x at ha ⊢
  generalize b - base = y at hb ⊢
  simp only [BitVec.toNat_sub]
  omega

theorem modLt_iff_off (base a b : BitVec 32) (ha : off base a < 2147483648) (hb : off base b < 2147483648) :
    modLt a b = true ↔ off base a < off base b := modGt_iff_off base b a hb ha

/-- the distance between two points with `a` not behind `b` (offsets from `base`) -/
theorem sub_toNat_off (base a b : BitVec 32) (h : off base b ≤ off base a) :
    (a - b).toNat = off base a - off base b := by
  unfold off at *
  have e : a - b = (a - base) - (b - base) := by bv_omega
  rw [e]
  generalize a - base = x at h ⊢
  generalize b - base = y at h ⊢
  simp only [BitVec.toNat_sub]
  have := x.isLt; have := y.isLt
  omega

/-- `SND.UNA < SEG.ACK =< SND.NXT` in offsets -/
theorem bounded_lt_leq_off (base una ack nxt : BitVec 32) (hu : off base una < 2147483648)
    (hn : off base nxt < 2147483648) (hun : off base una ≤ off base nxt)
    (h : modBounded una .Lt ack .Leq nxt = true) :
    off base una < off base ack ∧ off base ack ≤ off base nxt := by
  unfold modBounded at h
  rw [cyc_iff] at h
  simp only [Cmp.offset] at h
  have e0 : una - 0 = una := by bv_omega
  have e2 : nxt + 1 - una = (nxt - una) + 1 := by bv_omega
  rw [e0, e2] at h
  have hd := sub_toNat_off base nxt una hun
  -- the ACK's distance from SND.UNA
  generalize hk : (ack - una).toNat = k at h
  have hk32 : k < 4294967296 := by rw [← hk]; exact (ack - una).isLt
  have h1 : ((nxt - una) + 1).toNat = (nxt - una).toNat + 1 := by
    have h1' : (1 : BitVec 32).toNat = 1 := rfl
    simp only [BitVec.toNat_add, h1']
    omega
  rw [h1, hd] at h
  have hack : ack = una + BitVec.ofNat 32 k := by
    rw [← hk]
    simp only [BitVec.ofNat_toNat, BitVec.setWidth_eq]
    bv_omega
  have ho : off base ack = off base una + k := by
    rw [hack]; exact off_add base una k (by omega)
  omega

/-- the acceptance arithmetic of the text block, in offsets.  `r` = RCV.NXT, `p` = SEG.SEQ,
    `syn` ∈ {0,1}, `tl` = text length; `a` = `RCV.NXT − SEG.SEQ − syn` as the code computes it
    (wrapping), clamped to `tl`; whatever is accepted, the new RCV.NXT does not pass the end of
    the segment (or stays where it was) -/
theorem accept_off (base nxt seq : BitVec 32) (syn tl acc N : Nat) (hsyn : syn ≤ 1)
    (hN : N < 2147483648) (hr : off base nxt ≤ N) (hp : off base seq + syn + tl ≤ N)
    (hgate : off base seq ≤ off base nxt)
    (hacc : acc ≤ tl - min (nxt - seq - BitVec.ofNat 32 syn).toNat tl) :
    off base nxt ≤ off base (nxt + BitVec.ofNat 32 acc) ∧ off base (nxt + BitVec.ofNat 32 acc) ≤ N := by
  have hacc_tl : acc ≤ tl := by omega
  have hoff : off base (nxt + BitVec.ofNat 32 acc) = off base nxt + acc :=
    off_add base nxt acc (by omega)
  rw [hoff]
  refine ⟨Nat.le_add_right _ _, ?_⟩
  -- the wrapped difference
  unfold off at *
  have e : nxt - seq - BitVec.ofNat 32 syn = (nxt - base) - (seq - base) - BitVec.ofNat 32 syn := by bv_omega
  rw [e] at hacc
  generalize nxt - base = r at hr hgate hacc ⊢
  generalize seq - base = p at hp hgate hacc
  have hs : (BitVec.ofNat 32 syn).toNat = syn := by simp only [BitVec.toNat_ofNat]; omega
  simp only [BitVec.toNat_sub, hs] at hacc
  have := r.isLt; have := p.isLt
  omega

end Elvis.Tcp
