import ElvisVerif.Lemmas.TcbInv
/-!
# The send window: the retransmission queue covers `[SND.UNA, SND.NXT)`

`segments()` limits new data by `SND.WND − queued_bytes`.  That keeps new data left of
`SND.UNA + SND.WND` because the retransmission queue *covers* everything between `SND.UNA` and
`SND.NXT` (`SndCover`).  `Chain` is the structural fact behind it: the text-bearing entries of
the queue are contiguous and end at `SND.NXT` (entry `t` followed by `x` queued bytes ends at
`SND.NXT − x`), so a cumulative ACK removes a prefix and what stays still covers
`[SEG.ACK, SND.NXT)`.
-/
namespace Elvis.Tcp
open Elvis.ModCmp
namespace Tcb

/-- bytes of text on a retransmission queue (`Outgoing::queued_bytes`) -/
def rtxBytes (l : List Transmit) : Nat := (l.map fun t => t.segment.text.length).sum

theorem queuedBytes_eq (o : Outgoing) : o.queuedBytes = rtxBytes o.retransmit := rfl

@[simp] theorem rtxBytes_nil : rtxBytes [] = 0 := rfl
@[simp] theorem rtxBytes_cons (t : Transmit) (l : List Transmit) :
    rtxBytes (t :: l) = t.segment.text.length + rtxBytes l := by simp [rtxBytes]
@[simp] theorem rtxBytes_append (a b : List Transmit) : rtxBytes (a ++ b) = rtxBytes a + rtxBytes b := by
  simp [rtxBytes]
theorem rtxBytes_map_flag (l : List Transmit) (b : Bool) :
    rtxBytes (l.map fun t => { t with needsTransmit := b }) = rtxBytes l := by
  induction l with
  | nil => rfl
  | cons t l ih => simp [ih]

/-- every text-bearing entry carries neither SYN nor FIN and, followed by `x` queued bytes, ends
    at `nxt − x` -/
def Chain (nxt : Seq) : List Transmit → Prop
  | [] => True
  | t :: rest =>
    (t.segment.text = [] ∨
      (t.segment.hdr.ctl.syn = false ∧ t.segment.hdr.ctl.fin = false ∧
        t.segment.hdr.seq + BitVec.ofNat 32 t.segment.text.length + BitVec.ofNat 32 (rtxBytes rest) = nxt)) ∧
    Chain nxt rest

theorem chain_map_flag (nxt : Seq) (l : List Transmit) (b : Bool) (h : Chain nxt l) :
    Chain nxt (l.map fun t => { t with needsTransmit := b }) := by
  induction l with
  | nil => trivial
  | cons t l ih =>
    simp only [List.map_cons, Chain]
    refine ⟨?_, ih h.2⟩
    rw [rtxBytes_map_flag]
    exact h.1

/-- a text-free entry (SYN, FIN) may be appended -/
theorem chain_append_free (nxt : Seq) (l : List Transmit) (t : Transmit) (ht : t.segment.text = [])
    (h : Chain nxt l) : Chain nxt (l ++ [t]) := by
  induction l with
  | nil => exact ⟨Or.inl ht, trivial⟩
  | cons a l ih =>
    simp only [List.cons_append, Chain]
    refine ⟨?_, ih h.2⟩
    rcases h.1 with h1 | h1
    · exact Or.inl h1
    · right
      refine ⟨h1.1, h1.2.1, ?_⟩
      rw [rtxBytes_append, rtxBytes_cons, rtxBytes_nil, ht]
      exact h1.2.2

/-- a data segment starting at `nxt` may be appended; the chain then ends at `nxt + len` -/
theorem chain_append_data (nxt : Seq) (l : List Transmit) (t : Transmit)
    (hs : t.segment.hdr.ctl.syn = false) (hf : t.segment.hdr.ctl.fin = false)
    (hseq : t.segment.hdr.seq = nxt) (h : Chain nxt l) :
    Chain (nxt + BitVec.ofNat 32 t.segment.text.length) (l ++ [t]) := by
  induction l with
  | nil =>
    refine ⟨Or.inr ⟨hs, hf, ?_⟩, trivial⟩
    rw [hseq, rtxBytes_nil]; simp
  | cons a l ih =>
    simp only [List.cons_append, Chain]
    refine ⟨?_, ih h.2⟩
    rcases h.1 with h1 | h1
    · exact Or.inl h1
    · right
      refine ⟨h1.1, h1.2.1, ?_⟩
      rw [rtxBytes_append, rtxBytes_cons, rtxBytes_nil, Nat.add_zero, BitVec.ofNat_add, ← h1.2.2]
      generalize a.segment.hdr.seq + BitVec.ofNat 32 a.segment.text.length = e
      generalize BitVec.ofNat 32 (rtxBytes l) = x
      generalize BitVec.ofNat 32 t.segment.text.length = y
      bv_omega

/-- the retention test of `remove_acked_from_retransmission` -/
def keepFor (una : Seq) (t : Transmit) : Bool :=
  modLt una (t.segment.hdr.seq + BitVec.ofNat 32 t.segment.segLen)

theorem removeAcked_eq (s : Tcb) (una : Seq) :
    s.removeAckedFromRetransmission una =
      { s with outgoing.retransmit := s.outgoing.retransmit.filter (keepFor una) } := rfl

/-- an entry that ends `x` bytes before `nxt` is kept iff `x < nxt − una` (all distances small) -/
theorem keep_iff (nxt una : Seq) (t : Transmit) (x : Nat) (hx : x ≤ 65535)
    (hm : (nxt - una).toNat ≤ 65536)
    (hs : t.segment.hdr.ctl.syn = false) (hf : t.segment.hdr.ctl.fin = false)
    (he : t.segment.hdr.seq + BitVec.ofNat 32 t.segment.text.length + BitVec.ofNat 32 x = nxt) :
    keepFor una t = decide (x < (nxt - una).toNat) := by
  unfold keepFor Segment.segLen
  rw [hs, hf]
  simp only [Bool.toNat_false, Nat.add_zero]
  have e : t.segment.hdr.seq + BitVec.ofNat 32 t.segment.text.length = nxt - BitVec.ofNat 32 x := by
    rw [← he]; bv_omega
  rw [e]
  rw [Bool.eq_iff_iff, modLt_iff, decide_eq_true_eq]
  have e2 : nxt - BitVec.ofNat 32 x - una = (nxt - una) - BitVec.ofNat 32 x := by bv_omega
  rw [e2]
  generalize (nxt - una) = d at hm ⊢
  have hxn : (BitVec.ofNat 32 x).toNat = x := by simp only [BitVec.toNat_ofNat]; omega
  simp only [BitVec.toNat_sub, hxn]
  have := d.isLt
  omega

/-- when the queue holds at most `nxt − una` bytes, an ACK of `una` removes no text -/
theorem filter_keepAll (nxt una : Seq) (l : List Transmit) (hc : Chain nxt l)
    (hb : rtxBytes l ≤ (nxt - una).toNat) (hm : (nxt - una).toNat ≤ 65536) (hb2 : rtxBytes l ≤ 65535) :
    rtxBytes (l.filter (keepFor una)) = rtxBytes l ∧ Chain nxt (l.filter (keepFor una)) := by
  induction l with
  | nil => exact ⟨rfl, trivial⟩
  | cons t rest ih =>
    rw [rtxBytes_cons] at hb hb2
    obtain ⟨ihb, ihc⟩ := ih hc.2 (by omega) (by omega)
    rcases hc.1 with h0 | ⟨hs, hf, he⟩
    · -- text-free entry: kept or not, no bytes
      rw [List.filter_cons]
      split
      · refine ⟨by rw [rtxBytes_cons, rtxBytes_cons, ihb], Or.inl h0, ihc⟩
      · refine ⟨by rw [rtxBytes_cons, ihb, h0]; simp, ihc⟩
    · by_cases h0 : t.segment.text = []
      · rw [List.filter_cons]
        split
        · refine ⟨by rw [rtxBytes_cons, rtxBytes_cons, ihb], Or.inl h0, ihc⟩
        · refine ⟨by rw [rtxBytes_cons, ihb, h0]; simp, ihc⟩
      · have hpos : 0 < t.segment.text.length := List.length_pos_iff.2 h0
        have hk := keep_iff nxt una t (rtxBytes rest) (by omega) hm hs hf he
        have : keepFor una t = true := by rw [hk, decide_eq_true_eq]; omega
        rw [List.filter_cons, if_pos this]
        refine ⟨by rw [rtxBytes_cons, rtxBytes_cons, ihb], Or.inr ⟨hs, hf, by rw [ihb]; exact he⟩, ihc⟩

/-- after a cumulative ACK of `una` the queue still covers `[una, nxt)`:
    it holds at least `min (nxt − una) (bytes before)` bytes, and is still a chain -/
theorem filter_cover (nxt una : Seq) (l : List Transmit) (hc : Chain nxt l)
    (hb : rtxBytes l ≤ 65535) (hm : (nxt - una).toNat ≤ 65536) :
    min (nxt - una).toNat (rtxBytes l) ≤ rtxBytes (l.filter (keepFor una)) ∧
      Chain nxt (l.filter (keepFor una)) ∧ rtxBytes (l.filter (keepFor una)) ≤ rtxBytes l := by
  induction l with
  | nil => exact ⟨by simp, trivial, Nat.le_refl _⟩
  | cons t rest ih =>
    rw [rtxBytes_cons] at hb
    obtain ⟨ih1, ih2, ih3⟩ := ih hc.2 (by omega)
    have free : t.segment.text = [] →
        min (nxt - una).toNat (rtxBytes (t :: rest)) ≤ rtxBytes ((t :: rest).filter (keepFor una)) ∧
        Chain nxt ((t :: rest).filter (keepFor una)) ∧
        rtxBytes ((t :: rest).filter (keepFor una)) ≤ rtxBytes (t :: rest) := by
      intro h0
      have hl : t.segment.text.length = 0 := by rw [h0]; rfl
      rw [List.filter_cons]
      split
      · refine ⟨by rw [rtxBytes_cons, rtxBytes_cons, hl]; simpa using ih1, ⟨Or.inl h0, ih2⟩,
          by rw [rtxBytes_cons, rtxBytes_cons]; omega⟩
      · refine ⟨by rw [rtxBytes_cons, hl]; simpa using ih1, ih2, by rw [rtxBytes_cons]; omega⟩
    rcases hc.1 with h0 | ⟨hs, hf, he⟩
    · exact free h0
    · by_cases h0 : t.segment.text = []
      · exact free h0
      · have hk := keep_iff nxt una t (rtxBytes rest) (by omega) hm hs hf he
        rw [List.filter_cons]
        by_cases hx : rtxBytes rest < (nxt - una).toNat
        · -- kept; everything after it is kept as well
          have : keepFor una t = true := by rw [hk, decide_eq_true_eq]; exact hx
          rw [if_pos this]
          obtain ⟨kb, kc⟩ := filter_keepAll nxt una rest hc.2 (by omega) hm (by omega)
          refine ⟨by rw [rtxBytes_cons, rtxBytes_cons, kb]; exact Nat.min_le_right _ _,
            ⟨Or.inr ⟨hs, hf, by rw [kb]; exact he⟩, kc⟩, by rw [rtxBytes_cons, rtxBytes_cons, kb]; omega⟩
        · -- removed: the rest alone covers `[una, nxt)`
          have : ¬ keepFor una t = true := by rw [hk, decide_eq_true_eq]; exact hx
          rw [if_neg this]
          refine ⟨?_, ih2, by rw [rtxBytes_cons]; omega⟩
          have : min (nxt - una).toNat (rtxBytes rest) = (nxt - una).toNat := Nat.min_eq_left (by omega)
          rw [this] at ih1
          exact Nat.le_trans (Nat.min_le_left _ _) ih1

/-! ## the send-side invariant -/

/-- `segments()` may still turn queued text into data segments: the four open states, and the
    closing states while the FIN waits for text that is still queued (`fin_pending`) -/
def segmentizing (s : Tcb) : Bool :=
  match s.state with
  | .SynSent | .SynReceived | .Established | .CloseWait => true
  | .FinWait1 | .Closing | .LastAck => !s.outgoing.text.isEmpty
  | _ => false

theorem segmentizing_congr {s s' : Tcb} (h1 : s'.state = s.state) (h2 : s'.outgoing.text = s.outgoing.text) :
    segmentizing s' = segmentizing s := by
  unfold segmentizing; rw [h1, h2]

/-- 1 while our SYN is unacknowledged -/
def synPending (s : Tcb) : Nat := if s.snd.una = s.snd.iss then 1 else 0

/-- the retransmission queue is a chain ending at `SND.NXT`, holds at most 65535 bytes and
    covers `[SND.UNA, SND.NXT)` (up to the unacknowledged SYN) -/
structure SndInv (s : Tcb) : Prop where
  chain : Chain s.snd.nxt s.outgoing.retransmit
  bytes : rtxBytes s.outgoing.retransmit ≤ 65535
  cover : (s.snd.nxt - s.snd.una).toNat ≤ rtxBytes s.outgoing.retransmit + synPending s

/-- `SndInv` is about `SND.UNA`, `SND.NXT`, `ISS` and the retransmission queue only -/
theorem SndInv.congr {s s' : Tcb} (h : SndInv s) (h1 : s'.snd.una = s.snd.una) (h2 : s'.snd.nxt = s.snd.nxt)
    (h3 : s'.snd.iss = s.snd.iss) (h4 : s'.outgoing.retransmit = s.outgoing.retransmit) : SndInv s' := by
  refine ⟨by rw [h2, h4]; exact h.chain, by rw [h4]; exact h.bytes, ?_⟩
  unfold synPending
  rw [h1, h2, h3, h4]
  exact h.cover

/-- `enqueue` keeps the invariant: a SYN/FIN header is a text-free entry, anything else goes to
    the one-shot queue -/
theorem sndInv_enqueueBuilt (s : Tcb) (hd : Hdr) (h : SndInv s) : SndInv (s.enqueueBuilt hd) := by
  unfold enqueueBuilt
  split
  · refine ⟨chain_append_free _ _ _ rfl h.chain, ?_, ?_⟩
    · simp only [rtxBytes_append, rtxBytes_cons, rtxBytes_nil, Transmit.new]
      exact h.bytes
    · unfold synPending
      simp only [rtxBytes_append, rtxBytes_cons, rtxBytes_nil, Transmit.new]
      exact h.cover
  · exact h.congr rfl rfl rfl rfl

/-- a valid cumulative ACK (`SND.UNA < SEG.ACK =< SND.NXT`) keeps the invariant -/
theorem sndInv_ack (s : Tcb) (ack : Seq) (h : SndInv s)
    (hb : modBounded s.snd.una .Lt ack .Leq s.snd.nxt = true) :
    SndInv (({ s with snd.una := ack } : Tcb).removeAckedFromRetransmission ack) := by
  rw [removeAcked_eq]
  unfold modBounded at hb
  rw [cyc_iff] at hb
  simp only [Cmp.offset] at hb
  have e0 : s.snd.una - 0 = s.snd.una := by bv_omega
  rw [e0] at hb
  -- offsets from SND.UNA
  have hc := h.cover
  have hbytes := h.bytes
  have hsp : synPending s ≤ 1 := by unfold synPending; split <;> omega
  have e1 : s.snd.nxt + 1 - s.snd.una = (s.snd.nxt - s.snd.una) + 1 := by bv_omega
  have e2 : s.snd.nxt - ack = (s.snd.nxt - s.snd.una) - (ack - s.snd.una) := by bv_omega
  rw [e1] at hb
  have hm : (s.snd.nxt - ack).toNat + (ack - s.snd.una).toNat = (s.snd.nxt - s.snd.una).toNat := by
    rw [e2]
    generalize (s.snd.nxt - s.snd.una) = n at hb hc ⊢
    generalize (ack - s.snd.una) = a at hb ⊢
    have h1 : (1 : BitVec 32).toNat = 1 := rfl
    simp only [BitVec.toNat_add, BitVec.toNat_sub, h1] at hb ⊢
    have := n.isLt; have := a.isLt
    omega
  obtain ⟨f1, f2, f3⟩ := filter_cover s.snd.nxt ack s.outgoing.retransmit h.chain h.bytes (by omega)
  refine ⟨f2, by simp only; omega, ?_⟩
  simp only
  have : min (s.snd.nxt - ack).toNat (rtxBytes s.outgoing.retransmit) = (s.snd.nxt - ack).toNat :=
    Nat.min_eq_left (by omega)
  rw [this] at f1
  omega

/-! ## `segments()` creates data only inside the peer's window -/

/-- the segment's text lies in `[SND.UNA, SND.UNA + SND.WND)` (one further while our SYN is
    unacknowledged: the SYN occupies `SND.UNA` itself) -/
def InSendWindow (s : Tcb) (seg : Segment) : Prop :=
  (seg.hdr.seq - s.snd.una).toNat + seg.text.length ≤ s.snd.wnd.toNat + synPending s

theorem inSendWindow_congr {s s' : Tcb} (seg : Segment) (h1 : s'.snd.una = s.snd.una)
    (h2 : s'.snd.wnd = s.snd.wnd) (h3 : s'.snd.iss = s.snd.iss) :
    InSendWindow s' seg ↔ InSendWindow s seg := by
  unfold InSendWindow synPending; rw [h1, h2, h3]

theorem build_some {h hd : Hdr} {n : Nat} (hb : h.build n = some hd) : hd = h.built := by
  unfold Hdr.build at hb
  split at hb
  · simp at hb
  · simp only [Option.some.injEq] at hb
    exact hb.symm

/-- the segmentization loop appends only segments inside the send window and keeps `SndInv` -/
theorem segmentize_window (maxSeg : Nat) (fuel : Nat) (s : Tcb) (q : Nat)
    (hq : q = rtxBytes s.outgoing.retransmit) (h : SndInv s) (s' : Tcb)
    (e : segmentize maxSeg fuel s q = .ok s') :
    ∃ new, s'.outgoing.retransmit = s.outgoing.retransmit ++ new ∧
      (∀ t ∈ new, InSendWindow s t.segment) ∧ SndInv s' ∧
      s'.snd.una = s.snd.una ∧ s'.snd.wnd = s.snd.wnd ∧ s'.snd.iss = s.snd.iss ∧ s'.state = s.state := by
  induction fuel generalizing s q with
  | zero =>
    unfold segmentize at e
    cases e
    exact ⟨[], by simp, fun _ h => by simp at h, h, rfl, rfl, rfl, rfl⟩
  | succ n ih =>
    unfold segmentize at e
    dsimp only at e
    split at e
    · cases e
      exact ⟨[], by simp, fun _ h => by simp at h, h, rfl, rfl, rfl, rfl⟩
    · rename_i hne
      generalize hbytes : min (min maxSeg (s.snd.wnd.toNat - q)) s.outgoing.text.length = bytes at e hne
      cases hb : s.ackHdr.build (List.take bytes s.outgoing.text).length with
      | none => rw [hb] at e; simp at e
      | some header =>
        rw [hb] at e
        dsimp only at e
        have hhd := build_some hb
        subst hhd
        have hlen : (List.take bytes s.outgoing.text).length = bytes := by
          rw [List.length_take]; omega
        have hwnd := s.snd.wnd.isLt
        have hbq : bytes ≤ s.snd.wnd.toNat - q := by omega
        have hsp : synPending s ≤ 1 := by unfold synPending; split <;> omega
        -- the state after one round
        have key := fun a b => ih _ (q + bytes) a b e
        have hq1 : q + bytes = rtxBytes (s.outgoing.retransmit ++
            [Transmit.new ⟨s.ackHdr.built, List.take bytes s.outgoing.text⟩]) := by
          simp only [rtxBytes_append, rtxBytes_cons, rtxBytes_nil, Transmit.new, hlen]; omega
        obtain ⟨new1, r1, w1, inv1, u1, wn1, i1, st1⟩ := key hq1 (by
            refine ⟨?_, ?_, ?_⟩
            · have := chain_append_data s.snd.nxt s.outgoing.retransmit
                (Transmit.new ⟨s.ackHdr.built, List.take bytes s.outgoing.text⟩) rfl rfl rfl h.chain
              simpa [Transmit.new] using this
            · simp only [rtxBytes_append, rtxBytes_cons, rtxBytes_nil, Transmit.new, hlen]
              omega
            · unfold synPending
              simp only [rtxBytes_append, rtxBytes_cons, rtxBytes_nil, Transmit.new, hlen]
              have hc := h.cover
              unfold synPending at hc
              have e1 : s.snd.nxt + BitVec.ofNat 32 bytes - s.snd.una
                  = (s.snd.nxt - s.snd.una) + BitVec.ofNat 32 bytes := by bv_omega
              rw [e1]
              generalize (s.snd.nxt - s.snd.una) = d at hc ⊢
              have : (BitVec.ofNat 32 bytes).toNat = bytes := by simp only [BitVec.toNat_ofNat]; omega
              simp only [BitVec.toNat_add, this]
              have := d.isLt
              omega)
        refine ⟨Transmit.new ⟨s.ackHdr.built, List.take bytes s.outgoing.text⟩ :: new1, ?_, ?_, inv1,
          by rw [u1], by rw [wn1], by rw [i1], by rw [st1]⟩
        · rw [r1]; simp
        · intro t ht
          rcases List.mem_cons.1 ht with rfl | ht
          · unfold InSendWindow
            have hc := h.cover
            simp only [Transmit.new, hlen]
            have : s.ackHdr.built.seq = s.snd.nxt := rfl
            rw [this]
            omega
          · exact (inSendWindow_congr t.segment rfl rfl rfl).1 (w1 t ht)

/-! ## the invariant is kept by every operation except `abort` -/

/-- `SndInv` holds whenever the connection is in a state in which `segments()` segmentizes -/
def SndOk (s : Tcb) : Prop := segmentizing s = true → SndInv s

/-- one step keeps the invariant: a segmentizing state is only entered from a segmentizing
    state, and `SndInv` carries over -/
def SndPres (s s' : Tcb) : Prop :=
  segmentizing s' = true → segmentizing s = true ∧ (SndInv s → SndInv s')

theorem SndPres.refl (s : Tcb) : SndPres s s := fun h => ⟨h, id⟩

theorem SndPres.trans {a b c : Tcb} (h1 : SndPres a b) (h2 : SndPres b c) : SndPres a c := fun h =>
  ⟨(h1 (h2 h).1).1, fun ha => (h2 h).2 ((h1 (h2 h).1).2 ha)⟩

theorem SndOk.step {s s' : Tcb} (h : SndOk s) (p : SndPres s s') : SndOk s' := fun hs =>
  (p hs).2 (h (p hs).1)

/-- the fields `SndInv` reads are unchanged and no segmentizing state is newly entered -/
theorem sndPres_congr {s s' : Tcb} (hst : segmentizing s' = true → segmentizing s = true)
    (h1 : s'.snd.una = s.snd.una) (h2 : s'.snd.nxt = s.snd.nxt) (h3 : s'.snd.iss = s.snd.iss)
    (h4 : s'.outgoing.retransmit = s.outgoing.retransmit) : SndPres s s' :=
  fun h => ⟨hst h, fun hi => hi.congr h1 h2 h3 h4⟩

theorem segmentizing_enqueueBuilt (s : Tcb) (hd : Hdr) : segmentizing (s.enqueueBuilt hd) = segmentizing s :=
  segmentizing_congr (state_enqueueBuilt s hd) (enqueueBuilt_frame s hd).2.2.2.2.2.2.1

theorem sndPres_enqueueBuilt (s : Tcb) (hd : Hdr) : SndPres s (s.enqueueBuilt hd) := fun h =>
  ⟨by rw [segmentizing_enqueueBuilt] at h; exact h, sndInv_enqueueBuilt s hd⟩

/-- from an existence statement about a block's result to a statement about *the* result -/
theorem of_exists {α : Type} {x : Except String (Tcb × α)} {P : Tcb → Prop}
    (h : ∃ s r, x = .ok (s, r) ∧ P s) {s' : Tcb} {r' : α} (e : x = .ok (s', r')) : P s' := by
  obtain ⟨s, r, e1, p⟩ := h
  rw [e1] at e
  cases e
  exact p

theorem seg_of_synSent {s : Tcb} (h : s.state = .SynSent) : segmentizing s = true := by
  unfold segmentizing; rw [h]
theorem seg_of_synReceived {s : Tcb} (h : s.state = .SynReceived) : segmentizing s = true := by
  unfold segmentizing; rw [h]
theorem seg_of_established {s : Tcb} (h : s.state = .Established) : segmentizing s = true := by
  unfold segmentizing; rw [h]
theorem seg_of_closeWait {s : Tcb} (h : s.state = .CloseWait) : segmentizing s = true := by
  unfold segmentizing; rw [h]

theorem ackEstablished_pres (s : Tcb) (seg : Hdr) :
    ∃ s' r, s.ackEstablishedProcessing seg = .ok (s', r) ∧ (SndInv s → SndInv s') ∧ s'.state = s.state ∧
      s'.outgoing.text = s.outgoing.text := by
  unfold ackEstablishedProcessing
  split
  · exact ⟨_, _, rfl, id, rfl, rfl⟩
  · split
    · rw [enqueue_eq]
      exact ⟨_, _, rfl, sndInv_enqueueBuilt _ _, state_enqueueBuilt _ _, (enqueueBuilt_frame _ _).2.2.2.2.2.2.1⟩
    · rename_i hb
      have hb' : modBounded s.snd.una .Lt seg.ack .Leq s.snd.nxt = true := by simpa using hb
      dsimp only
      split
      · exact ⟨_, _, rfl, fun hi => (sndInv_ack s seg.ack hi hb').congr rfl rfl rfl rfl, rfl, rfl⟩
      · exact ⟨_, _, rfl, fun hi => sndInv_ack s seg.ack hi hb', rfl, rfl⟩

theorem seqCheck_pres (s : Tcb) (seg : Hdr) (tl : Seq) (h : tl.toNat ≤ MAX_PAYLOAD) :
    ∃ s' r, seqCheck s seg tl = .ok (s', r) ∧ SndPres s s' := by
  unfold seqCheck
  obtain ⟨b, hb⟩ := isSeqOk_ok s tl seg.seq seg.ctl.syn seg.ctl.fin h
  split
  · exact ⟨_, _, rfl, SndPres.refl _⟩
  · rw [hb]
    cases b with
    | true => exact ⟨_, _, rfl, SndPres.refl _⟩
    | false =>
      simp only [enqueueThen_eq]
      exact ⟨_, _, rfl, sndPres_enqueueBuilt _ _⟩

/-- reasoning principle for `afterAckEstablished`, send side -/
theorem afterAck_pres (t : Tcb) (seg : Hdr) (k : Tcb → ProcessSegmentResult → B) (P : B → Prop)
    (h : ∀ s1 r1, (SndInv t → SndInv s1) → s1.state = t.state → s1.outgoing.text = t.outgoing.text →
      P (k s1 r1)) :
    P (afterAckEstablished (t.ackEstablishedProcessing seg) k) := by
  obtain ⟨s1, r1, h1, hs1, hst1, htx1⟩ := ackEstablished_pres t seg
  unfold afterAckEstablished
  rw [h1]
  exact h s1 r1 hs1 hst1 htx1

theorem ackBlock_pres (s : Tcb) (seg : Hdr) : ∃ s' r, ackBlock s seg = .ok (s', r) ∧ SndPres s s' := by
  unfold ackBlock
  split
  · exact ⟨_, _, rfl, SndPres.refl _⟩
  · split
    · -- SYN-SENT
      rename_i hst
      split
      · split
        · exact ⟨_, _, rfl, SndPres.refl _⟩
        · simp only [enqueueThen_eq]
          exact ⟨_, _, rfl, sndPres_enqueueBuilt _ _⟩
      · split
        · rename_i hb
          split
          · exact ⟨_, _, rfl, fun h => ⟨seg_of_synSent hst, fun hi => sndInv_ack s seg.ack hi hb⟩⟩
          · exact ⟨_, _, rfl, SndPres.refl _⟩
        · simp only [enqueueThen_eq]
          exact ⟨_, _, rfl, sndPres_enqueueBuilt _ _⟩
    · -- SYN-RECEIVED
      rename_i hst
      split
      · dsimp only
        refine afterAck_pres _ seg _ (fun x => ∃ s' r, x = .ok (s', r) ∧ SndPres s s') ?_
        intro s1 r1 hs1 hst1 htx1
        have hp : SndPres s s1 := fun _ => ⟨seg_of_synReceived hst, fun hi => hs1 (hi.congr rfl rfl rfl rfl)⟩
        split <;> exact ⟨_, _, rfl, hp⟩
      · simp only [enqueueThen_eq]
        exact ⟨_, _, rfl, sndPres_enqueueBuilt _ _⟩
    iterate 3
      · -- ESTABLISHED | FIN-WAIT-2 | CLOSE-WAIT
        refine afterAck_pres _ seg _ (fun x => ∃ s' r, x = .ok (s', r) ∧ SndPres s s') ?_
        intro s1 r1 hs1 hst1 htx1
        have hp : SndPres s s1 := fun h => ⟨by rw [segmentizing_congr hst1 htx1] at h; exact h, hs1⟩
        split <;> exact ⟨_, _, rfl, hp⟩
    iterate 2
      · -- FIN-WAIT-1 | CLOSING: the state moves on only when our FIN is acknowledged; FIN-WAIT-2 and
        -- TIME-WAIT never segmentize
        refine afterAck_pres _ seg _ (fun x => ∃ s' r, x = .ok (s', r) ∧ SndPres s s') ?_
        intro s1 r1 hs1 hst1 htx1
        have hp : SndPres s s1 := fun h => ⟨by rw [segmentizing_congr hst1 htx1] at h; exact h, hs1⟩
        dsimp only
        split <;> split <;> first
          | exact ⟨_, _, rfl, hp⟩
          | exact ⟨_, _, rfl, fun h => by simp [segmentizing] at h⟩
    · -- LAST-ACK
      refine afterAck_pres _ seg _ (fun x => ∃ s' r, x = .ok (s', r) ∧ SndPres s s') ?_
      intro s1 r1 hs1 hst1 htx1
      have hp : SndPres s s1 := fun h => ⟨by rw [segmentizing_congr hst1 htx1] at h; exact h, hs1⟩
      split
      · exact ⟨_, _, rfl, hp⟩
      · split <;> exact ⟨_, _, rfl, hp⟩
    · -- TIME-WAIT
      exact ⟨_, _, rfl, SndPres.refl _⟩

theorem synBlock_pres (s : Tcb) (seg : Hdr) : ∃ s' r, synBlock s seg = .ok (s', r) ∧ SndPres s s' := by
  unfold synBlock
  split
  · split <;> exact ⟨_, _, rfl, SndPres.refl _⟩
  · split
    · rename_i hst
      dsimp only
      split
      · simp only [enqueueThen_eq]
        exact ⟨_, _, rfl, fun _ => ⟨seg_of_synSent hst, fun hi => sndInv_enqueueBuilt _ _ (hi.congr rfl rfl rfl rfl)⟩⟩
      · simp only [enqueueThen_eq]
        exact ⟨_, _, rfl, fun _ => ⟨seg_of_synSent hst, fun hi => sndInv_enqueueBuilt _ _ (hi.congr rfl rfl rfl rfl)⟩⟩
    · simp only [enqueueThen_eq]
      exact ⟨_, _, rfl, sndPres_enqueueBuilt _ _⟩

theorem textBlock_pres (s : Tcb) (seg : Hdr) (text : List UInt8) (tl : Seq) (s' : Tcb)
    (r : Option ProcessSegmentResult) (e : textBlock s seg text tl = .ok (s', r)) : SndPres s s' := by
  unfold textBlock at e
  split at e
  · cases e; exact SndPres.refl _
  · split at e
    all_goals first
      | (cases e; exact SndPres.refl _)
      | (dsimp only at e
         repeat' (split at e)
         all_goals first
           | (simp at e; done)
           | (rw [enqueueThen_eq] at e
              cases e
              exact fun h => ⟨by rw [segmentizing_enqueueBuilt] at h; exact h,
                fun hi => sndInv_enqueueBuilt _ _ (hi.congr rfl rfl rfl rfl)⟩))

theorem finBlock_pres (s : Tcb) (seg : Hdr) (tl : Seq) :
    ∃ s' r, finBlock s seg tl = .ok (s', r) ∧ SndPres s s' := by
  unfold finBlock
  split
  · exact ⟨_, _, rfl, SndPres.refl _⟩
  · dsimp only
    have key : ∃ s1, (if s.state ≠ .SynSent then
          if (decide (s.rcv.nxt = seg.seq + tl) || decide (s.rcv.nxt = seg.seq + tl + 1)) = true then
            ({ s with rcv.nxt := seg.seq + tl + 1 } : Tcb).enqueue
              ({ s with rcv.nxt := seg.seq + tl + 1 } : Tcb).ackHdr
          else Except.ok s
        else Except.ok s) = .ok s1 ∧ SndPres s s1 ∧ s1.state = s.state := by
      split
      · split
        · rw [enqueue_eq]
          refine ⟨_, rfl, fun h => ⟨by rw [segmentizing_enqueueBuilt] at h; exact h,
            fun hi => sndInv_enqueueBuilt _ _ (hi.congr rfl rfl rfl rfl)⟩, by rw [state_enqueueBuilt]⟩
        · exact ⟨_, rfl, SndPres.refl _, rfl⟩
      · exact ⟨_, rfl, SndPres.refl _, rfl⟩
    obtain ⟨s1, h1, hp1, hst1⟩ := key
    rw [h1]
    dsimp only
    -- the state transitions of the FIN block never enter a segmentizing state from outside
    have mk : ∀ s2 : Tcb, s2.snd = s1.snd → s2.outgoing = s1.outgoing →
        (segmentizing s2 = true → segmentizing s1 = true) → SndPres s s2 := fun s2 a b c =>
      hp1.trans (sndPres_congr c (by rw [a]) (by rw [a]) (by rw [a]) (by rw [b]))
    split
    all_goals first
      | exact ⟨_, _, rfl, hp1⟩
      | exact ⟨_, _, rfl, mk _ rfl rfl (fun h => by
          first
            | exact h
            | (rename_i hs; exact seg_of_synReceived hs)
            | (rename_i hs; exact seg_of_established hs)
            | (simp [segmentizing] at h))⟩
      | (rename_i hs
         split <;> exact ⟨_, _, rfl, mk _ rfl rfl (fun h => by
          first
            | (simp [segmentizing] at h; done)
            | (simp only [segmentizing] at h ⊢; rw [hs]; exact h))⟩)

/-- `process_segment` keeps the send-side invariant -/
theorem processSegment_pres (s : Tcb) (segment : Segment) (hp : segment.text.length ≤ MAX_PAYLOAD)
    (s' : Tcb) (r : ProcessSegmentResult) (e : s.processSegment segment = .ok (s', r)) : SndPres s s' := by
  unfold processSegment at e
  dsimp only at e
  have htl : (BitVec.ofNat 32 segment.text.length).toNat ≤ MAX_PAYLOAD := by
    simp only [BitVec.toNat_ofNat]; unfold MAX_PAYLOAD at hp ⊢; omega
  obtain ⟨s1, r1, e1, p1⟩ := seqCheck_pres s segment.hdr _ htl
  rw [e1] at e
  cases r1 with
  | some r1 => simp only [andThen_some] at e; cases e; exact p1
  | none =>
    simp only [andThen_none] at e
    obtain ⟨s2, r2, e2, p2⟩ := ackBlock_pres s1 segment.hdr
    rw [e2] at e
    cases r2 with
    | some r2 => simp only [andThen_some] at e; cases e; exact p1.trans p2
    | none =>
      simp only [andThen_none] at e
      obtain ⟨r3, e3⟩ := rstBlock_spec s2 segment.hdr
      rw [e3] at e
      cases r3 with
      | some r3 => simp only [andThen_some] at e; cases e; exact p1.trans p2
      | none =>
        simp only [andThen_none] at e
        obtain ⟨s4, r4, e4, p4⟩ := synBlock_pres s2 segment.hdr
        rw [e4] at e
        cases r4 with
        | some r4 => simp only [andThen_some] at e; cases e; exact (p1.trans p2).trans p4
        | none =>
          simp only [andThen_none] at e
          cases h5 : textBlock s4 segment.hdr segment.text (BitVec.ofNat 32 segment.text.length) with
          | error err => rw [h5] at e; simp [B.andThen] at e
          | ok p =>
            obtain ⟨s5, r5⟩ := p
            have p5 := textBlock_pres _ _ _ _ _ _ h5
            rw [h5] at e
            cases r5 with
            | some r5 => simp only [andThen_some] at e; cases e; exact ((p1.trans p2).trans p4).trans p5
            | none =>
              simp only [andThen_none] at e
              obtain ⟨s6, r6, e6, p6⟩ := finBlock_pres s5 segment.hdr (BitVec.ofNat 32 segment.text.length)
              rw [e6] at e
              cases r6 <;> (cases e; exact (((p1.trans p2).trans p4).trans p5).trans p6)

theorem drain_pres (fuel : Nat) (s : Tcb) (h : Wf s)
    (s' : Tcb) (r : SegmentArrivesResult) (e : drain fuel s = .ok (s', r)) : SndPres s s' := by
  induction fuel generalizing s with
  | zero => unfold drain at e; cases e; exact SndPres.refl _
  | succ n ih =>
    unfold drain at e
    split at e
    · cases e; exact SndPres.refl _
    · rename_i top hpeek
      split at e
      · cases e; exact SndPres.refl _
      · obtain ⟨rest, hpop⟩ := LHeap.pop_of_peek (le := segLe) hpeek
        rw [hpop] at e
        dsimp only at e
        have hmem := LHeap.mem_of_mem_pop hpop
        have wf0 : Wf { s with incoming.segments := rest } :=
          ⟨h.mtu_ge, h.rcv_wnd, h.in_text, fun seg hs => h.heap_text seg (hmem.2 seg hs)⟩
        obtain ⟨s1, r1, e1, rx1⟩ := processSegment_spec _ top wf0 (h.heap_text top hmem.1)
        have p1 : SndPres s s1 :=
          (sndPres_congr (s := s) (s' := { s with incoming.segments := rest }) id rfl rfl rfl rfl).trans
            (processSegment_pres _ top (h.heap_text top hmem.1) _ _ e1)
        rw [e1] at e
        dsimp only at e
        split at e
        · cases e; exact p1
        · exact p1.trans (ih s1 (wf0.of_rx rx1) e)

/-- `segment_arrives` keeps the send-side invariant -/
theorem segmentArrives_pres (s : Tcb) (segment : Segment) (h : Wf s)
    (hp : segment.text.length ≤ MAX_PAYLOAD) (s' : Tcb) (r : SegmentArrivesResult)
    (e : s.segmentArrives segment = .ok (s', r)) : SndPres s s' := by
  unfold segmentArrives at e
  dsimp only at e
  split at e
  · simp at e
  · rw [enqueue_eq] at e
    cases e
    exact sndPres_enqueueBuilt _ _
  · have wf0 : Wf { s with incoming.segments := LHeap.push segLe s.incoming.segments segment } :=
      ⟨h.mtu_ge, h.rcv_wnd, h.in_text, fun seg hs => by
        rcases LHeap.mem_push.1 hs with rfl | hs
        · exact hp
        · exact h.heap_text seg hs⟩
    exact (sndPres_congr (s := s)
      (s' := { s with incoming.segments := LHeap.push segLe s.incoming.segments segment }) id rfl rfl rfl rfl).trans
      (drain_pres _ _ wf0 _ _ e)

/-- with nothing queued the segmentization loop does nothing -/
theorem segmentize_nil (maxSeg fuel : Nat) (s : Tcb) (q : Nat) (h : s.outgoing.text = []) :
    segmentize maxSeg fuel s q = .ok s := by
  cases fuel with
  | zero => rfl
  | succ n => unfold segmentize; simp [h]

/-- `queue_fin` in a closing state: either the FIN is formed — the endpoint then never segmentizes
    again — or nothing happens; what is appended to the retransmission queue carries no text -/
theorem queueFin_pres (t t' : Tcb)
    (hcl : t.state = .FinWait1 ∨ t.state = .Closing ∨ t.state = .LastAck) (e : t.queueFin = .ok t') :
    SndPres t t' ∧ t'.state = t.state ∧
      ∃ new, t'.outgoing.retransmit = t.outgoing.retransmit ++ new ∧ ∀ x ∈ new, x.segment.text = [] := by
  unfold queueFin at e
  split at e
  · rename_i hempty
    rw [enqueue_eq] at e
    dsimp only at e
    cases e
    refine ⟨fun hseg => ?_, by simp only [state_enqueueBuilt], [Transmit.new ⟨t.finHdr.built, []⟩], ?_, ?_⟩
    · exfalso
      have htx := (enqueueBuilt_frame t t.finHdr.built).2.2.2.2.2.2.1
      rcases hcl with h | h | h <;>
        simp [segmentizing, state_enqueueBuilt, htx, h, hempty] at hseg
    · unfold enqueueBuilt
      rw [if_pos (by simp [finHdr, Hdr.built, Hdr.withFin, Hdr.withAck, Hdr.withWnd])]
    · intro x hx
      simp only [List.mem_singleton] at hx
      subst hx
      rfl
  · cases e
    exact ⟨SndPres.refl _, rfl, [], by simp, fun _ h => by simp at h⟩

/-- `segments()`: every segment handed to the network is a retransmission of a queued segment,
    carries no text, or is new data inside the send window; the invariant is kept -/
theorem segments_window (s : Tcb) (hok : SndOk s) (s' : Tcb) (out : List Segment)
    (e : s.segments = .ok (s', out)) :
    SndPres s s' ∧ ∀ seg ∈ out,
      seg.text = [] ∨ (∃ t ∈ s.outgoing.retransmit, t.segment = seg) ∨ InSendWindow s seg := by
  unfold segments at e
  dsimp only at e
  cases h1 : segmentizeIfOpen { s with outgoing.oneshot := [] } with
  | error err => rw [h1] at e; simp at e
  | ok s1 =>
    rw [h1] at e
    dsimp only at e
    cases h2 : finIfPending s.finPending s1 with
    | error err => rw [h2] at e; simp at e
    | ok s2 =>
    rw [h2] at e
    dsimp only at e
    -- what the segmentization step did
    have key : ∃ new, s1.outgoing.retransmit = s.outgoing.retransmit ++ new ∧
        (∀ t ∈ new, InSendWindow s t.segment) ∧ SndPres s s1 ∧ s1.state = s.state := by
      unfold segmentizeIfOpen at h1
      by_cases hseg : segmentizing s = true
      · have hinv : SndInv ({ s with outgoing.oneshot := [] } : Tcb) := (hok hseg).congr rfl rfl rfl rfl
        split at h1
        all_goals first
          | (split at h1
             · simp at h1
             · obtain ⟨new, r, w, inv, u, wn, i, st⟩ := segmentize_window _ _ _ _ rfl hinv s1 h1
               exact ⟨new, r, fun t ht => (inSendWindow_congr t.segment rfl rfl rfl).1 (w t ht),
                 fun _ => ⟨hseg, fun _ => inv⟩, st⟩)
          | (rename_i hne
             exfalso
             revert hseg
             cases hs : s.state <;> simp [segmentizing, hs] <;> simp_all)
      · have hfalse : segmentizing s = false := by simpa using hseg
        have : s1 = { s with outgoing.oneshot := [] } := by
          split at h1
          all_goals first
            | (cases h1; rfl)
            | (rename_i hs
               have hs' : s.state = _ := hs
               first
               | (exfalso; simp [segmentizing, hs'] at hfalse; done)
               | (have ht : s.outgoing.text = [] := by simpa [segmentizing, hs'] using hfalse
                  split at h1
                  · simp at h1
                  · rw [segmentize_nil] at h1
                    · cases h1; rfl
                    · exact ht))
        subst this
        exact ⟨[], by simp, fun _ h => by simp at h, sndPres_congr id rfl rfl rfl rfl, rfl⟩
    obtain ⟨new, hr, hw, hp1, hst1⟩ := key
    -- the FIN that waited for the text
    have key2 : ∃ new2, s2.outgoing.retransmit = s1.outgoing.retransmit ++ new2 ∧
        (∀ t ∈ new2, t.segment.text = []) ∧ SndPres s1 s2 := by
      unfold finIfPending at h2
      split at h2
      · rename_i hfp
        have hcl : s1.state = .FinWait1 ∨ s1.state = .Closing ∨ s1.state = .LastAck := by
          rw [hst1]
          unfold finPending at hfp
          cases hs : s.state <;> simp [hs] at hfp <;> simp
        obtain ⟨p, _, new2, hr2, ht2⟩ := queueFin_pres s1 s2 hcl h2
        exact ⟨new2, hr2, ht2, p⟩
      · cases h2
        exact ⟨[], by simp, fun _ h => by simp at h, SndPres.refl _⟩
    obtain ⟨new2, hr2, ht2, hp2⟩ := key2
    have hres : s' = (if (List.map (fun h => ({ hdr := h, text := [] } : Segment)) s.outgoing.oneshot ++
          List.map (·.segment) (List.filter (·.needsTransmit) s2.outgoing.retransmit)).isEmpty then
          { s2 with outgoing.retransmit := s2.outgoing.retransmit.map fun t => { t with needsTransmit := false } }
        else { s2 with outgoing.retransmit := s2.outgoing.retransmit.map fun t => { t with needsTransmit := false },
                       timeouts.retransmission := RTO }) ∧
        out = List.map (fun h => ({ hdr := h, text := [] } : Segment)) s.outgoing.oneshot ++
          List.map (·.segment) (List.filter (·.needsTransmit) s2.outgoing.retransmit) := by
      simp only [Except.ok.injEq, Prod.mk.injEq] at e
      exact ⟨e.1.symm, e.2.symm⟩
    obtain ⟨hs', hout⟩ := hres
    constructor
    · -- flags and timer only
      have flag : SndPres s2 s' := by
        rw [hs']
        split
        all_goals
          exact fun hst => ⟨hst, fun hi =>
            ⟨chain_map_flag _ _ _ hi.chain, by simp only; rw [rtxBytes_map_flag]; exact hi.bytes,
              by unfold synPending; simp only; rw [rtxBytes_map_flag]; exact hi.cover⟩⟩
      exact (hp1.trans hp2).trans flag
    · intro seg hseg
      rw [hout] at hseg
      rcases List.mem_append.1 hseg with h | h
      · obtain ⟨hd, _, rfl⟩ := List.mem_map.1 h
        exact Or.inl rfl
      · obtain ⟨t, ht, rfl⟩ := List.mem_map.1 h
        have ht' := (List.mem_filter.1 ht).1
        rw [hr2, hr] at ht'
        rcases List.mem_append.1 ht' with h | h
        · rcases List.mem_append.1 h with h | h
          · exact Or.inr (Or.inl ⟨t, h, rfl⟩)
          · exact Or.inr (Or.inr (hw t h))
        · exact Or.inl (ht2 t h)

theorem advanceTime_pres (s : Tcb) (dt : Nat) (s' : Tcb) (r : AdvanceTimeResult)
    (e : s.advanceTime dt = .ok (s', r)) : SndPres s s' := by
  have flag : ∀ (t : Tcb) (b : Bool) (tmo : Timeouts),
      SndPres t { t with outgoing.retransmit := t.outgoing.retransmit.map fun x => { x with needsTransmit := b },
                         timeouts := tmo } := fun t b tmo hst =>
    ⟨hst, fun hi => ⟨chain_map_flag _ _ _ hi.chain, by simp only; rw [rtxBytes_map_flag]; exact hi.bytes,
      by unfold synPending; simp only; rw [rtxBytes_map_flag]; exact hi.cover⟩⟩
  unfold advanceTime at e
  cases h1 : s.advanceRetransmission dt with
  | error err => rw [h1] at e; simp at e
  | ok s1 =>
    rw [h1] at e
    dsimp only at e
    have p1 : SndPres s s1 := by
      unfold advanceRetransmission at h1
      split at h1
      · cases h1; exact flag s true _
      · cases h1; exact sndPres_congr id rfl rfl rfl rfl
    split at e
    · split at e
      · cases e; exact p1
      · cases e; exact p1.trans (sndPres_congr id rfl rfl rfl rfl)
    · cases e; exact p1

theorem send_pres (s : Tcb) (m : List UInt8) : SndPres s (s.send m) := by
  unfold send
  split
  · rename_i hs
    exact fun _ => ⟨seg_of_synSent hs, fun hi => hi.congr rfl rfl rfl rfl⟩
  · rename_i hs
    exact fun _ => ⟨seg_of_synReceived hs, fun hi => hi.congr rfl rfl rfl rfl⟩
  · rename_i hs
    exact fun _ => ⟨seg_of_established hs, fun hi => hi.congr rfl rfl rfl rfl⟩
  · exact SndPres.refl _

theorem receive_pres (s : Tcb) : SndPres s s.receive.1 := by
  unfold receive
  split <;> exact sndPres_congr id rfl rfl rfl rfl

/-- `close` changes the state at once (from a segmentizing state) and forms the FIN when no text
    is queued — after which the endpoint never segmentizes again —, otherwise leaves that to
    `segments()`: the invariant carries over -/
theorem close_pres (s : Tcb) (s' : Tcb) (r : CloseResult) (e : s.close = .ok (s', r)) : SndPres s s' := by
  unfold close at e
  split at e
  · rename_i hs
    cases h1 : ({ s with state := .FinWait1 } : Tcb).queueFin with
    | error err => rw [h1] at e; simp at e
    | ok t =>
      rw [h1] at e
      cases e
      have p0 : SndPres s { s with state := .FinWait1 } :=
        fun _ => ⟨seg_of_synReceived hs, fun hi => hi.congr rfl rfl rfl rfl⟩
      exact p0.trans (queueFin_pres _ _ (Or.inl rfl) h1).1
  · rename_i hs
    cases h1 : ({ s with state := .FinWait1 } : Tcb).queueFin with
    | error err => rw [h1] at e; simp at e
    | ok t =>
      rw [h1] at e
      cases e
      have p0 : SndPres s { s with state := .FinWait1 } :=
        fun _ => ⟨seg_of_established hs, fun hi => hi.congr rfl rfl rfl rfl⟩
      exact p0.trans (queueFin_pres _ _ (Or.inl rfl) h1).1
  · rename_i hs
    cases h1 : ({ s with state := .LastAck } : Tcb).queueFin with
    | error err => rw [h1] at e; simp at e
    | ok t =>
      rw [h1] at e
      cases e
      have p0 : SndPres s { s with state := .LastAck } :=
        fun _ => ⟨seg_of_closeWait hs, fun hi => hi.congr rfl rfl rfl rfl⟩
      exact p0.trans (queueFin_pres _ _ (Or.inr (Or.inr rfl)) h1).1
  · cases e; exact SndPres.refl _

theorem sndInv_with_heap (t : Tcb) (heap : List Segment) (h : SndInv t) :
    SndInv { t with incoming.segments := heap } := h.congr rfl rfl rfl rfl

theorem open_sndOk (lp rp : U16) (iss : Seq) (mtu : U16) (s : Tcb) (e : Tcb.open lp rp iss mtu = .ok s) :
    SndOk s := by
  unfold Tcb.open at e
  dsimp only at e
  rw [enqueue_eq] at e
  cases e
  intro _
  refine sndInv_enqueueBuilt _ _ ⟨trivial, by simp, ?_⟩
  unfold synPending
  simp only [rtxBytes_nil, if_true]
  have : iss + 1 - iss = 1 := by bv_omega
  rw [this]; decide

theorem listen_sndOk (segment : Segment) (iss : Seq) (mtu : U16) (tcb : Tcb)
    (e : segmentArrivesListen segment iss mtu = .ok (some (.Tcb tcb))) : SndOk tcb := by
  unfold segmentArrivesListen at e
  dsimp only at e
  split at e
  · simp at e
  · split at e
    · cases hb : (Hdr.builder segment.hdr.dstPort segment.hdr.srcPort segment.hdr.ack).withRst.build 0 <;>
        simp [hb] at e
    · split at e
      · rw [enqueue_eq] at e
        dsimp only at e
        simp only [Except.ok.injEq, Option.some.injEq, ListenResult.Tcb.injEq] at e
        subst e
        intro _
        apply sndInv_with_heap
        apply sndInv_enqueueBuilt
        refine ⟨trivial, by simp, ?_⟩
        unfold synPending
        simp only [rtxBytes_nil, if_true]
        have : iss + 1 - iss = 1 := by bv_omega
        rw [this]; decide
      · simp at e

end Tcb
end Elvis.Tcp
