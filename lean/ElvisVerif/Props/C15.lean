import ElvisVerif.Lemmas.IpGenFetch
/-!
# C15 — Address allocation never hands the same address to two holders (generator part)

Property theorems only (helper lemmas: `Lemmas/IpGen.lean`, `Lemmas/IpGenFetch.lean`; the DHCP
clause is in `Props/C15Dhcp.lean`).

Reading guide.  `avail g a` = "address `a` lies in some free range of generator `g`".
`Net.WF n k` = `n` is a value `Ipv4Net`'s public constructors can build, with `k` host bits
(mask `2^32 - 2^k`, id aligned to `2^k`); `inNet n k a` = `id ≤ a ≤ id + 2^k - 1`.
`Sorted`/`Bounded` = the representation invariant (BTreeSet order, all bounds are `u32`).
Every spec also says *no panic* (`… = .ok …`).
-/
namespace Elvis.IpGen

/-- masks only come from `Ipv4Mask::from_bitcount` (or the validated `try_from`) -/
theorem c15_mask_of_bitcount (len : Nat) : fromBitcount len = 2 ^ 32 - 2 ^ (32 - min len 32) :=
  fromBitcount_eq len

/-- everything `Ipv4Net::new` / `new_short` / `new_1` builds is well formed -/
theorem c15_net_wf (ip len : Nat) (hip : ip < 2 ^ 32) :
    (Net.newShort ip len).WF (32 - min len 32) ∧ (Net.new1 ip).WF 0 := by
  refine ⟨?_, Net.new1_WF ip hip⟩
  unfold Net.newShort; rw [fromBitcount_eq]
  exact (Net.new_WF ip _ (by omega) hip).1

/-! ## T1: single operations -/

/-- `block_subnet`: never panics, keeps the invariant, removes exactly the net's addresses
    (from every free range, also overlapping ones). -/
theorem c15_block_spec (g : Gen) (n : Net) (k : Nat) (hs : Sorted g) (hb : Bounded g) (hn : n.WF k) :
    ∃ g', blockSubnet g n = .ok g' ∧ Sorted g' ∧ Bounded g' ∧
      ∀ a, avail g' a ↔ avail g a ∧ ¬ inNet n k a := by
  have hr := (Net.broadcast_WF hn).2
  have hr' : (n.id, n.id + (2 ^ k - 1)).1 ≤ U32MAX ∧ (n.id, n.id + (2 ^ k - 1)).2 ≤ U32MAX :=
    ⟨by show n.id ≤ U32MAX; omega, hr⟩
  obtain ⟨g', he, _, hs', hb'⟩ := blockRange_ok g (n.id, n.id + (2 ^ k - 1)) hr'
  refine ⟨g', ?_, hs' hs, hb' hb, fun a => avail_blockRange hr' hb he a⟩
  unfold blockSubnet; rw [Net.toRange_WF hn]; exact he

/-- `return_subnet` (and `return_ip`, `k = 0`): never panics, keeps the invariant, makes exactly
    the net's addresses available in addition. -/
theorem c15_return_spec (g : Gen) (n : Net) (k : Nat) (hs : Sorted g) (hb : Bounded g) (hn : n.WF k) :
    ∃ g', returnSubnet g n = .ok g' ∧ Sorted g' ∧ Bounded g' ∧
      ∀ a, avail g' a ↔ avail g a ∨ inNet n k a := by
  have hr := (Net.broadcast_WF hn).2
  refine ⟨insert (n.id, n.id + (2 ^ k - 1)) g, ?_, sorted_insert _ _ hs,
    bounded_insert hb ⟨by show n.id ≤ U32MAX; omega, hr⟩, ?_⟩
  · unfold returnSubnet; rw [Net.toRange_WF hn]; rfl
  · intro a; rw [avail_insert]; exact Or.comm

theorem c15_return_ip_spec (g : Gen) (ip : Nat) (hs : Sorted g) (hb : Bounded g) (hip : ip < 2 ^ 32) :
    ∃ g', returnIp g ip = .ok g' ∧ Sorted g' ∧ Bounded g' ∧ ∀ a, avail g' a ↔ avail g a ∨ a = ip := by
  obtain ⟨g', he, h1, h2, h3⟩ := c15_return_spec g (Net.new1 ip) 0 hs hb (Net.new1_WF ip hip)
  refine ⟨g', he, h1, h2, fun a => ?_⟩
  have : inNet (Net.new1 ip) 0 a ↔ a = ip := by unfold inNet Net.new1; simp; omega
  rw [h3 a, this]

/-- `fetch_net(mask)`: never panics.  `Some(net)`: the net has the requested mask, is aligned
    (`Net.WF`), lay entirely in the free space before, is gone from the free space after, and
    nothing else changed.  `None`: the generator is unchanged. -/
theorem c15_fetch_spec (g : Gen) (k : Nat) (hk : k ≤ 32) (hs : Sorted g) (hb : Bounded g) :
    ∃ g' r, fetchNet g (2 ^ 32 - 2 ^ k) = .ok (g', r) ∧ Sorted g' ∧ Bounded g' ∧
      (match r with
       | some n => n.WF k ∧ n.mask = 2 ^ 32 - 2 ^ k ∧ n.id % 2 ^ k = 0 ∧
                   (∀ a, inNet n k a → avail g a) ∧
                   (∀ a, inNet n k a → ¬ avail g' a) ∧
                   (∀ a, avail g' a ↔ avail g a ∧ ¬ inNet n k a)
       | none => g' = g) := by
  obtain ⟨res, he, hspec⟩ := fetchLoop_spec g k hk g hb
  obtain ⟨g', r⟩ := res
  refine ⟨g', r, he, ?_⟩
  cases r with
  | none => simp only at hspec; rw [hspec.1]; exact ⟨hs, hb, rfl⟩
  | some n =>
    simp only at hspec
    obtain ⟨hwf, hm, ⟨av, hav, h1, h2⟩, hbr⟩ := hspec
    have hr := (Net.broadcast_WF hwf).2
    have hr' : (n.id, n.id + (2 ^ k - 1)).1 ≤ U32MAX ∧ (n.id, n.id + (2 ^ k - 1)).2 ≤ U32MAX :=
      ⟨by show n.id ≤ U32MAX; omega, hr⟩
    obtain ⟨g'', he', _, hs', hb'⟩ := blockRange_ok g (n.id, n.id + (2 ^ k - 1)) hr'
    rw [hbr] at he'; cases he'
    have hav' := fun a => avail_blockRange hr' hb hbr a
    refine ⟨hs' hs, hb' hb, hwf, hm, hwf.2.2.1, ?_, ?_, hav'⟩
    · intro a ha; exact ⟨av, hav, by unfold inNet at ha; unfold inR; omega⟩
    · intro a ha h; exact ((hav' a).1 h).2 ha

/-- `fetch_net` answers `None` exactly when no single free range contains an aligned block of the
    requested size.  (Free ranges are never merged: see `c15_fetch_net_fragmented`.) -/
theorem c15_fetch_net_none (g : Gen) (k : Nat) (hk : k ≤ 32) (hb : Bounded g) :
    (∃ g', fetchNet g (2 ^ 32 - 2 ^ k) = .ok (g', none)) ↔
    ∀ av ∈ g, ∀ id, id % 2 ^ k = 0 → av.1 ≤ id → ¬ (id + (2 ^ k - 1) ≤ av.2) := by
  obtain ⟨res, he, hspec⟩ := fetchLoop_spec g k hk g hb
  obtain ⟨g', r⟩ := res
  constructor
  · rintro ⟨g'', he'⟩
    unfold fetchNet at he'; rw [he] at he'
    cases he'
    exact hspec.2
  · intro hno
    cases r with
    | none => exact ⟨g', he⟩
    | some n =>
      exfalso
      simp only at hspec
      obtain ⟨hwf, _, ⟨av, hav, h1, h2⟩, _⟩ := hspec
      exact hno av hav n.id hwf.2.2.1 h1 h2

/-- the free space can hold an aligned /31 while `fetch_net(/31)` says `None`: two adjacent
    returned /32 are two ranges.  (Safe direction: `None` never double-allocates.) -/
theorem c15_fetch_net_fragmented :
    ∃ g, returnIp [(0, 0)] 1 = .ok g ∧ avail g 0 ∧ avail g 1 ∧
      fetchNet g (fromBitcount 31) = .ok (g, none) := by
  exact ⟨[(0, 0), (1, 1)], rfl, ⟨(0, 0), by simp, by simp [inR]⟩, ⟨(1, 1), by simp, by simp [inR]⟩, rfl⟩

/-- `fetch_ip`: `None` iff nothing at all is available ("reports exhaustion"). -/
theorem c15_fetch_ip_none_iff (g : Gen) (hb : Bounded g) :
    (∃ g', fetchIp g = .ok (g', none)) ↔ ∀ a, ¬ avail g a := by
  have h0 := c15_fetch_net_none g 0 (by omega) hb
  have hm : fromBitcount 32 = 2 ^ 32 - 2 ^ 0 := fromBitcount_32
  have hiff : (∃ g', fetchIp g = .ok (g', none)) ↔ (∃ g', fetchNet g (2 ^ 32 - 2 ^ 0) = .ok (g', none)) := by
    unfold fetchIp; rw [hm]
    constructor
    · rintro ⟨g', h⟩
      cases hf : fetchNet g (2 ^ 32 - 2 ^ 0) with
      | error e => rw [hf] at h; cases h
      | ok res =>
        obtain ⟨g'', r⟩ := res
        rw [hf] at h
        cases r with
        | none => exact ⟨g'', rfl⟩
        | some n => cases h
    · rintro ⟨g', h⟩; exact ⟨g', by rw [h]; rfl⟩
  rw [hiff, h0]
  constructor
  · intro h a ⟨r, hr, hin⟩
    exact h r hr a (Nat.mod_one _) hin.1 (by have := hin.2; simpa using this)
  · intro h av hav id _ h1 h2
    exact h id ⟨av, hav, h1, by simpa using h2⟩

/-- `fetch_ip` = `fetch_net(/32)` then `.id()`: the address was available, is not afterwards. -/
theorem c15_fetch_ip_spec (g : Gen) (hs : Sorted g) (hb : Bounded g) :
    ∃ g' r, fetchIp g = .ok (g', r) ∧ Sorted g' ∧ Bounded g' ∧
      (match r with
       | some ip => ip < 2 ^ 32 ∧ avail g ip ∧ ∀ a, avail g' a ↔ avail g a ∧ a ≠ ip
       | none => g' = g) := by
  obtain ⟨g', r, he, hs', hb', hspec⟩ := c15_fetch_spec g 0 (by omega) hs hb
  refine ⟨g', r.map (·.id), ?_, hs', hb', ?_⟩
  · unfold fetchIp; rw [fromBitcount_32, he]
  · cases r with
    | none => exact hspec
    | some n =>
      simp only [Option.map] at hspec ⊢
      obtain ⟨hwf, _, _, h1, _, h3⟩ := hspec
      refine ⟨hwf.2.2.2, h1 n.id (by unfold inNet; omega), fun a => ?_⟩
      rw [h3 a]; unfold inNet; simp; omega

/-- `is_available`, as coded: `true` exactly when NO free range contains the whole net
    (the name suggests the opposite; both callers rely on this polarity). -/
theorem c15_is_available_spec (g : Gen) (n : Net) (k : Nat) (hn : n.WF k) :
    isAvailable g n = .ok (decide (¬ ∃ av ∈ g, av.1 ≤ n.id ∧ n.id + (2 ^ k - 1) ≤ av.2)) := by
  unfold isAvailable; rw [Net.toRange_WF hn]
  dsimp only
  congr 1
  rw [Bool.eq_iff_iff]
  simp [contains, List.any_eq_true]

/-! ## constructors -/

theorem c15_new_spec (r : Range) (hr : r.1 ≤ U32MAX ∧ r.2 ≤ U32MAX) :
    Sorted (new r) ∧ Bounded (new r) ∧ ∀ a, avail (new r) a ↔ r.1 ≤ a ∧ a ≤ r.2 := by
  refine ⟨sorted_insert r [] List.Pairwise.nil, bounded_insert (fun _ h => by cases h) hr, fun a => ?_⟩
  show avail (insert r []) a ↔ _
  rw [avail_insert]; unfold avail inR; simp

theorem c15_new_sub_spec (n : Net) (k : Nat) (hn : n.WF k) :
    ∃ g, newSub n = .ok g ∧ Sorted g ∧ Bounded g ∧ ∀ a, avail g a ↔ inNet n k a := by
  obtain ⟨hb, hle⟩ := Net.broadcast_WF hn
  have h := c15_new_spec (n.id, n.id + (2 ^ k - 1)) ⟨by show n.id ≤ U32MAX; omega, hle⟩
  exact ⟨_, by unfold newSub; rw [hb], h.1, h.2.1, h.2.2⟩

/-- `new_sub_no_ends` (after the fix): exactly the host addresses, i.e. the subnet minus its
    network id and its broadcast address; nothing for /31 and /32. -/
theorem c15_sub_no_ends_spec (n : Net) (k : Nat) (hn : n.WF k) :
    ∃ g, newSubNoEnds n = .ok g ∧ Sorted g ∧ Bounded g ∧
      ∀ a, avail g a ↔ n.id < a ∧ a < n.id + (2 ^ k - 1) := by
  obtain ⟨hb, hle⟩ := Net.broadcast_WF hn
  unfold newSubNoEnds
  rw [hb]
  dsimp only
  rw [add_one, add_neg_one]
  by_cases h1 : n.id < U32MAX
  · by_cases h2 : 0 < n.id + (2 ^ k - 1)
    · rw [if_pos h1, if_pos h2]
      have h := c15_new_spec (n.id + 1, n.id + (2 ^ k - 1) - 1) ⟨by show n.id + 1 ≤ U32MAX; omega, by show _ - 1 ≤ U32MAX; omega⟩
      refine ⟨_, rfl, h.1, h.2.1, fun a => ?_⟩
      rw [h.2.2 a]; simp only; omega
    · rw [if_pos h1, if_neg h2]
      refine ⟨none_, rfl, List.Pairwise.nil, bounded_nil, fun a => ?_⟩
      unfold avail none_; simp; omega
  · rw [if_neg h1]
    refine ⟨none_, rfl, List.Pairwise.nil, bounded_nil, fun a => ?_⟩
    unfold avail none_; simp; omega

/-- F-C15-1 (fixed in the repository): the original `new_sub_no_ends` computed its end from
    `net.id()` instead of `net.broadcast()`; for 10.0.0.0/24 it stored the empty range
    `10.0.0.1 ..= 9.255.255.255` and offered none of the 254 host addresses. -/
theorem c15_sub_no_ends_counterexample :
    ∃ g, newSubNoEndsOrig (Net.newShort 0x0A000000 24) = .ok g ∧ (∀ a, ¬ avail g a) ∧
      (Net.newShort 0x0A000000 24).id < 0x0A000001 ∧
      0x0A000001 < (Net.newShort 0x0A000000 24).id + (2 ^ 8 - 1) := by
  refine ⟨[(0x0A000001, 0x09FFFFFF)], rfl, ?_, by decide, by decide⟩
  rintro a ⟨r, hr, hin⟩
  rw [List.mem_singleton] at hr; subst hr
  unfold inR at hin; simp at hin; omega

/-! ## the main invariant: any history -/

/-- generator + ghost state: who holds what, what is blocked, what the pool is -/
structure Sys where
  g : Gen
  /-- outstanding nets (handed out by `fetch_*`, not yet returned) with their host-bit count -/
  held : List (Net × Nat)
  /-- addresses currently blocked by `block_subnet` (a later return un-blocks) -/
  blocked : Nat → Prop
  /-- the configured pool: initially free addresses plus everything donated by returns -/
  pool : Nat → Prop

inductive Op
  /-- `block_subnet(n)` -/
  | block (n : Net) (k : Nat)
  /-- `fetch_net(mask with k host bits)`; `k = 0` is `fetch_ip` -/
  | fetch (k : Nat)
  /-- `return_subnet(n)` / `return_ip` of something that is held -/
  | ret (n : Net) (k : Nat)
  /-- `return_subnet(n)` of addresses nobody holds: enlarges the pool ("unions created by returns") -/
  | donate (n : Net) (k : Nat)

/-- the histories the property quantifies over: anything may be blocked or fetched,
    only held nets are returned, donations do not touch held nets -/
def Op.valid (s : Sys) : Op → Prop
  | .block n k => n.WF k
  | .fetch k => k ≤ 32
  | .ret n k => (n, k) ∈ s.held
  | .donate n k => n.WF k ∧ ∀ h ∈ s.held, ∀ a, inNet h.1 h.2 a → ¬ inNet n k a

def step (s : Sys) : Op → Except String Sys
  | .block n k =>
    match blockSubnet s.g n with
    | .error e => .error e
    | .ok g' => .ok { s with g := g', blocked := fun a => s.blocked a ∨ inNet n k a }
  | .fetch k =>
    match fetchNet s.g (2 ^ 32 - 2 ^ k) with
    | .error e => .error e
    | .ok (g', none) => .ok { s with g := g' }
    | .ok (g', some n) => .ok { s with g := g', held := (n, k) :: s.held }
  | .ret n k =>
    match returnSubnet s.g n with
    | .error e => .error e
    | .ok g' => .ok { s with g := g', held := s.held.erase (n, k),
                             blocked := fun a => s.blocked a ∧ ¬ inNet n k a }
  | .donate n k =>
    match returnSubnet s.g n with
    | .error e => .error e
    | .ok g' => .ok { s with g := g', pool := fun a => s.pool a ∨ inNet n k a,
                             blocked := fun a => s.blocked a ∧ ¬ inNet n k a }

def disjointNets (h1 h2 : Net × Nat) : Prop := ∀ a, inNet h1.1 h1.2 a → ¬ inNet h2.1 h2.2 a

/-- what must hold in every reachable state -/
structure Inv (s : Sys) : Prop where
  sorted : Sorted s.g
  bounded : Bounded s.g
  heldWF : ∀ h ∈ s.held, h.1.WF h.2
  /-- outstanding holdings are pairwise disjoint -/
  heldDisjoint : s.held.Pairwise disjointNets
  /-- nothing held is offered again, and everything held came from the pool -/
  heldNotAvail : ∀ h ∈ s.held, ∀ a, inNet h.1 h.2 a → ¬ avail s.g a ∧ s.pool a
  availInPool : ∀ a, avail s.g a → s.pool a
  blockedNotAvail : ∀ a, s.blocked a → ¬ avail s.g a

def init (g0 : Gen) : Sys := { g := g0, held := [], blocked := fun _ => False, pool := avail g0 }

inductive Reach (s0 : Sys) : Sys → Prop
  | init : Reach s0 s0
  | step {s s' : Sys} (op : Op) : Reach s0 s → op.valid s → step s op = .ok s' → Reach s0 s'

theorem disjointNets_symm (a b : Net × Nat) (h : disjointNets a b) : disjointNets b a :=
  fun x hb ha => h x ha hb

/-- one valid operation never panics and preserves the invariant -/
theorem c15_step_inv (s : Sys) (op : Op) (hi : Inv s) (hv : op.valid s) :
    ∃ s', step s op = .ok s' ∧ Inv s' := by
  cases op with
  | block n k =>
    obtain ⟨g', he, hs', hb', hav⟩ := c15_block_spec s.g n k hi.sorted hi.bounded hv
    refine ⟨{ s with g := g', blocked := fun a => s.blocked a ∨ inNet n k a },
      by simp only [step]; rw [he], ⟨hs', hb', hi.heldWF, hi.heldDisjoint, ?_, ?_, ?_⟩⟩
    · intro h hh a ha
      have := hi.heldNotAvail h hh a ha
      exact ⟨fun h' => this.1 ((hav a).1 h').1, this.2⟩
    · intro a h'; exact hi.availInPool a ((hav a).1 h').1
    · intro a hbl h'
      have := (hav a).1 h'
      rcases hbl with hbl | hbl
      · exact hi.blockedNotAvail a hbl this.1
      · exact this.2 hbl
  | fetch k =>
    obtain ⟨g', r, he, hs', hb', hspec⟩ := c15_fetch_spec s.g k hv hi.sorted hi.bounded
    cases r with
    | none =>
      simp only at hspec
      subst hspec
      exact ⟨{ s with g := s.g }, by simp only [step]; rw [he], ⟨hs', hb', hi.heldWF, hi.heldDisjoint,
        hi.heldNotAvail, hi.availInPool, hi.blockedNotAvail⟩⟩
    | some n =>
      simp only at hspec
      obtain ⟨hwf, _, _, hsub, hgone, hav⟩ := hspec
      refine ⟨{ s with g := g', held := (n, k) :: s.held },
        by simp only [step]; rw [he], ⟨hs', hb', ?_, ?_, ?_, ?_, ?_⟩⟩
      · intro h hh
        rcases List.mem_cons.1 hh with rfl | hh
        · exact hwf
        · exact hi.heldWF h hh
      · refine List.pairwise_cons.2 ⟨?_, hi.heldDisjoint⟩
        intro h hh a ha hha
        exact (hi.heldNotAvail h hh a hha).1 (hsub a ha)
      · intro h hh a ha
        rcases List.mem_cons.1 hh with rfl | hh
        · exact ⟨hgone a ha, hi.availInPool a (hsub a ha)⟩
        · have := hi.heldNotAvail h hh a ha
          exact ⟨fun h' => this.1 ((hav a).1 h').1, this.2⟩
      · intro a h'; exact hi.availInPool a ((hav a).1 h').1
      · intro a hbl h'; exact hi.blockedNotAvail a hbl ((hav a).1 h').1
  | ret n k =>
    have hwf := hi.heldWF (n, k) hv
    obtain ⟨g', he, hs', hb', hav⟩ := c15_return_spec s.g n k hi.sorted hi.bounded hwf
    have hsub : ∀ h ∈ s.held.erase (n, k), h ∈ s.held := fun h hh => List.mem_of_mem_erase hh
    refine ⟨{ s with g := g', held := s.held.erase (n, k), blocked := fun a => s.blocked a ∧ ¬ inNet n k a },
      by simp only [step]; rw [he], ⟨hs', hb', fun h hh => hi.heldWF h (hsub h hh),
      hi.heldDisjoint.sublist List.erase_sublist, ?_, ?_, ?_⟩⟩
    · intro h hh a ha
      have hh : h ∈ s.held.erase (n, k) := hh
      have := hi.heldNotAvail h (hsub h hh) a ha
      refine ⟨fun h' => ?_, this.2⟩
      rcases (hav a).1 h' with h'' | h''
      · exact this.1 h''
      · exact pairwise_erase_rel disjointNets_symm hi.heldDisjoint hv h hh a h'' ha
    · intro a h'
      rcases (hav a).1 h' with h'' | h''
      · exact hi.availInPool a h''
      · exact (hi.heldNotAvail (n, k) hv a h'').2
    · intro a hbl h'
      rcases (hav a).1 h' with h'' | h''
      · exact hi.blockedNotAvail a hbl.1 h''
      · exact hbl.2 h''
  | donate n k =>
    obtain ⟨g', he, hs', hb', hav⟩ := c15_return_spec s.g n k hi.sorted hi.bounded hv.1
    refine ⟨{ s with g := g', pool := fun a => s.pool a ∨ inNet n k a, blocked := fun a => s.blocked a ∧ ¬ inNet n k a },
      by simp only [step]; rw [he], ⟨hs', hb', hi.heldWF, hi.heldDisjoint, ?_, ?_, ?_⟩⟩
    · intro h hh a ha
      have := hi.heldNotAvail h hh a ha
      refine ⟨fun h' => ?_, .inl this.2⟩
      rcases (hav a).1 h' with h'' | h''
      · exact this.1 h''
      · exact hv.2 h hh a ha h''
    · intro a h'
      rcases (hav a).1 h' with h'' | h''
      · exact .inl (hi.availInPool a h'')
      · exact .inr h''
    · intro a hbl h'
      rcases (hav a).1 h' with h'' | h''
      · exact hi.blockedNotAvail a hbl.1 h''
      · exact hbl.2 h''

/-- **C15, generator**: over ANY history of block / fetch_ip / fetch_net / return operations in
    which only held nets are returned (plus pool-extending returns of unheld addresses), starting
    from any well-formed generator: outstanding holdings are pairwise disjoint, nothing held and
    nothing blocked is on offer, and every holding and every offer lies inside the pool.
    Induction over the history. -/
theorem c15_unique (g0 : Gen) (hs : Sorted g0) (hb : Bounded g0) (s : Sys) (hr : Reach (init g0) s) :
    Inv s := by
  induction hr with
  | init =>
    exact ⟨hs, hb, fun _ h => (by cases h), List.Pairwise.nil, fun _ h => (by cases h),
      fun _ h => h, fun _ h => h.elim⟩
  | step op _ hv he ih =>
    obtain ⟨s'', he', hi'⟩ := c15_step_inv _ op ih hv
    rw [he] at he'; cases he'; exact hi'

/-- no operation of a valid history panics -/
theorem c15_no_panic (g0 : Gen) (hs : Sorted g0) (hb : Bounded g0) (s : Sys) (hr : Reach (init g0) s)
    (op : Op) (hv : op.valid s) : ∃ s', step s op = .ok s' :=
  let ⟨s', h, _⟩ := c15_step_inv s op (c15_unique g0 hs hb s hr) hv
  ⟨s', h⟩

/-- what a fetch hands out, in any reachable state: an aligned net of the requested size, inside
    the pool, not blocked, disjoint from everything still held; `None` changes nothing. -/
theorem c15_fetch_fresh (g0 : Gen) (hs : Sorted g0) (hb : Bounded g0) (s : Sys) (hr : Reach (init g0) s)
    (k : Nat) (hk : k ≤ 32) (g' : Gen) (n : Net) (he : fetchNet s.g (2 ^ 32 - 2 ^ k) = .ok (g', some n)) :
    n.WF k ∧ ∀ a, inNet n k a → s.pool a ∧ ¬ s.blocked a ∧ ∀ h ∈ s.held, ¬ inNet h.1 h.2 a := by
  have hi := c15_unique g0 hs hb s hr
  obtain ⟨g'', r, he', _, _, hspec⟩ := c15_fetch_spec s.g k hk hi.sorted hi.bounded
  rw [he] at he'; cases he'
  simp only at hspec
  obtain ⟨hwf, _, _, hsub, _, _⟩ := hspec
  refine ⟨hwf, fun a ha => ⟨hi.availInPool a (hsub a ha), fun hbl => hi.blockedNotAvail a hbl (hsub a ha),
    fun h hh hha => (hi.heldNotAvail h hh a hha).1 (hsub a ha)⟩⟩

/-- returned addresses are available again -/
theorem c15_returned_available (s s' : Sys) (n : Net) (k : Nat) (hi : Inv s) (hv : (Op.ret n k).valid s)
    (he : step s (.ret n k) = .ok s') : ∀ a, inNet n k a → avail s'.g a := by
  have hwf := hi.heldWF (n, k) hv
  obtain ⟨g', he', _, _, hav⟩ := c15_return_spec s.g n k hi.sorted hi.bounded hwf
  have hst : step s (.ret n k) =
      .ok { s with g := g', held := s.held.erase (n, k), blocked := fun a => s.blocked a ∧ ¬ inNet n k a } := by
    simp only [step]; rw [he']
  rw [hst] at he; cases he
  intro a ha; exact (hav a).2 (.inr ha)

/-! ## non-vacuity -/

/-- the hypotheses are satisfiable by a non-trivial generator: 10.0.0.0/24 with .7 blocked -/
example : ∃ g, blockSubnet (new (0x0A000000, 0x0A0000FF)) (Net.new1 0x0A000007) = .ok g ∧
    g = [(0x0A000000, 0x0A000006), (0x0A000008, 0x0A0000FF)] ∧ Sorted g ∧ Bounded g := by
  refine ⟨[(0x0A000000, 0x0A000006), (0x0A000008, 0x0A0000FF)], rfl, rfl, by unfold Sorted; decide, ?_⟩
  intro r hr; simp at hr; rcases hr with rfl | rfl <;> decide

/-- a reachable state with two holdings and a return, to show `Reach`/`valid` are inhabited -/
example : ∃ s, Reach (init (new (0, 255))) s ∧ s.held.length = 1 := by
  have h1 : step (init (new (0, 255))) (.fetch 0) =
      .ok { init (new (0, 255)) with g := [(1, 255)], held := [(⟨0, 4294967295⟩, 0)] } := rfl
  exact ⟨_, Reach.step (.fetch 0) Reach.init (by show 0 ≤ 32; omega) h1, rfl⟩

end Elvis.IpGen
